package rules

import (
	"fmt"
	"go/ast"
	"go/constant"
	"go/token"
	"go/types"
	"path/filepath"
	"regexp"
	"sort"
	"strings"

	"golang.org/x/tools/go/packages"

	"verif/checker/internal/eval"
	"verif/checker/internal/flow"
	"verif/checker/internal/load"
	"verif/checker/internal/ref"
)

const (
	mainPkg   = load.Mod + "/cmd/minify"
	taskT     = mainPkg + ".Task"
	openOut   = mainPkg + ".openOutputFile"
	openIn    = mainPkg + ".openInputFile"
	openIns   = mainPkg + ".openInputFiles"
	tryDo     = "github.com/matryer/try.Do"
	minifyFn  = mainPkg + ".minify"
	bakSuffix = ".bak"
)

func init() {
	mutant(&Mutant{Name: "c19-sync-skips-the-extension-lookup", Property: "C19", File: "cmd/minify/main.go",
		Old: "if mimetype == \"\" && valid {", New: "if mimetype == \"\" && valid && !sync {",
		Rule: "R19.24", Construct: "has a media type or is copied"})
	register(&Property{
		ID:    "C20",
		Level: "other",
		Explain: "The crash-point quantifier ranges over prefixes of the system-call sequence of one function (cmd/minify.minify); the guarantee is an ordering invariant on its CFG (process kill, so no fsync is needed): (R20.1) the only truncating open is reached, for a named destination, only through the overwrite-detection loop, and when a source is the destination file the original is first renamed to the backup and the rename's error is tested; " +
			"(R20.2) inputs are opened (and the error tested) before the output is truncated; (R20.3) the backup is removed only after the output was closed and only when the copy succeeded, otherwise the destination is removed and the backup renamed back; (R20.4) every file-system mutating call of the command has a path argument that is the destination, a directory of it, or the backup — never a source; " +
			"(R20.5) the name the backup is created under is the same expression as the name it is later recognised by. try.Do runs its function literal at least once (matryer/try, trusted).",
		Run: runC20,
	})
	register(&Property{
		ID:    "C19",
		Level: "other",
		Explain: "Destination computation over directory trees is a runtime matter and not decided. Decided on the CFG of cmd/minify: (R19.1) when the library fails for a file, the bytes written to the destination are the original bytes read from the input and the task is reported as failed; (R19.2) task loops never stop early, every failed task increments the failure counter, worker counters are summed, and the exit status is non-zero exactly when the counter is positive; " +
			"(R19.3 = R20.4) only destinations and backups are mutated; (R19.4) the bundle separator \";\\n\" is passed exactly under the JavaScript media type test; (R19.5 = R20.5) a file minified onto itself leaves no backup behind because the backup's creation and removal names agree.",
		Run: runC19,
	})
	mutant(&Mutant{Name: "c19-mirror-path-may-leave-the-output", Property: "C19", File: "cmd/minify/main.go",
		Old: "\t\t} else if rel == \"..\" || strings.HasPrefix(rel, \"..\"+string(os.PathSeparator)) {\n\t\t\treturn Task{}, fmt.Errorf(\"%v is not inside %v and would be written outside of %v\", input, root, output)\n", New: "",
		Rule: "R19.17", Construct: "destination stays inside the output directory"})
	mutant(&Mutant{Name: "c19-mirror-path-by-prefix-cut", Property: "C19", File: "cmd/minify/main.go",
		Old: "\t\toutput = filepath.Join(output, rel)\n", New: "\t\t_ = rel\n\t\toutput = filepath.Join(output, strings.TrimPrefix(input, root))\n",
		Rule: "R19.16", Construct: "destination under a directory output"})
	mutant(&Mutant{Name: "c19-extension-mapped-to-unregistered-type", Property: "C19", File: "cmd/minify/main.go",
		Old: "\"rss\":         \"application/rss+xml\",", New: "\"rss\":         \"application/rss-xml\",",
		Rule: "R19.15", Construct: "extMap[rss]"})
	mutant(&Mutant{Name: "c19-watch-map-shares-loop-variable", Property: "C19", File: "cmd/minify/main.go",
		Old: "\t\t\t\ttask := task // one variable per task, the map keeps its address\n", New: "",
		Rule: "R19.9", Construct: "&task of the range loop"})
	mutant(&Mutant{Name: "c19-separator-only-for-one-js-type", Property: "C19", File: "cmd/minify/main.go",
		Old: "\t\tif err == nil && jsMimetypeRegexp.MatchString(fileMimetype) {", New: "\t\tif err == nil && fileMimetype == extMap[\"js\"] {",
		Rule: "R19.4", Construct: "bundle separator"})
	mutant(&Mutant{Name: "c19-single-star-translated-first", Property: "C19", File: "cmd/minify/main.go",
		Old: "\t\tpattern = strings.ReplaceAll(pattern, `\\*\\*`, `.*`)\n\t\tpattern = strings.ReplaceAll(pattern, `\\*`, fmt.Sprintf(`[^%c]*`, filepath.Separator))\n", New: "\t\tpattern = strings.ReplaceAll(pattern, `\\*`, fmt.Sprintf(`[^%c]*`, filepath.Separator))\n\t\tpattern = strings.ReplaceAll(pattern, `\\*\\*`, `.*`)\n",
		Rule: "R19.12", Construct: "replaced before"})
	mutant(&Mutant{Name: "c19-first-filter-wins", Property: "C19", File: "cmd/minify/main.go",
		Old: "\t\t\tmatch = filters[i][0] == '+'\n", New: "\t\t\tmatch = filters[i][0] == '+'\n\t\t\tbreak\n",
		Rule: "R19.10", Construct: "filter loop"})
	mutant(&Mutant{Name: "c19-separator-from-start", Property: "C19", File: "cmd/minify/io.go",
		Old: "m := copy(p, r.sep[len(r.sep)-r.sepLeft:])", New: "m := copy(p, r.sep[:r.sepLeft])",
		Rule: "R19.8", Construct: "copy of the pending"})
	mutant(&Mutant{Name: "c19-bundle-takes-last-file", Property: "C19", File: "cmd/minify/io.go",
		Old: "\t\t\tfilename, r.filenames = r.filenames[0], r.filenames[1:]\n", New: "\t\t\tfilename, r.filenames = r.filenames[len(r.filenames)-1], r.filenames[:len(r.filenames)-1]\n",
		Rule: "R19.8", Construct: "next file is the first"})
	mutant(&Mutant{Name: "c19-separator-armed-after-last", Property: "C19", File: "cmd/minify/io.go",
		Old: "\t\t\tr.sepLeft = len(r.sep)\n\n", New: "\n",
		Old2: "\t\tr.cur = nil\n\n", New2: "\t\tr.cur = nil\n\t\tr.sepLeft = len(r.sep)\n\n",
		Rule: "R19.8", Construct: "separator armed"})
	mutant(&Mutant{Name: "c20-backup-replaces-existing-file", Property: "C20", File: "cmd/minify/main.go",
		Old: "\t\t\t\tif _, err := os.Lstat(srcs[i]); err == nil {\n", New: "\t\t\t\tif _, err := os.Lstat(t.dst); err != nil {\n",
		Rule: "R20.8", Construct: "backup rename"})
	mutant(&Mutant{Name: "c20-samefile-only-for-equal-names", Property: "C20", File: "cmd/minify/main.go",
		Old: "\t\tfor i := range srcs {\n\t\t\tif sameFile, _ := SameFile(srcs[i], t.dst); sameFile {", New: "\t\tfor i := range srcs {\n\t\t\tif filepath.Base(srcs[i]) != filepath.Base(t.dst) {\n\t\t\t\tcontinue\n\t\t\t}\n\t\t\tif sameFile, _ := SameFile(srcs[i], t.dst); sameFile {",
		Rule: "R20.1", Construct: "every source is compared"})
	mutant(&Mutant{Name: "c20-truncate-before-backup", Property: "C20", File: "cmd/minify/main.go",
		Old:  "\t\t\t\tif err != nil {\n\t\t\t\t\tError.Println(err)\n\t\t\t\t\treturn false\n\t\t\t\t}\n\t\t\t\tbackup = i\n\t\t\t\tbreak\n",
		New:  "\t\t\t\tif err != nil {\n\t\t\t\t\tError.Println(err)\n\t\t\t\t}\n\t\t\t\tbackup = i\n\t\t\t\tbreak\n",
		Rule: "R20.1", Construct: "backup rename"})
	mutant(&Mutant{Name: "c20-output-may-be-another-tasks-input", Property: "C20", File: "cmd/minify/main.go",
		Old: "\t\t\tif j, ok := srcs[abs(task.dst)]; ok && i != j {\n\t\t\t\treturn nil, nil, fmt.Errorf(\"output %v of %v is also an input\", task.dst, task.srcs[0])\n\t\t\t} else if j, ok := dsts[abs(task.dst)]; ok {", New: "\t\t\tif j, ok := dsts[abs(task.dst)]; ok {",
		Rule: "R20.10", Construct: "destinations checked against all sources"})
	mutant(&Mutant{Name: "c20-cross-check-ignores-symlinks", Property: "C20", File: "cmd/minify/main.go",
		Old: "\t\t\tif q, err := filepath.EvalSymlinks(p); err == nil {\n\t\t\t\treturn q\n\t\t\t} else if dir, err := filepath.EvalSymlinks(filepath.Dir(p)); err == nil {\n\t\t\t\treturn filepath.Join(dir, filepath.Base(p))\n\t\t\t}\n", New: "",
		Rule: "R20.11", Construct: "in canonical form"})
	mutant(&Mutant{Name: "c20-cross-check-compares-spellings", Property: "C20", File: "cmd/minify/main.go",
		Old: "\t\t\t\tsrcs[abs(src)] = i\n", New: "\t\t\t\tsrcs[filepath.Clean(src)] = i\n",
		Rule: "R20.11", Construct: "source stored in canonical form"})
	mutant(&Mutant{Name: "c19-sync-onto-itself-recognised-by-name-only", Property: "C19", File: "cmd/minify/main.go",
		Old: "\t\tif sameFile, _ := SameFile(t.srcs[0], t.dst); sameFile || t.srcs[0] == t.dst {", New: "\t\tif t.srcs[0] == t.dst {",
		Rule: "R19.21", Construct: "after the cleanup of the backup"})
	mutant(&Mutant{Name: "c19-selection-folds-case-inference-does-not", Property: "C19", File: "cmd/minify/main.go",
		Old: "\text := filepath.Ext(filename)\n\tif 0 < len(ext) {\n\t\text = ext[1:]\n\t}\n\tif _, ok := extMap[ext]; !ok {\n\t\treturn false", New: "\text := strings.ToLower(filepath.Ext(filename))\n\tif 0 < len(ext) {\n\t\text = ext[1:]\n\t}\n\tif _, ok := extMap[ext]; !ok {\n\t\treturn false",
		Rule: "R19.22", Construct: "extension key derived as in minify()"})
	mutant(&Mutant{Name: "c19-duplicate-destinations-accepted", Property: "C19", File: "cmd/minify/main.go",
		Old: "\t\t\t} else if j, ok := dsts[abs(task.dst)]; ok {\n\t\t\t\treturn nil, nil, fmt.Errorf(\"output %v of %v is also the output of %v\", task.dst, task.srcs[0], tasks[j].srcs[0])\n\t\t\t}\n", New: "\t\t\t}\n",
		Rule: "R19.19", Construct: "destinations are pairwise distinct"})
	mutant(&Mutant{Name: "c19-cross-check-refuses-bundles", Property: "C19", File: "cmd/minify/main.go",
		Old: "\tif !bundle && output != \"\" {\n\t\tabs := func", New: "\tif output != \"\" {\n\t\tabs := func",
		Rule: "R19.20", Construct: "cross-check error only without --bundle"})
	mutant(&Mutant{Name: "c20-cleanup-recognises-backup-by-name", Property: "C20", File: "cmd/minify/main.go",
		Old: "\t\tif i == backup {\n\t\t\tif err == nil {", New: "\t\tif _ = backup; srcs[i] == t.dst+\".bak\" {\n\t\t\tif err == nil {",
		Rule: "R20.9", Construct: "only for the backup made by this run"})
	mutant(&Mutant{Name: "c20-samefile-name-shortcut", Property: "C20", File: "cmd/minify/io.go",
		Old: "\tfi1, err := os.Stat(filename1)\n", New: "\tif filepath.Base(filename1) != filepath.Base(filename2) {\n\t\treturn false, nil\n\t}\n\tfi1, err := os.Stat(filename1)\n",
		Rule: "R20.6", Construct: "verdict without error"})
	mutant(&Mutant{Name: "c20-output-opened-first", Property: "C20", File: "cmd/minify/main.go",
		Old: "\tvar err error\n\tvar fr io.ReadCloser\n\tvar fw io.WriteCloser\n\tif len(srcs) == 1 {", New: "\tvar err error\n\tvar fr io.ReadCloser\n\tvar fw io.WriteCloser\n\tfw, _ = openOutputFile(t.dst)\n\tif len(srcs) == 1 {",
		Rule: "R20.2", Construct: "openOutputFile"})
	mutant(&Mutant{Name: "c20-remove-backup-on-any-result", Property: "C20", File: "cmd/minify/main.go",
		Old: "\t\t\tif err == nil {\n\t\t\t\tif err = os.Remove(srcs[i]); err != nil {", New: "\t\t\tif err == nil || success {\n\t\t\t\tif err = os.Remove(srcs[i]); err != nil {",
		Rule: "R20.3", Construct: "remove backup"})
	mutant(&Mutant{Name: "c20-remove-backup-before-close", Property: "C20", File: "cmd/minify/main.go",
		Old: "\t_, err = io.Copy(fw, w)\n\tfr.Close()\n\tfw.Close()\n", New: "\t_, err = io.Copy(fw, w)\n\tfr.Close()\n\tdefer fw.Close()\n",
		Rule: "R20.3", Construct: "remove backup"})
	mutant(&Mutant{Name: "c20-samefile-by-name", Property: "C20", File: "cmd/minify/io.go",
		Old: "\tfi2, err := os.Stat(filename2)\n", New: "\tfi2, err := os.Lstat(filename2)\n",
		Rule: "R20.6", Construct: "SameFile"})
	mutant(&Mutant{Name: "c20-removes-source-in-sync", Property: "C20", File: "cmd/minify/main.go",
		Old: "\t\tpreserveAttributes(srcs, t.root, t.dst)\n\t\tInfo.Printf(\"copy %v to %v\", srcName, dstName)\n", New: "\t\tpreserveAttributes(srcs, t.root, t.dst)\n\t\tos.Remove(t.srcs[0])\n\t\tInfo.Printf(\"copy %v to %v\", srcName, dstName)\n",
		Rule: "R20.4", Construct: "os.Remove"})
	mutant(&Mutant{Name: "c20-chmod-source", Property: "C20", File: "cmd/minify/main.go",
		Old: "\t\t\tif err = os.Chmod(dst, perm); err != nil {", New: "\t\t\tif err = os.Chmod(filepath.Join(root, srcs[0]), perm); err != nil {",
		Rule: "R20.4", Construct: "os.Chmod"})
	mutant(&Mutant{Name: "c19-failure-writes-partial", Property: "C19", File: "cmd/minify/main.go",
		Old: "\t\tw = bytes.NewBuffer(b) // copy original\n", New: "",
		Rule: "R19.1", Construct: "fallback"})
	mutant(&Mutant{Name: "c19-failure-reported-as-success", Property: "C19", File: "cmd/minify/main.go",
		Old: "\t\tError.Printf(\"cannot minify %v: %v\", srcName, err)\n\t\tsuccess = false\n", New: "\t\tError.Printf(\"cannot minify %v: %v\", srcName, err)\n",
		Rule: "R19.1", Construct: "fallback"})
	mutant(&Mutant{Name: "c19-sync-copy-error-ignored", Property: "C19", File: "cmd/minify/main.go",
		Old: "\t\tfr.Close()\n\t\tfw.Close()\n\t\tif err != nil {\n\t\t\tError.Println(err)\n\t\t\treturn false\n\t\t}\n\t\tpreserveAttributes", New: "\t\tfr.Close()\n\t\tfw.Close()\n\t\tif err != nil {\n\t\t\tError.Println(err)\n\t\t}\n\t\tpreserveAttributes",
		Rule: "R19.6", Construct: "io.Copy(fw, fr)"})
	mutant(&Mutant{Name: "c19-escape-test-refuses-dotdot-names", Property: "C19", File: "cmd/minify/main.go",
		Old: "} else if rel == \"..\" || strings.HasPrefix(rel, \"..\"+string(os.PathSeparator)) {", New: "} else if strings.HasPrefix(rel, \"..\") {",
		Rule: "R19.23", Construct: "escape test on the relative path \"..a\""})
	mutant(&Mutant{Name: "c19-stop-at-first-failure", Property: "C19", File: "cmd/minify/main.go",
		Old: "\t\tfor _, task := range tasks {\n\t\t\tif ok := minify(task); !ok {\n\t\t\t\tfails++\n\t\t\t}\n\t\t}\n\t} else {", New: "\t\tfor _, task := range tasks {\n\t\t\tif ok := minify(task); !ok {\n\t\t\t\tfails++\n\t\t\t\tbreak\n\t\t\t}\n\t\t}\n\t} else {",
		Rule: "R19.2", Construct: "run/task loop"})
	mutant(&Mutant{Name: "c19-worker-failures-dropped", Property: "C19", File: "cmd/minify/main.go",
		Old: "\t\t\tfails += <-chanFails\n", New: "\t\t\t<-chanFails\n",
		Rule: "R19.2", Construct: "run/worker counters"})
	mutant(&Mutant{Name: "c19-css-bundle-separator", Property: "C19", File: "cmd/minify/main.go",
		Old: "\t\tif err == nil && jsMimetypeRegexp.MatchString(fileMimetype) {", New: "\t\tif err == nil {",
		Rule: "R19.4", Construct: "bundle separator"})
}

type cliCtx struct {
	pk   *packages.Package
	info *types.Info
	fd   *ast.FuncDecl
	g    *flow.Graph
}

func (c *Ctx) cli(rule string) *cliCtx {
	pk := c.pkg(rule, "cmd/minify")
	if pk == nil {
		return nil
	}
	fd := c.fn(rule, pk, "minify")
	if fd == nil {
		return nil
	}
	return &cliCtx{pk, pk.TypesInfo, fd, c.graph(pk, fd)}
}

// stmtCalls: statement-level nodes calling one of the named functions (not entering function literals).
func (x *cliCtx) nodesCalling(names ...string) []*flow.Node {
	var out []*flow.Node
	for _, n := range x.g.Nodes {
		a := n.Ast()
		if a == nil || n.Kind == flow.KSelect || n.Kind == flow.KRange {
			continue
		}
		if len(findCalls(x.info, a, false, names...)) > 0 {
			out = append(out, n)
		}
	}
	return out
}

// tryDoWith: nodes calling try.Do whose function literal calls callee; returns the inner calls.
func (x *cliCtx) tryDoWith(callee string) map[*flow.Node][]*ast.CallExpr {
	out := map[*flow.Node][]*ast.CallExpr{}
	for _, n := range x.nodesCalling(tryDo) {
		for _, call := range findCalls(x.info, n.Ast(), false, tryDo) {
			if lit, ok := call.Args[0].(*ast.FuncLit); ok {
				if inner := findCalls(x.info, lit.Body, true, callee); len(inner) > 0 {
					out[n] = append(out[n], inner...)
				}
			}
		}
	}
	return out
}

func isTaskDst(info *types.Info, e ast.Expr) bool { return isField(info, e, taskT, "dst") }

func runC20(c *Ctx) {
	x := c.cli("R20")
	if x == nil {
		return
	}
	c.r201(x)
	c.r202(x)
	c.r203(x)
	c.r204()
	c.r205(x, "R20.5")
	c.r206(x, "R20.6")
	// when minification fails the destination must receive the ORIGINAL bytes: with an in-place run the backup
	// is removed after that write, so anything else loses the only copy
	c.alsoUnder(map[string]string{"R19.1": "R20.7"}, nil, func() { c.r191(x) })
	c.r208(x, "R20.8")
	c.r209(x, "R20.9")
	c.r2010(x)
	c.r2011(x, "R20.11")
	c.r2012(x)
}

// R20.8 (= R19.11): taking the backup does not destroy a file that is already there.
func (c *Ctx) r208(x *cliCtx, rule string) {
	c.R.Rule(rule, "os.Rename replaces its target silently. In cmd/minify.minify the rename of the destination to its backup name B (the second argument of the os.Rename whose first argument is t.dst) is reached only on the failure outcome of a stat of that same B (`_, err := os.Stat(B)` / os.Lstat, err != nil): a file that already carries the backup name — `a.js.bak` next to `a.js` — is otherwise overwritten by the rename and then deleted by the cleanup, although the command was never asked to touch it")
	g, info := x.g, x.info
	n := 0
	for node, calls := range x.tryDoWith("os.Rename") {
		for _, call := range calls {
			if len(call.Args) != 2 || !isTaskDst(info, call.Args[0]) {
				continue
			}
			n++
			bak := nospace(str(call.Args[1]))
			ok := false
			for _, f := range g.DomFacts(node) {
				if f.Test.Kind != flow.KCond {
					continue
				}
				// the error variable tested is bound by os.Stat / os.Lstat of the same path
				for _, sc := range f.Test.Succs {
					if (sc.Kind == flow.KTrue) != f.Value {
						continue
					}
					be, isB := ast.Unparen(f.Test.Expr).(*ast.BinaryExpr)
					if !isB {
						continue
					}
					var eid *ast.Ident
					if isNilExpr(be.Y) {
						eid, _ = ast.Unparen(be.X).(*ast.Ident)
					}
					if eid == nil {
						continue
					}
					eobj := info.Uses[eid]
					if !errOutcome(info, sc, eobj, false) {
						continue
					}
					// definition of that error
					for _, z := range g.Nodes {
						as, isAs := z.Stmt.(*ast.AssignStmt)
						if !isAs || len(as.Rhs) != 1 {
							continue
						}
						sc2 := isCall(info, ast.Unparen(as.Rhs[0]), "os.Stat", "os.Lstat")
						if sc2 == nil || nospace(str(sc2.Args[0])) != bak {
							continue
						}
						if lid, isId := as.Lhs[len(as.Lhs)-1].(*ast.Ident); isId && (info.Defs[lid] == eobj || info.Uses[lid] == eobj) {
							ok = true
						}
					}
				}
			}
			c.R.Check(ok, rule, "main.minify/backup rename does not replace an existing file", c.pos(call), "only after os.Stat("+str(call.Args[1])+") failed", "the destination is renamed to "+str(call.Args[1])+" without checking that no such file exists: a user's file of that name is overwritten and later removed")
		}
	}
	c.R.Floor(rule, "backup renames", n, 1)
}

// backupRenameNode: the statement (a try.Do call) that renames the destination to its backup name.
func (x *cliCtx) backupRenameNode() *flow.Node {
	var renameN *flow.Node
	for node, calls := range x.tryDoWith("os.Rename") {
		for _, call := range calls {
			if len(call.Args) == 2 && isTaskDst(x.info, call.Args[0]) {
				renameN = node
			}
		}
	}
	return renameN
}

// backupWitness: variables that can only hold a non-initial value after the backup rename happened
// (first assignment a constant, every other assignment dominated by the rename).
func (x *cliCtx) backupWitness(renameN *flow.Node) func(types.Object) bool {
	g, info := x.g, x.info
	return func(o types.Object) bool {
		if renameN == nil || o == nil {
			return false
		}
		v, ok := o.(*types.Var)
		if !ok || v.IsField() || v.Parent() == nil || v.Parent() == v.Pkg().Scope() {
			return false
		}
		first := true
		seen := false
		for _, y := range g.Nodes {
			if y.Kind != flow.KStmt {
				continue
			}
			var rhs ast.Expr
			hit := false
			if y.Spec != nil {
				for i, nm := range y.Spec.Names {
					if info.Defs[nm] == o {
						hit = true
						if i < len(y.Spec.Values) {
							rhs = y.Spec.Values[i]
						}
					}
				}
			}
			if as, ok := y.Stmt.(*ast.AssignStmt); ok {
				for i, l := range as.Lhs {
					if id, ok := l.(*ast.Ident); ok && info.ObjectOf(id) == o {
						hit = true
						if len(as.Rhs) == len(as.Lhs) {
							rhs = as.Rhs[i]
						}
					}
				}
			}
			if !hit {
				continue
			}
			seen = true
			if first {
				first = false
				if rhs != nil {
					if tv, ok := info.Types[rhs]; !ok || tv.Value == nil {
						return false
					}
				}
				continue
			}
			if !g.Dominates(renameN, y) {
				return false
			}
		}
		return seen
	}
}

// isBackupGuard: cond identifies elem (an element S[I] of the source list) as the backup — by its name
// (S[I] == t.dst+".bak") or by the index recorded when the backup was made (I == W, W a witness).
func (x *cliCtx) isBackupGuard(cond ast.Expr, elem ast.Expr) bool {
	b, ok := ast.Unparen(cond).(*ast.BinaryExpr)
	if !ok || b.Op != token.EQL {
		return false
	}
	if str(b.X) == str(elem) && isBakOfDst(x.info, b.Y) || str(b.Y) == str(elem) && isBakOfDst(x.info, b.X) {
		return true
	}
	ix, ok := ast.Unparen(elem).(*ast.IndexExpr)
	if !ok {
		return false
	}
	w := x.backupWitness(x.backupRenameNode())
	for _, pr := range [][2]ast.Expr{{b.X, b.Y}, {b.Y, b.X}} {
		if str(pr[0]) == str(ix.Index) {
			if id, ok := ast.Unparen(pr[1]).(*ast.Ident); ok && w(x.info.Uses[id]) {
				return true
			}
		}
	}
	return false
}

// R20.9 (= R19.14): only a backup this run made is cleaned up.
func (c *Ctx) r209(x *cliCtx, rule string) {
	c.R.Rule(rule, "after writing, cmd/minify.minify removes the backup (or, on failure, moves it back over the destination). Both act on a source path. They may only touch a file this invocation created by its own rename: every os.Remove / os.Rename in minify() whose path argument is an element of the local source list is dominated by a condition over a witness — a local variable whose first assignment is a constant and all of whose other assignments are dominated by the backup rename (os.Rename(t.dst, …) inside try.Do). A test of the *name* (`srcs[i] == t.dst+\".bak\"`) is no witness: `minify -o a.js a.js.bak` reads a.js.bak, never renames anything, and then deletes the input")
	g, info := x.g, x.info
	renameN := x.backupRenameNode()
	if renameN == nil {
		c.R.Unres(rule, "main.minify/backup rename", c.pos(x.fd), "the rename of the destination to its backup name was not found")
		return
	}
	// the local copy of the sources
	srcObj := map[types.Object]bool{}
	for _, y := range g.Nodes {
		if as, ok := y.Stmt.(*ast.AssignStmt); ok && y.Kind == flow.KStmt && len(as.Lhs) == 1 && len(as.Rhs) == 1 && strings.Contains(nospace(str(as.Rhs[0])), ".srcs") {
			if id, ok := as.Lhs[0].(*ast.Ident); ok {
				if o := info.ObjectOf(id); o != nil {
					srcObj[o] = true
				}
			}
		}
	}
	isWitness := x.backupWitness(renameN)
	n := 0
	for _, y := range g.Nodes {
		a := y.Ast()
		if a == nil || (y.Kind != flow.KStmt && y.Kind != flow.KCond) {
			continue
		}
		var root ast.Node = a
		if y.Kind == flow.KCond {
			root = y.Expr
		}
		for _, call := range findCalls(info, root, false, "os.Remove", "os.Rename") {
			ix, ok := ast.Unparen(call.Args[0]).(*ast.IndexExpr)
			if !ok {
				continue
			}
			id, ok := ast.Unparen(ix.X).(*ast.Ident)
			if !ok || !srcObj[info.Uses[id]] {
				continue
			}
			n++
			good := false
			for _, f := range g.DomFacts(y) {
				if f.Test.Kind != flow.KCond {
					continue
				}
				ast.Inspect(f.Test.Expr, func(q ast.Node) bool {
					if qi, ok := q.(*ast.Ident); ok && info.Uses[qi] != nil && isWitness(info.Uses[qi]) {
						good = true
					}
					return true
				})
			}
			c.R.Check(good, rule, fmt.Sprintf("main.minify/%s(%s…)#%d only for the backup made by this run", calleeName(info, call), str(call.Args[0]), n), c.pos(call), "behind a test of a variable set only after the backup rename", "the cleanup acts on "+str(call.Args[0])+" whenever its *name* is the backup name: an input file that happens to be called <dst>.bak is deleted although it was only read (`minify -o a.js a.js.bak`)")
		}
	}
	c.R.Floor(rule, "cleanup operations on a source path", n, 2)
}

// R20.6: the overwrite detection identifies files the way the truncating open resolves them.
func (c *Ctx) r206(x *cliCtx, rule string) {
	c.R.Rule(rule, "openOutputFile opens its path with os.OpenFile, which follows symbolic links; the overwrite detection must therefore identify files after following links too: in cmd/minify.SameFile both os.FileInfo values handed to os.SameFile are results of os.Stat / (*os.File).Stat on the two parameters (os.Lstat only on the result of filepath.EvalSymlinks). Every return of SameFile with a nil error yields the os.SameFile result itself (no shortcut on the names). With an identity test that does not follow links, `minify -o link.js real.js` (link.js → real.js) is not recognised as overwriting and the only copy is truncated without a backup")
	pk, info := x.pk, x.info
	fd := c.fn(rule, pk, "SameFile")
	if fd == nil {
		return
	}
	construct := "main.SameFile/identity after following symlinks"
	calls := findCalls(info, fd.Body, false, "os.SameFile")
	if len(calls) != 1 {
		c.R.Bad(rule, construct, c.pos(fd), "SameFile does not decide through exactly one os.SameFile call")
		return
	}
	params := map[string]bool{}
	for _, f := range fd.Type.Params.List {
		for _, n := range f.Names {
			params[n.Name] = true
		}
	}
	var bad []string
	seen := map[string]bool{}
	for _, a := range calls[0].Args {
		id, ok := ast.Unparen(a).(*ast.Ident)
		if !ok {
			bad = append(bad, "argument "+str(a)+" is not a local")
			continue
		}
		def := c.singleDef(pk, id)
		call, ok := def.(*ast.CallExpr)
		if !ok {
			bad = append(bad, id.Name+" has no single defining call")
			continue
		}
		cn := calleeName(info, call)
		switch cn {
		case "os.Stat":
			if len(call.Args) == 1 && params[str(call.Args[0])] {
				seen[str(call.Args[0])] = true
			} else {
				bad = append(bad, "os.Stat is not applied to a parameter: "+str(call))
			}
		case "os.(File).Stat":
			seen[id.Name] = true
		case "os.Lstat":
			if ev := isCall(info, ast.Unparen(call.Args[0]), "path/filepath.EvalSymlinks"); ev != nil {
				seen[str(ev.Args[0])] = true
			} else {
				bad = append(bad, id.Name+" comes from os.Lstat, which does not follow symbolic links")
			}
		default:
			bad = append(bad, id.Name+" comes from "+cn)
		}
	}
	if len(bad) == 0 && len(seen) != 2 {
		bad = append(bad, "the two compared FileInfo values do not stem from the two parameters")
	}
	c.R.Check(len(bad) == 0, rule, construct, c.pos(calls[0]), "both sides stat'ed following links", strings.Join(bad, "; "))
	// a verdict without error is os.SameFile's verdict: names decide nothing (hard links and symbolic links carry other names)
	nret := 0
	ast.Inspect(fd.Body, func(q ast.Node) bool {
		if _, isLit := q.(*ast.FuncLit); isLit {
			return false
		}
		rs, ok := q.(*ast.ReturnStmt)
		if !ok || len(rs.Results) != 2 {
			return true
		}
		if tv, ok := info.Types[rs.Results[1]]; !ok || !tv.IsNil() {
			return true
		}
		nret++
		c.R.Check(isCall(info, ast.Unparen(rs.Results[0]), "os.SameFile") != nil, rule, fmt.Sprintf("main.SameFile/verdict without error#%d", nret), c.pos(rs), "the result of os.SameFile", "SameFile answers "+str(rs.Results[0])+" without an error and without asking os.SameFile: two names of one file (a hard link, a symbolic link with another base name) are taken for different files and the source is truncated without a backup")
		return true
	})
	c.R.Floor(rule, "error-free verdicts of SameFile", nret, 1)
	// and the overwrite detection in minify() uses this function (R20.1 anchors on it), openOutputFile uses os.OpenFile
	if ofd := c.fn(rule, pk, "openOutputFile"); ofd != nil {
		opens := findCalls(info, ofd.Body, true, "os.OpenFile", "os.Create")
		c.R.Check(len(opens) >= 1, rule, "main.openOutputFile/opens by path (follows links)", c.pos(ofd), "os.OpenFile", "openOutputFile no longer opens by path; the identity rule's premise changed")
	}
}

func (c *Ctx) outputOpen(rule string, x *cliCtx) *flow.Node {
	var o *flow.Node
	k := 0
	for _, n := range x.nodesCalling(openOut) {
		k++
		o = n
	}
	if k != 1 {
		c.R.Unres(rule, "main.minify/openOutputFile", c.pos(x.fd), fmt.Sprintf("%d calls of openOutputFile found, expected exactly one", k))
		return nil
	}
	call := findCalls(x.info, o.Ast(), false, openOut)[0]
	if !isTaskDst(x.info, call.Args[0]) {
		c.R.Bad(rule, "main.minify/openOutputFile", c.pos(call), "the truncating open is not applied to t.dst")
		return nil
	}
	return o
}

func (c *Ctx) r201(x *cliCtx) {
	const rule = "R20.1"
	c.R.Rule(rule, "in cmd/minify.minify the single call openOutputFile(t.dst) (the only O_TRUNC open, R20.4) is reachable, other than under `destination == \"\"` (stdout), only through the loop `range srcs` that tests SameFile(srcs[i], t.dst); on the same-file outcome every path to the open passes try.Do(func{os.Rename(t.dst, …)}) whose error is tested, and the failure outcome never reaches the open")
	g, info := x.g, x.info
	o := c.outputOpen(rule, x)
	if o == nil {
		return
	}
	// the overwrite-detection loop and condition
	var sameCond *flow.Node
	var loop *flow.Node
	for _, n := range g.Nodes {
		if n.Kind == flow.KStmt && n.Ast() != nil {
			for _, call := range findCalls(info, n.Ast(), false, mainPkg+".SameFile") {
				as, ok := n.Stmt.(*ast.AssignStmt)
				if !ok || len(as.Lhs) < 1 {
					continue
				}
				okArgs := (isTaskDst(info, call.Args[1]) && strings.HasPrefix(str(call.Args[0]), "srcs[")) || (isTaskDst(info, call.Args[0]) && strings.HasPrefix(str(call.Args[1]), "srcs["))
				if !okArgs {
					continue
				}
				res := str(as.Lhs[0])
				for _, y := range g.Nodes {
					if y.Kind == flow.KCond && str(y.Expr) == res && g.Dominates(n, y) {
						sameCond = y
					}
				}
			}
		}
		if n.Kind == flow.KRange && str(n.Expr) == "srcs" && sameCond == nil {
			loop = n
		}
	}
	if sameCond == nil || loop == nil {
		c.R.Bad(rule, "main.minify/overwrite detection", c.pos(x.fd), "no loop over srcs testing SameFile(srcs[i], t.dst) precedes the truncating open: minifying a file onto itself truncates the only copy")
		return
	}
	// (a) open only reachable through the loop, or for the empty destination
	emptyDst := func(y *flow.Node) bool {
		if y.Kind != flow.KTrue && y.Kind != flow.KFalse || y.Of.Kind != flow.KCond {
			return false
		}
		b, ok := ast.Unparen(y.Of.Expr).(*ast.BinaryExpr)
		if !ok || (b.Op != token.EQL && b.Op != token.NEQ) || str(b.Y) != `""` {
			return false
		}
		e := b.X
		if id, isId := ast.Unparen(e).(*ast.Ident); isId {
			// the definitions of the local that reach this test
			var reach []ast.Expr
			isDef := func(z *flow.Node) (ast.Expr, bool) {
				return assignsTo(z, func(l ast.Expr) bool {
					lid, ok := ast.Unparen(l).(*ast.Ident)
					return ok && (info.Uses[lid] == info.Uses[id] || info.Defs[lid] == info.Uses[id])
				})
			}
			for _, z := range g.Nodes {
				if rhs, ok := isDef(z); ok {
					if g.Path(flow.Search{From: []*flow.Node{z}, Goal: func(q *flow.Node) bool { return q == y.Of }, Avoid: func(q *flow.Node) bool { _, d := isDef(q); return d }}) != nil {
						reach = append(reach, rhs)
					}
				}
			}
			if len(reach) == 1 {
				e = reach[0]
			}
		}
		return isTaskDst(info, e) && (b.Op == token.EQL) == (y.Kind == flow.KTrue)
	}
	// (a') every source is examined: an iteration of the loop cannot end (continue, next element) without the SameFile test
	{
		var sameCall *flow.Node
		for _, n := range g.Nodes {
			if n.Kind == flow.KStmt && n.Ast() != nil && len(findCalls(info, n.Ast(), false, mainPkg+".SameFile")) > 0 && g.Dominates(loop, n) {
				sameCall = n
			}
		}
		var tn *flow.Node
		for _, sc := range loop.Succs {
			if sc.Kind == flow.KTrue {
				tn = sc
			}
		}
		if sameCall != nil && tn != nil {
			ps := g.Path(flow.Search{From: []*flow.Node{tn}, Goal: func(y *flow.Node) bool { return y == loop || y == o }, Avoid: func(y *flow.Node) bool { return y == sameCall }})
			c.R.Check(ps == nil, rule, "main.minify/every source is compared with the destination", c.pos(loop.Stmt), "no iteration skips SameFile", "an input can be skipped by the overwrite detection without being compared with the destination (a filter on the file name misses a symbolic or hard link under another name): "+pathStr(c, g, ps))
		}
	}
	p := g.MustPassBefore(o, func(y *flow.Node) bool { return y == loop || emptyDst(y) }, flow.Search{})
	c.R.Check(p == nil, rule, "main.minify/truncating open behind overwrite detection", c.pos(o.Ast()), "reached only through the SameFile loop (or for stdout)", "the destination can be truncated without first checking whether it is one of the inputs: "+pathStr(c, g, p))
	// (b) same-file outcome: rename before open, error tested
	renames := x.tryDoWith("os.Rename")
	var renameN *flow.Node
	for n, calls := range renames {
		for _, call := range calls {
			if isTaskDst(info, call.Args[0]) && g.Dominates(sameCond, n) {
				renameN = n
			}
		}
	}
	construct := "main.minify/backup rename before truncation"
	if renameN == nil {
		c.R.Bad(rule, construct, c.pos(sameCond.Expr), "on the same-file outcome the original is not renamed away (no try.Do{os.Rename(t.dst, …)}) before the destination is truncated: killing the command after the open loses the only copy")
		return
	}
	var sameTrue *flow.Node
	for _, s := range sameCond.Succs {
		if s.Kind == flow.KTrue {
			sameTrue = s
		}
	}
	var bad []string
	if p := g.Path(flow.Search{From: []*flow.Node{sameTrue}, Goal: func(y *flow.Node) bool { return y == o }, Avoid: func(y *flow.Node) bool { return y == renameN }}); p != nil {
		bad = append(bad, "a path from the same-file outcome reaches the truncating open without the rename: "+pathStr(c, g, p))
	}
	call := findCalls(info, renameN.Ast(), false, tryDo)[0]
	e := assignedErr(info, renameN, call)
	if e == nil {
		bad = append(bad, "the error of the rename is discarded: after a failed rename the original is truncated")
	} else {
		if p := g.Path(flow.Search{From: []*flow.Node{renameN}, Goal: func(y *flow.Node) bool { return y == o }, Avoid: func(y *flow.Node) bool { return errOutcome(info, y, e, true) }}); p != nil {
			bad = append(bad, "the truncating open is reachable without testing the rename's error: "+pathStr(c, g, p))
		}
		for _, y := range g.Nodes {
			if errOutcome(info, y, e, false) && g.Dominates(renameN, y) {
				if p := g.Path(flow.Search{From: []*flow.Node{y}, Goal: func(z *flow.Node) bool { return z == o }}); p != nil {
					bad = append(bad, "after a failed rename the function still truncates the destination (the original has no backup): "+pathStr(c, g, p))
				}
			}
		}
	}
	// the literal passed to try.Do returns the rename's error (so a failure is reported)
	c.R.Check(len(bad) == 0, rule, construct, c.pos(renameN.Ast()), "rename → error tested → open", strings.Join(bad, "; "))
}

// singleDefIn is singleDef restricted to a given function.
func (c *Ctx) singleDefIn(pk *packages.Package, fd *ast.FuncDecl, id *ast.Ident) ast.Expr {
	return c.singleDef(pk, id)
}

func (c *Ctx) r202(x *cliCtx) {
	const rule = "R20.2"
	c.R.Rule(rule, "every path to openOutputFile(t.dst) passes openInputFile / openInputFiles, and the open's error is tested with the failure outcome returning before the output is opened (an unreadable input never costs the destination's content)")
	g, info := x.g, x.info
	o := c.outputOpen(rule, x)
	if o == nil {
		return
	}
	ins := x.nodesCalling(openIn, openIns)
	isIn := func(y *flow.Node) bool {
		for _, n := range ins {
			if n == y {
				return true
			}
		}
		return false
	}
	var bad []string
	if p := g.MustPassBefore(o, isIn, flow.Search{}); p != nil {
		bad = append(bad, "the output can be truncated before any input is opened: "+pathStr(c, g, p))
	}
	for _, n := range ins {
		call := findCalls(info, n.Ast(), false, openIn, openIns)[0]
		e := assignedErr(info, n, call)
		if e == nil {
			bad = append(bad, "the error of "+str(call.Fun)+" is discarded")
			continue
		}
		if p := g.Path(flow.Search{From: []*flow.Node{n}, Goal: func(y *flow.Node) bool { return y == o }, Avoid: func(y *flow.Node) bool { return errOutcome(info, y, e, true) }}); p != nil {
			bad = append(bad, "the output is opened without testing the error of "+str(call.Fun)+": "+pathStr(c, g, p))
		}
	}
	c.R.Check(len(bad) == 0 && len(ins) >= 2, rule, "main.minify/openOutputFile after inputs", c.pos(o.Ast()), fmt.Sprintf("%d input open site(s) precede it, errors tested", len(ins)), strings.Join(bad, "; "))
}

func (c *Ctx) r203(x *cliCtx) {
	const rule = "R20.3"
	c.R.Rule(rule, "os.Remove(<backup>) in cmd/minify.minify is guarded by <backup> == t.dst+\".bak\", is dominated by the Close of the output file, lies on the nil outcome of the error whose only reaching definition is io.Copy(fw, w), and on the non-nil outcome the sequence is os.Remove(t.dst) then os.Rename(<backup>, t.dst)")
	g, info := x.g, x.info
	var rm *flow.Node
	var bakExpr string
	for _, n := range x.nodesCalling("os.Remove") {
		call := findCalls(info, n.Ast(), false, "os.Remove")[0]
		if isTaskDst(info, call.Args[0]) {
			continue
		}
		for _, f := range g.DomFacts(n) {
			if f.Value && f.Test.Kind == flow.KCond {
				if x.isBackupGuard(f.Test.Expr, call.Args[0]) {
					rm = n
					bakExpr = str(call.Args[0])
				}
			}
		}
	}
	construct := "main.minify/remove backup"
	if rm == nil {
		c.R.Unres(rule, construct, c.pos(x.fd), "os.Remove(<backup>) guarded by == t.dst+\".bak\" not found")
		return
	}
	var bad []string
	// output writer variable
	o := c.outputOpen(rule, x)
	if o == nil {
		return
	}
	fwName := ""
	if as, ok := o.Stmt.(*ast.AssignStmt); ok {
		fwName = str(as.Lhs[0])
	}
	closes := func(y *flow.Node) bool {
		a := y.Ast()
		if a == nil || y.Kind != flow.KStmt {
			return false
		}
		if _, isDefer := y.Stmt.(*ast.DeferStmt); isDefer {
			return false
		}
		okc := false
		flowInspectCalls(a, func(call *ast.CallExpr) {
			if sel, isSel := call.Fun.(*ast.SelectorExpr); isSel && sel.Sel.Name == "Close" && str(sel.X) == fwName {
				okc = true
			}
		})
		return okc
	}
	if p := g.MustPassBefore(rm, closes, flow.Search{}); p != nil {
		bad = append(bad, "the backup can be removed before the output file is closed (its content is not yet complete on disk for a reader)")
	}
	// copy node and its error
	var copyN *flow.Node
	var errObj types.Object
	for _, n := range x.nodesCalling("io.Copy") {
		call := findCalls(info, n.Ast(), false, "io.Copy")[0]
		if str(call.Args[0]) == fwName && g.Dominates(n, rm) {
			copyN = n
			errObj = assignedErr(info, n, call)
		}
	}
	if copyN == nil || errObj == nil {
		bad = append(bad, "no io.Copy(fw, …) with a bound error dominates the removal")
	} else {
		// nil outcome dominates removal
		okNil := false
		for _, f := range g.DomFacts(rm) {
			for _, s := range f.Test.Succs {
				if (s.Kind == flow.KTrue) == f.Value && errOutcome(info, s, errObj, true) {
					okNil = true
					// reaching definition: no other assignment to err between copy and this test
					for _, y := range g.Nodes {
						if y == copyN || y.Kind != flow.KStmt {
							continue
						}
						if _, isAs := assignsTo(y, func(l ast.Expr) bool {
							id, ok := ast.Unparen(l).(*ast.Ident)
							return ok && (info.Uses[id] == errObj || info.Defs[id] == errObj)
						}); isAs {
							if g.Path(flow.Search{From: []*flow.Node{copyN}, Goal: func(z *flow.Node) bool { return z == y }}) != nil &&
								g.Path(flow.Search{From: []*flow.Node{y}, Goal: func(z *flow.Node) bool { return z == f.Test }, Avoid: func(z *flow.Node) bool { return z == copyN }}) != nil {
								bad = append(bad, "the error tested before removing the backup may come from "+c.pos(y.Stmt)+" instead of the copy")
							}
						}
					}
				}
			}
		}
		// also: any extra disjunct that lets the removal happen with err != nil
		if p := g.Path(flow.Search{From: []*flow.Node{copyN}, Goal: func(z *flow.Node) bool { return z == rm }, Avoid: func(z *flow.Node) bool { return errOutcome(info, z, errObj, true) }}); p != nil {
			okNil = false
		}
		if !okNil {
			bad = append(bad, "the backup is removed on a path where the copy's error is not known to be nil: a short write followed by removing the backup loses the original")
		}
		// non-nil outcome: Remove(t.dst) then Rename(bak, t.dst)
		for _, y := range g.Nodes {
			if !errOutcome(info, y, errObj, false) || !g.Dominates(copyN, y) {
				continue
			}
			// only the test inside the backup branch
			inBranch := false
			for _, f := range g.DomFacts(y) {
				if f.Value && f.Test.Kind == flow.KCond && strings.Contains(str(f.Test.Expr), bakSuffix) {
					inBranch = true
				}
			}
			if !inBranch {
				continue
			}
			rmDst := func(z *flow.Node) bool {
				a := z.Ast()
				if a == nil || z.Kind == flow.KRange || z.Kind == flow.KSelect {
					return false
				}
				for _, call := range findCalls(info, a, false, "os.Remove") {
					if isTaskDst(info, call.Args[0]) {
						return true
					}
				}
				return false
			}
			restore := func(z *flow.Node) bool {
				a := z.Ast()
				if a == nil || z.Kind == flow.KRange || z.Kind == flow.KSelect {
					return false
				}
				for _, call := range findCalls(info, a, false, "os.Rename") {
					if str(call.Args[0]) == bakExpr && isTaskDst(info, call.Args[1]) {
						return true
					}
				}
				return false
			}
			endOK := func(z *flow.Node) bool { return z.Kind == flow.KExit }
			if p := g.Path(flow.Search{From: []*flow.Node{y}, Goal: endOK, Avoid: func(z *flow.Node) bool { return restore(z) || retStmt(z) != nil && returnsFalse(z) }}); p != nil {
				bad = append(bad, "after a failed copy a path neither restores the backup over the destination nor reports failure: "+pathStr(c, g, p))
			}
			if p := g.Path(flow.Search{From: []*flow.Node{y}, Goal: restore, Avoid: rmDst}); p != nil {
				bad = append(bad, "the restore does not first remove the partial destination")
			}
		}
	}
	c.R.Check(len(bad) == 0, rule, construct, c.pos(rm.Ast()), "after Close, only when the copy succeeded; otherwise restore", strings.Join(bad, "; "))
}

func returnsFalse(z *flow.Node) bool {
	r := retStmt(z)
	return r != nil && len(r.Results) == 1 && str(r.Results[0]) == "false"
}

// isBakOfDst: t.dst + ".bak"
func isBakOfDst(info *types.Info, e ast.Expr) bool {
	b, ok := ast.Unparen(e).(*ast.BinaryExpr)
	if !ok || b.Op != token.ADD {
		return false
	}
	lit, ok := ast.Unparen(b.Y).(*ast.BasicLit)
	return ok && lit.Value == `"`+bakSuffix+`"` && isTaskDst(info, b.X)
}

// R20.5 / R19.5
func (c *Ctx) r205(x *cliCtx, rule string) {
	c.R.Rule(rule, "writer/reader agreement on the backup's name: the value assigned to srcs[i] right before os.Rename(t.dst, srcs[i]) (the name the original is parked under) must be the expression t.dst+\".bak\" that the cleanup loop compares srcs[i] with — SameFile identifies files, not spellings, so a backup named after the source's spelling (srcs[i]+\".bak\") is not recognised when source and destination are spelled differently, and is left behind / never restored")
	g, info := x.g, x.info
	renames := x.tryDoWith("os.Rename")
	found := false
	for n, calls := range renames {
		for _, call := range calls {
			if !isTaskDst(info, call.Args[0]) {
				continue
			}
			found = true
			target := str(call.Args[1])
			// the last assignment to target before n
			var def *ast.AssignStmt
			for _, y := range g.Nodes {
				if y.Kind != flow.KStmt {
					continue
				}
				as, ok := y.Stmt.(*ast.AssignStmt)
				if !ok || len(as.Lhs) != 1 || str(as.Lhs[0]) != target {
					continue
				}
				if g.Dominates(y, n) {
					def = as
				}
			}
			construct := "main.minify/backup name agreement"
			if def == nil {
				c.R.Unres(rule, construct, c.pos(call), "no assignment to "+target+" dominates the rename")
				continue
			}
			var created ast.Expr
			switch def.Tok {
			case token.ASSIGN:
				created = def.Rhs[0]
			case token.ADD_ASSIGN:
				created = &ast.BinaryExpr{X: def.Lhs[0], Op: token.ADD, Y: def.Rhs[0]}
			}
			okName := created != nil && isBakOfDst(info, created)
			c.R.Check(okName, rule, construct, c.pos(def),
				"backup is created as t.dst+\".bak\", the name the cleanup recognises",
				fmt.Sprintf("the backup is created as %s but recognised later only as t.dst+\".bak\": when the source and the destination name the same file with different spellings (relative vs absolute path, hard link) the backup is neither removed after success nor restored after a failed write", str0Expr(created)))
		}
	}
	if !found {
		c.R.Unres(rule, "main.minify/backup name agreement", c.pos(x.fd), "rename of t.dst not found")
	}
}

func str0Expr(e ast.Expr) string {
	if e == nil {
		return "<unknown>"
	}
	if b, ok := e.(*ast.BinaryExpr); ok {
		return str(b.X) + " + " + str(b.Y)
	}
	return str(e)
}

// ---------------------------------------------------------------------------
// R20.4 file-system mutation whitelist

var mutatingOS = map[string][]int{ // function -> indices of path arguments that are mutated
	"os.Remove": {0}, "os.RemoveAll": {0}, "os.Rename": {0, 1}, "os.OpenFile": {0}, "os.Create": {0}, "os.WriteFile": {0},
	"os.Chmod": {0}, "os.Chown": {0}, "os.Lchown": {0}, "os.Chtimes": {0}, "os.Symlink": {1}, "os.Link": {1},
	"os.Mkdir": {0}, "os.MkdirAll": {0}, "os.Truncate": {0}, "os.MkdirTemp": {0}, "os.CreateTemp": {0},
}

func (c *Ctx) r204() {
	const rule = "R20.4"
	c.R.Rule(rule, "every call in package main of a mutating os function (Remove RemoveAll Rename OpenFile-with-write-flags Create WriteFile Chmod Chown Lchown Chtimes Symlink Link Mkdir MkdirAll Truncate) has, in each mutated path position, an expression classified as destination (Task.dst, the --output flag, filepath.Dir/Join of a destination, a local or parameter all of whose definitions / actual arguments are destinations) or as the backup (an element of srcs guarded by == t.dst+\".bak\" or just assigned the backup name); anything derived from Task.srcs otherwise is a violation")
	pk := c.pkg(rule, "cmd/minify")
	if pk == nil {
		return
	}
	info := pk.TypesInfo
	n := 0
	for _, fd := range load.FuncDecls(pk) {
		fname := load.FuncName(fd)
		ast.Inspect(fd.Body, func(x ast.Node) bool {
			call, ok := x.(*ast.CallExpr)
			if !ok {
				return true
			}
			cn := calleeName(info, call)
			idxs, isMut := mutatingOS[cn]
			if !isMut {
				return true
			}
			if cn == "os.OpenFile" {
				// read-only opens are not mutations
				if v, ok := intConst(info, call.Args[1]); ok && v&(0x1|0x2|0x40|0x200|0x400) == 0 {
					return true
				}
			}
			n++
			c.R.Func("main." + fname)
			for _, i := range idxs {
				arg := call.Args[i]
				class, why := c.classifyPath(pk, fd, call, arg, 0)
				construct := fmt.Sprintf("main.%s/%s(%s)#arg%d", fname, cn, str(arg), i)
				c.R.Check(class == "destination" || class == "backup", rule, construct, c.pos(call), class+": "+why,
					fmt.Sprintf("%s mutates a path that is not provably the destination or its backup (%s): a file that is only read could be modified or removed", cn, why))
			}
			return true
		})
	}
	c.R.Floor(rule, "mutating os calls in package main", n, 12)
}

// classifyPath: destination | backup | other
func (c *Ctx) classifyPath(pk *packages.Package, fd *ast.FuncDecl, at ast.Node, e ast.Expr, depth int) (string, string) {
	info := pk.TypesInfo
	e = ast.Unparen(e)
	if depth > 4 {
		return "other", "classification depth exceeded"
	}
	if isTaskDst(info, e) {
		return "destination", "Task.dst"
	}
	switch x := e.(type) {
	case *ast.CallExpr:
		cn := calleeName(info, x)
		if cn == "path/filepath.Dir" || cn == "path/filepath.Clean" || cn == "path/filepath.Join" {
			cl, why := c.classifyPath(pk, fd, at, x.Args[0], depth+1)
			return cl, cn + " of " + why
		}
	case *ast.BinaryExpr:
		if x.Op == token.ADD {
			if lit, ok := ast.Unparen(x.Y).(*ast.BasicLit); ok && lit.Value == `"`+bakSuffix+`"` {
				if cl, why := c.classifyPath(pk, fd, at, x.X, depth+1); cl == "destination" {
					return "backup", why + "+.bak"
				}
			}
		}
	case *ast.IndexExpr:
		// srcs[i]: backup only when guarded, or when this very element was just assigned the backup name
		g := c.graph(pk, c.enclosingGraphFunc(pk, fd, at))
		n := g.NodeOf(at)
		if n != nil {
			for _, f := range g.DomFacts(n) {
				if f.Value && f.Test.Kind == flow.KCond {
					if (&cliCtx{pk, info, fd, c.graph(pk, fd)}).isBackupGuard(f.Test.Expr, e) {
						return "backup", "guarded by " + str(f.Test.Expr)
					}
				}
			}
		}
		// inside the try.Do literal of the overwrite branch: the enclosing statement is dominated by SameFile-true and by the assignment of the backup name
		if lit := c.enclosingLit(at); lit != nil {
			og := c.graph(pk, fd)
			on := og.NodeOf(lit)
			if on != nil {
				sameFile, named := false, false
				for _, f := range og.DomFacts(on) {
					if f.Value && f.Test.Kind == flow.KCond && strings.EqualFold(str(f.Test.Expr), "sameFile") {
						sameFile = true
					}
				}
				for _, y := range og.Nodes {
					if y.Kind != flow.KStmt || !og.Dominates(y, on) {
						continue
					}
					if as, ok := y.Stmt.(*ast.AssignStmt); ok && len(as.Lhs) == 1 && str(as.Lhs[0]) == str(e) {
						switch as.Tok {
						case token.ADD_ASSIGN:
							if lit, ok := ast.Unparen(as.Rhs[0]).(*ast.BasicLit); ok && lit.Value == `"`+bakSuffix+`"` {
								named = true
							}
						case token.ASSIGN:
							if cl, _ := c.classifyPath(pk, fd, y.Stmt, as.Rhs[0], depth+1); cl == "backup" {
								named = true
							}
						}
					}
				}
				if sameFile && named {
					return "backup", "the source element that is the destination file (SameFile), just given the .bak name"
				}
			}
		}
		return "other", "element of the source list without a backup guard"
	case *ast.Ident:
		obj := info.Uses[x]
		if obj == nil {
			return "other", "unresolved identifier"
		}
		v, isVar := obj.(*types.Var)
		if !isVar {
			return "other", "not a variable"
		}
		if c.boundToFlag(pk, fd, v, "output") {
			return "destination", "the variable bound to the --output flag"
		}
		if v.Parent() == pk.Types.Scope() {
			return "other", "package-level variable " + v.Name()
		}
		// parameter of the enclosing function (or of the function literal's outer function)
		for i, p := range paramObjs(info, fd) {
			if p == obj {
				sites := 0
				for _, caller := range load.FuncDecls(pk) {
					for _, call := range findCalls(info, caller.Body, true, mainPkg+"."+fd.Name.Name) {
						sites++
						cl, why := c.classifyPath(pk, caller, call, call.Args[i], depth+1)
						if cl != "destination" && cl != "backup" {
							return "other", fmt.Sprintf("parameter %s receives %s in %s (%s)", v.Name(), str(call.Args[i]), load.FuncName(caller), why)
						}
					}
				}
				if sites == 0 {
					return "other", "parameter without call sites"
				}
				// reassignments inside the function must stay in class
				bad := ""
				ast.Inspect(fd.Body, func(y ast.Node) bool {
					if as, ok := y.(*ast.AssignStmt); ok {
						for j, l := range as.Lhs {
							if id, ok := ast.Unparen(l).(*ast.Ident); ok && info.Uses[id] == obj && len(as.Lhs) == len(as.Rhs) {
								if cl, why := c.classifyPath(pk, fd, as, as.Rhs[j], depth+1); cl != "destination" && !selfDerived(info, as.Rhs[j], obj) {
									bad = why
								}
							}
						}
					}
					return true
				})
				if bad != "" {
					return "other", "parameter " + v.Name() + " is reassigned a non-destination (" + bad + ")"
				}
				return "destination", fmt.Sprintf("parameter %s: all %d call site(s) pass a destination", v.Name(), sites)
			}
		}
		// local: all definitions
		defs, badWhy := 0, ""
		ast.Inspect(fd.Body, func(y ast.Node) bool {
			if as, ok := y.(*ast.AssignStmt); ok && len(as.Lhs) == len(as.Rhs) {
				for j, l := range as.Lhs {
					if id, ok := ast.Unparen(l).(*ast.Ident); ok && (info.Defs[id] == obj || info.Uses[id] == obj) {
						defs++
						if cl, why := c.classifyPath(pk, fd, as, as.Rhs[j], depth+1); cl != "destination" && !selfDerived(info, as.Rhs[j], obj) {
							badWhy = why
						}
					}
				}
			}
			return true
		})
		if defs > 0 && badWhy == "" {
			return "destination", fmt.Sprintf("local %s: all %d definition(s) are destinations", v.Name(), defs)
		}
		return "other", "local " + v.Name() + " (" + badWhy + ")"
	}
	return "other", "expression " + str(e)
}

// selfDerived: filepath.Dir(x) of the variable itself keeps its class.
func selfDerived(info *types.Info, e ast.Expr, obj types.Object) bool {
	call, ok := ast.Unparen(e).(*ast.CallExpr)
	if !ok || len(call.Args) == 0 {
		return false
	}
	cn := calleeName(info, call)
	if cn != "path/filepath.Dir" && cn != "path/filepath.Clean" {
		return false
	}
	id, ok := ast.Unparen(call.Args[0]).(*ast.Ident)
	return ok && info.Uses[id] == obj
}

func paramObjs(info *types.Info, fd *ast.FuncDecl) []types.Object {
	var out []types.Object
	for _, f := range fd.Type.Params.List {
		for _, n := range f.Names {
			out = append(out, info.Defs[n])
		}
	}
	return out
}

func (c *Ctx) enclosingLit(n ast.Node) *ast.FuncLit {
	for x := c.P.Parent(n); x != nil; x = c.P.Parent(x) {
		if l, ok := x.(*ast.FuncLit); ok {
			return l
		}
		if _, ok := x.(*ast.FuncDecl); ok {
			return nil
		}
	}
	return nil
}

// enclosingGraphFunc returns the function literal enclosing n if any, else the declaration.
func (c *Ctx) enclosingGraphFunc(pk *packages.Package, fd *ast.FuncDecl, n ast.Node) ast.Node {
	if l := c.enclosingLit(n); l != nil {
		return l
	}
	return fd
}

// ---------------------------------------------------------------------------
// C19

func runC19(c *Ctx) {
	x := c.cli("R19")
	if x == nil {
		return
	}
	c.r191(x)
	c.r192(x)
	c.r204()
	c.r194(x)
	c.r205(x, "R19.5")
	c.r196(x)
	c.r206(x, "R19.7")
	c.r198(x)
	c.r199()
	c.r1910(x)
	c.r208(x, "R19.11")
	c.r1912(x)
	c.r209(x, "R19.14")
	c.r1915(x)
	c.r1916(x)
	c.r1917(x)
	c.r2011(x, "R19.18")
	c.r1919(x)
	c.r1920(x)
	c.r1921(x)
	c.r1922(x)
	c.r1923(x)
	c.r1924(x)
	c.r1925(x)
	c.r1926(x)
	// a bundle written onto one of its inputs: the input is truncated by the open before the lazy reader gets to it,
	// so the output silently lacks that file — the ordering rule of C20 is a condition of "the library's output" too
	c.alsoUnder(map[string]string{"R20.1": "R19.13"}, nil, func() { c.r201(x) })
}

// R19.8: the bundle reader delivers files in order with the whole separator between them.
func (c *Ctx) r198(x *cliCtx) {
	const rule = "R19.8"
	c.R.Rule(rule, "concatFileReader (the reader behind --bundle): (a) every copy out of the separator field S with countdown field L (the field decremented by the copy's result) reads S[len(S)-L:] — the not-yet-delivered suffix — so a separator split over two Read calls is delivered completely and in order; (b) L is (re)armed with len(S) only after a next file was opened, i.e. between two files, never before the first or after the last; (c) files are taken from the front of the list: the opened name is filenames[0] and the remainder filenames[1:]")
	pk, info := x.pk, x.info
	tn, _ := pk.Types.Scope().Lookup("concatFileReader").(*types.TypeName)
	if tn == nil {
		c.R.Unres(rule, "cmd/minify.concatFileReader", "-", "type not found")
		return
	}
	nCopies, nArm, nTake := 0, 0, 0
	for _, fd := range load.FuncDecls(pk) {
		if fd.Body == nil {
			continue
		}
		isMethod := load.RecvName(fd) == "concatFileReader"
		isCtor := fd.Name.Name == "newConcatFileReader"
		if !isMethod && !isCtor {
			continue
		}
		g := c.graph(pk, fd)
		for _, y := range g.Nodes {
			as, ok := y.Stmt.(*ast.AssignStmt)
			if !ok || y.Kind != flow.KStmt {
				continue
			}
			// (a) m := copy(p, r.S[...]) followed by r.L -= m
			if len(as.Rhs) == 1 {
				if call, isCall := ast.Unparen(as.Rhs[0]).(*ast.CallExpr); isCall {
					if id, isId := call.Fun.(*ast.Ident); isId && id.Name == "copy" && len(call.Args) == 2 {
						if sl, isSl := ast.Unparen(call.Args[1]).(*ast.SliceExpr); isSl {
							if typ, fld := fieldOf(info, sl.X); strings.HasSuffix(typ, "concatFileReader") {
								nCopies++
								S := str(sl.X)
								// the countdown: a statement `X -= <result>` right after
								L := ""
								res := str(as.Lhs[0])
								for _, z := range g.Nodes {
									if a2, ok2 := z.Stmt.(*ast.AssignStmt); ok2 && a2.Tok == token.SUB_ASSIGN && len(a2.Rhs) == 1 && str(a2.Rhs[0]) == res {
										L = str(a2.Lhs[0])
									}
								}
								want := "len(" + S + ")-" + L
								okLow := sl.Low != nil && nospace(str(sl.Low)) == nospace(want)
								okHigh := sl.High == nil || nospace(str(sl.High)) == "len("+S+")"
								c.R.Check(L != "" && okLow && okHigh, rule, "cmd/minify."+load.FuncName(fd)+"/copy of the pending "+fld, c.pos(call), "reads "+S+"["+want+":]", "the pending part of the separator is read as "+str(call.Args[1])+", not "+S+"["+want+":]: when the caller's buffer ends inside the separator the remaining bytes are wrong (`;\\n` arrives as `;;`, joining the last line of one file with the first of the next)")
							}
						}
					}
				}
			}
			// (b) r.L = len(r.S)
			for i, l := range as.Lhs {
				if typ, fld := fieldOf(info, l); strings.HasSuffix(typ, "concatFileReader") && fld == "sepLeft" && as.Tok == token.ASSIGN && i < len(as.Rhs) {
					nArm++
					opened := false
					for _, f := range g.DomFacts(y) {
						if f.Test.Kind == flow.KCond && f.Value && nospace(str(f.Test.Expr)) == "0<len(r.filenames)" {
							opened = true
						}
					}
					okVal := nospace(str(as.Rhs[i])) == "len(r.sep)"
					// and an opener call must precede it with its error tested
					var afterOpen bool
					for _, z := range g.Nodes {
						if z.Kind == flow.KStmt && z.Ast() != nil && strings.Contains(str0(z.Ast()), "opener(") && g.Dominates(z, y) {
							afterOpen = true
						}
					}
					c.R.Check(opened && okVal && afterOpen, rule, "cmd/minify."+load.FuncName(fd)+"/separator armed between files", c.pos(as), "len(r.sep) after the next file was opened", "the separator countdown is set to "+str(as.Rhs[i])+" at a point that is not `a next file exists and was opened`: a separator would be emitted before the first / after the last file, or only in part")
				}
			}
			// (c) filename, list = list[0], list[1:]
			if len(as.Lhs) == 2 && len(as.Rhs) == 2 {
				if ix, isIx := ast.Unparen(as.Rhs[0]).(*ast.IndexExpr); isIx {
					if sl, isSl := ast.Unparen(as.Rhs[1]).(*ast.SliceExpr); isSl && str(ix.X) == str(sl.X) && strings.HasSuffix(str(ix.X), "filenames") {
						nTake++
						okTake := str(ix.Index) == "0" && sl.Low != nil && str(sl.Low) == "1" && sl.High == nil && str(as.Lhs[1]) == str(ix.X)
						c.R.Check(okTake, rule, "cmd/minify."+load.FuncName(fd)+"/next file is the first of the list", c.pos(as), "filenames[0], filenames[1:]", "the next file is taken as "+str(as.Rhs[0])+" and the list continued as "+str(as.Rhs[1])+": inputs are not concatenated in the order given")
					}
				}
			}
		}
	}
	c.R.Floor(rule, "separator copies", nCopies, 1)
	c.R.Floor(rule, "separator arming sites", nArm, 1)
	c.R.Floor(rule, "file-taking sites", nTake, 2)
}

// R19.6: a failed write of the destination is a failure of the task.
func (c *Ctx) r196(x *cliCtx) {
	const rule = "R19.6"
	c.R.Rule(rule, "in cmd/minify.minify the error of every io.Copy into the output file is bound, and no path from a non-nil outcome of that error — nor any path that never tests it — reaches a `return success` / `return true` with success still true: a destination that could not be written completely must not be reported as minified (exit status 0)")
	g, info := x.g, x.info
	o := c.outputOpen(rule, x)
	if o == nil {
		return
	}
	fwName := ""
	if as, ok := o.Stmt.(*ast.AssignStmt); ok {
		fwName = str(as.Lhs[0])
	}
	k := 0
	for _, n := range x.nodesCalling("io.Copy") {
		call := findCalls(info, n.Ast(), false, "io.Copy")[0]
		if str(call.Args[0]) != fwName {
			continue
		}
		k++
		construct := fmt.Sprintf("main.minify/write error of io.Copy(%s, %s) reported", fwName, str(call.Args[1]))
		e := assignedErr(info, n, call)
		if e == nil {
			c.R.Bad(rule, construct, c.pos(call), "the error of writing the destination is discarded")
			continue
		}
		// a "good" return: success / true
		goodRet := func(y *flow.Node) bool {
			r := retStmt(y)
			return r != nil && len(r.Results) == 1 && (str(r.Results[0]) == "true" || str(r.Results[0]) == "success")
		}
		markFail := func(y *flow.Node) bool {
			rhs, ok := assignsTo(y, func(l ast.Expr) bool { return str(l) == "success" })
			return ok && str(rhs) == "false"
		}
		// paths from the copy to a good return that avoid both the nil outcome of the error and a failure mark
		p := g.Path(flow.Search{From: []*flow.Node{n}, Goal: goodRet, Avoid: func(y *flow.Node) bool { return errOutcome(info, y, e, true) || markFail(y) || returnsFalse(y) }})
		c.R.Check(p == nil, rule, construct, c.pos(call), "a failed write marks the task as failed", "the destination write can fail (disk full, I/O error) and the task is still reported as successful, exit status 0, with a truncated destination: "+pathStr(c, g, p))
	}
	c.R.Floor(rule, "copies into the output file", k, 2)
}

func (c *Ctx) r191(x *cliCtx) {
	const rule = "R19.1"
	c.R.Rule(rule, "in cmd/minify.minify, on the non-nil outcome of err = m.Minify(fileMimetype, w, …), every path to the single io.Copy(fw, w) rebinds w to a buffer over b — b being the result of io.ReadAll(fr), never reassigned, and used nowhere else than in len/cap, the read-only bytes.NewReader(b) given to the library and that fallback (no reslice of it as output storage, no bytes.Buffer over it as input: the minifiers rewrite what they are given in place) — and sets success = false; every return after that copy yields success or false")
	g, info := x.g, x.info
	construct := "main.minify/fallback to the original bytes"
	var mn *flow.Node
	for _, n := range x.nodesCalling(mMinify) {
		mn = n
	}
	if mn == nil {
		c.R.Unres(rule, construct, c.pos(x.fd), "call of m.Minify not found")
		return
	}
	call := findCalls(info, mn.Ast(), false, mMinify)[0]
	e := assignedErr(info, mn, call)
	wName := str(call.Args[1])
	var copyN *flow.Node
	for _, n := range x.nodesCalling("io.Copy") {
		cc := findCalls(info, n.Ast(), false, "io.Copy")[0]
		if str(cc.Args[1]) == wName && g.Dominates(mn, n) {
			copyN = n
		}
	}
	var bad []string
	if e == nil || copyN == nil {
		c.R.Bad(rule, construct, c.pos(mn.Ast()), "the library's error is not bound, or its output is not copied to the destination by a dominated io.Copy(fw, w)")
		return
	}
	// b: source of the minifier's reader is the ReadAll result
	bName := ""
	if rc := isCall(info, ast.Unparen(call.Args[2]), "bytes.NewReader"); rc != nil {
		bName = str(rc.Args[0])
	}
	readAll := false
	nDefs := 0
	ast.Inspect(x.fd.Body, func(y ast.Node) bool {
		if as, ok := y.(*ast.AssignStmt); ok {
			for _, l := range as.Lhs {
				if str(l) == bName {
					nDefs++
					if len(as.Rhs) == 1 && isCall(info, as.Rhs[0], "io.ReadAll") != nil {
						readAll = true
					}
				}
			}
		}
		return true
	})
	if bName == "" || !readAll || nDefs != 1 {
		bad = append(bad, "the bytes given to the library are not the single io.ReadAll result")
	}
	// b is not exposed to anything that can write it before the fallback: its only uses are len/cap,
	// the read-only bytes.NewReader(b) handed to the library, and the fallback buffer after the error outcome
	ast.Inspect(x.fd.Body, func(y ast.Node) bool {
		id, ok := y.(*ast.Ident)
		if !ok || id.Name != bName || bName == "" || info.Uses[id] == nil {
			return true
		}
		par := c.P.Parent(id)
		if call, isCall := par.(*ast.CallExpr); isCall {
			switch cn := calleeName(info, call); {
			case cn == "bytes.NewReader", cn == "bytes.NewBuffer" && c.caseLabel(call) == "" && dominatedByErrOutcome(c, x, call, e, mn):
				return true
			}
			if fid, isId := call.Fun.(*ast.Ident); isId && (fid.Name == "len" || fid.Name == "cap") {
				return true
			}
		}
		bad = append(bad, "the original bytes "+bName+" are exposed as "+str0(par)+" at "+c.pos(par)+": whatever writes through that view destroys the bytes the fallback relies on")
		return true
	})
	rebind := func(y *flow.Node) bool {
		rhs, ok := assignsTo(y, func(l ast.Expr) bool { return str(l) == wName })
		if !ok {
			return false
		}
		nb := isCall(info, ast.Unparen(rhs), "bytes.NewBuffer", "bytes.NewReader")
		return nb != nil && str(nb.Args[0]) == bName
	}
	fail := func(y *flow.Node) bool {
		rhs, ok := assignsTo(y, func(l ast.Expr) bool { return str(l) == "success" })
		return ok && str(rhs) == "false"
	}
	for _, y := range g.Nodes {
		if !errOutcome(info, y, e, false) || !g.Dominates(mn, y) || !g.Dominates(y.Of, copyN) && g.Path(flow.Search{From: []*flow.Node{y}, Goal: func(z *flow.Node) bool { return z == copyN }}) == nil {
			continue
		}
		if p := g.Path(flow.Search{From: []*flow.Node{y}, Goal: func(z *flow.Node) bool { return z == copyN }, Avoid: rebind}); p != nil {
			bad = append(bad, "after a minification error the (partial) minifier output is written to the destination instead of the original bytes")
		}
		if p := g.Path(flow.Search{From: []*flow.Node{y}, Goal: func(z *flow.Node) bool { return z == copyN }, Avoid: fail}); p != nil {
			bad = append(bad, "after a minification error the task is not marked as failed")
		}
	}
	// no reassignment of b between ReadAll and the fallback (single definition checked above); returns after copy
	for _, y := range g.Nodes {
		r := retStmt(y)
		if r == nil || !g.Dominates(copyN, y) || len(r.Results) != 1 {
			continue
		}
		s := str(r.Results[0])
		if s != "success" && s != "false" {
			bad = append(bad, "a return after the copy yields "+s+" at "+c.pos(r))
		}
	}
	c.R.Check(len(bad) == 0, rule, construct, c.pos(mn.Ast()), "w = buffer(b), success = false before the copy; result is success", strings.Join(bad, "; "))
}

func (c *Ctx) r192(x *cliCtx) {
	const rule = "R19.2"
	c.R.Rule(rule, "in run and minifyWorker every loop whose body calls minify(task) has no break/return/goto out of the loop, and the false result of minify increments a counter on every path of the iteration; minifyWorker sends its counter on the channel, run adds every received counter to fails, and run's `return 0` is reachable only when `0 < fails` is false (its other outcome returns non-zero)")
	pk, info := x.pk, x.info
	loops := 0
	for _, name := range []string{"run", "minifyWorker"} {
		fd := c.fn(rule, pk, name)
		if fd == nil {
			continue
		}
		g := c.graph(pk, fd)
		for _, n := range g.Nodes {
			if n.Kind != flow.KRange {
				continue
			}
			rs := n.Stmt.(*ast.RangeStmt)
			calls := findCalls(info, rs.Body, false, minifyFn)
			if len(calls) == 0 {
				continue
			}
			loops++
			construct := fmt.Sprintf("main.%s/task loop over %s", name, str(rs.X))
			var bad []string
			var tn *flow.Node
			for _, s := range n.Succs {
				if s.Kind == flow.KTrue {
					tn = s
				}
			}
			// leaving the loop other than through its head
			if p := g.Path(flow.Search{From: []*flow.Node{tn}, Goal: func(y *flow.Node) bool {
				return y.Kind == flow.KExit || (y.Kind == flow.KFalse && y.Of == n)
			}, Avoid: func(y *flow.Node) bool { return y == n }}); p != nil {
				bad = append(bad, "the loop can be left before all tasks are processed: "+pathStr(c, g, p))
			}
			// failure counted
			for _, y := range g.Nodes {
				if y.Kind != flow.KStmt || y.Ast() == nil || len(findCalls(info, y.Ast(), false, minifyFn)) == 0 || !g.Dominates(tn, y) {
					continue
				}
				as, ok := y.Stmt.(*ast.AssignStmt)
				if !ok {
					bad = append(bad, "the result of minify(task) is discarded")
					continue
				}
				okName := str(as.Lhs[0])
				inc := func(z *flow.Node) bool {
					s, isInc := z.Stmt.(*ast.IncDecStmt)
					return z.Kind == flow.KStmt && isInc && s.Tok == token.INC
				}
				for _, z := range g.Nodes {
					if (z.Kind == flow.KTrue || z.Kind == flow.KFalse) && z.Of.Kind == flow.KCond && str(z.Of.Expr) == okName && z.Kind == flow.KFalse && g.Dominates(y, z) {
						if p := g.Path(flow.Search{From: []*flow.Node{z}, Goal: func(q *flow.Node) bool { return q == n || q.Kind == flow.KExit }, Avoid: inc}); p != nil {
							bad = append(bad, "a failed task does not increment the failure counter")
						}
					}
				}
			}
			c.R.Check(len(bad) == 0, rule, construct, c.pos(rs), "no early exit; failures counted", strings.Join(bad, "; "))
		}
	}
	c.R.Floor(rule, "task loops", loops, 2)
	// worker sends, run sums
	if fd := c.fn(rule, pk, "minifyWorker"); fd != nil {
		sends := flow.Contains(fd.Body, func(y ast.Node) bool {
			s, ok := y.(*ast.SendStmt)
			return ok && str(s.Value) == "fails"
		})
		c.R.Check(sends, rule, "main.minifyWorker/worker counters sent", c.pos(fd), "chanFails <- fails", "the worker does not report its failure count")
	}
	if fd := c.fn(rule, pk, "run"); fd != nil {
		g := c.graph(pk, fd)
		sums := flow.Contains(fd.Body, func(y ast.Node) bool {
			as, ok := y.(*ast.AssignStmt)
			if !ok || as.Tok != token.ADD_ASSIGN || str(as.Lhs[0]) != "fails" {
				return false
			}
			u, ok := ast.Unparen(as.Rhs[0]).(*ast.UnaryExpr)
			return ok && u.Op == token.ARROW
		})
		c.R.Check(sums, rule, "main.run/worker counters summed", c.pos(fd), "fails += <-chanFails", "failure counts of the workers are not added to the exit decision")
		// exit status
		okExit := false
		for _, n := range g.Nodes {
			r := retStmt(n)
			if r == nil || len(r.Results) != 1 || str(r.Results[0]) != "0" {
				continue
			}
			// the final return 0 (the one after the task processing): dominated by false of 0 < fails
			for _, f := range g.DomFacts(n) {
				if f.Test.Kind == flow.KCond {
					s := nospace(str(f.Test.Expr))
					if (s == "0<fails" || s == "fails>0" || s == "fails!=0") && !f.Value {
						okExit = true
					}
				}
			}
		}
		c.R.Check(okExit, rule, "main.run/exit status", c.pos(fd), "return 0 only when no task failed", "the exit status is 0 although tasks failed (or the failure test is missing)")
	}
}

func (c *Ctx) r194(x *cliCtx) {
	const rule = "R19.4"
	c.R.Rule(rule, "the separator passed to openInputFiles is \";\\n\" exactly for the bundles the JavaScript minifier will receive: the condition guarding the assignment is evaluated for a universe of media types (the JavaScript types of the HTML standard plus the other types the CLI registers) and must hold for precisely those that match the pattern registered together with the js.Minifier in run() — two recognisers of `is JavaScript` in one program must agree (`--type text/javascript` otherwise bundles `x=1` and `y=2` into `x=1y=2`, and a `;` between style sheets would change them)")
	g, info := x.g, x.info
	construct := "main.minify/bundle separator"
	var sepName string
	for _, n := range x.nodesCalling(openIns) {
		call := findCalls(info, n.Ast(), false, openIns)[0]
		sepName = str(call.Args[1])
	}
	if sepName == "" {
		c.R.Unres(rule, construct, c.pos(x.fd), "call of openInputFiles not found")
		return
	}
	// pattern text of a *regexp.Regexp expression: regexp.MustCompile("…") or a variable initialised so
	var patternOf func(e ast.Expr) (string, bool)
	patternOf = func(e ast.Expr) (string, bool) {
		e = ast.Unparen(e)
		if call, ok := e.(*ast.CallExpr); ok && (calleeName(info, call) == "regexp.MustCompile" || calleeName(info, call) == "regexp.MustCompilePOSIX") && len(call.Args) == 1 {
			if v, err := c.Ev.Expr(x.pk, call.Args[0]); err == nil {
				if sv, isS := v.(string); isS {
					return sv, true
				}
			}
			return "", false
		}
		if id, ok := e.(*ast.Ident); ok {
			if v, isVar := info.Uses[id].(*types.Var); isVar && v.Pkg() == x.pk.Types && v.Parent() == x.pk.Types.Scope() {
				if init := load.VarInit(x.pk, id.Name); init != nil && !c.assignedAnywhere(v) {
					return patternOf(init)
				}
			}
		}
		return "", false
	}
	// the pattern registered with the JavaScript minifier
	var jsPattern string
	found := 0
	for _, fd := range load.FuncDecls(x.pk) {
		for _, call := range findCalls(info, fd.Body, true, load.Mod+".(M).AddRegexp") {
			if len(call.Args) != 2 {
				continue
			}
			if namedTypeName(deref(info.TypeOf(call.Args[1]))) != load.Mod+"/js.Minifier" {
				continue
			}
			if p, ok := patternOf(call.Args[0]); ok {
				jsPattern = p
				found++
			}
		}
	}
	if found != 1 {
		c.R.Unres(rule, construct, c.pos(x.fd), fmt.Sprintf("%d registrations of a js.Minifier with a constant pattern found (want 1)", found))
		return
	}
	jsRe, err := regexp.Compile(jsPattern)
	if err != nil {
		c.R.Unres(rule, construct, c.pos(x.fd), "registered pattern does not compile: "+err.Error())
		return
	}
	universe := sortedKeys(ref.JSMimeTypes)
	universe = append(universe, "module", "text/css", "text/html", "image/svg+xml", "application/json", "application/ld+json", "text/xml", "application/xml", "application/rss+xml", "text/plain", "text/asp", "application/x-httpd-php", "text/x-go-template", "")
	// evaluate a guard for mimetype value T
	var evalGuard func(e ast.Expr, T string) (bool, bool)
	evalStr := func(e ast.Expr, T string) (string, bool) {
		e = ast.Unparen(e)
		if id, ok := e.(*ast.Ident); ok {
			if v, isVar := info.Uses[id].(*types.Var); isVar && v.Pkg() == x.pk.Types && v.Parent() != x.pk.Types.Scope() {
				if b, isB := v.Type().Underlying().(*types.Basic); isB && b.Kind() == types.String {
					return T, true // the media type variable of the task
				}
			}
		}
		if v, err := c.Ev.Expr(x.pk, e); err == nil {
			if sv, isS := v.(string); isS {
				return sv, true
			}
		}
		// constant key of a package-level map literal (its initial contents)
		if ix, ok := e.(*ast.IndexExpr); ok {
			if id, isId := ast.Unparen(ix.X).(*ast.Ident); isId {
				if mv, _, err := c.Ev.PackageVar(x.pk, id.Name); err == nil {
					if m, isM := mv.(*eval.Map); isM {
						if kv, err := c.Ev.Expr(x.pk, ix.Index); err == nil {
							for _, en := range m.Entries {
								if en.Key == kv {
									if sv, isS := en.Value.(string); isS {
										return sv, true
									}
								}
							}
						}
					}
				}
			}
		}
		return "", false
	}
	evalGuard = func(e ast.Expr, T string) (bool, bool) {
		e = ast.Unparen(e)
		switch b := e.(type) {
		case *ast.BinaryExpr:
			switch b.Op {
			case token.EQL, token.NEQ:
				if isNilExpr(b.X) || isNilExpr(b.Y) {
					return b.Op == token.EQL, true // err == nil: the normal course
				}
				l, ok1 := evalStr(b.X, T)
				r, ok2 := evalStr(b.Y, T)
				if !ok1 || !ok2 {
					return false, false
				}
				return (l == r) == (b.Op == token.EQL), true
			}
		case *ast.CallExpr:
			if sel, ok := b.Fun.(*ast.SelectorExpr); ok && (sel.Sel.Name == "MatchString" || sel.Sel.Name == "Match") && len(b.Args) == 1 {
				if p, okp := patternOf(sel.X); okp {
					re, err := regexp.Compile(p)
					arg := b.Args[0]
					if conv, isConv := ast.Unparen(arg).(*ast.CallExpr); isConv && len(conv.Args) == 1 {
						arg = conv.Args[0] // []byte(x)
					}
					if s, oks := evalStr(arg, T); oks && err == nil {
						return re.MatchString(s), true
					}
				}
			}
		}
		return false, false
	}
	var bad []string
	k := 0
	for _, n := range g.Nodes {
		rhs, ok := assignsTo(n, func(l ast.Expr) bool { return str(l) == sepName })
		if !ok {
			continue
		}
		k++
		v, err := c.Ev.Expr(x.pk, rhs)
		b, isB := v.([]byte)
		if err != nil || !isB || string(b) != ";\n" {
			bad = append(bad, "separator value is not \";\\n\"")
		}
		// conjunction of the dominating outcomes
		var facts []flow.Fact
		for _, f := range g.DomFacts(n) {
			if f.Test.Kind == flow.KCond && f.Test.Expr.Pos() > 0 {
				facts = append(facts, f)
			}
		}
		// only the tests that mention the media type decide; the others (err == nil, number of sources) are the normal course
		var wrongFor []string
		undecided := ""
		for _, T := range universe {
			holds := true
			mentioned := false
			for _, f := range facts {
				if !flow.Contains(f.Test.Expr, func(q ast.Node) bool {
					id, ok := q.(*ast.Ident)
					return ok && strings.Contains(strings.ToLower(id.Name), "mimetype")
				}) {
					continue
				}
				mentioned = true
				val, okv := evalGuard(f.Test.Expr, T)
				if !okv {
					undecided = str(f.Test.Expr)
					continue
				}
				if val != f.Value {
					holds = false
				}
			}
			if !mentioned {
				holds = true
			}
			if holds != jsRe.MatchString(T) {
				wrongFor = append(wrongFor, fmt.Sprintf("%q (separator %v, JavaScript minifier %v)", T, holds, jsRe.MatchString(T)))
			}
		}
		if undecided != "" {
			c.R.Unres(rule, construct, c.pos(n.Stmt), "guard "+undecided+" could not be evaluated")
			return
		}
		if len(wrongFor) > 0 {
			bad = append(bad, "the separator guard and the pattern registered with the JavaScript minifier disagree for "+strings.Join(wrongFor, ", "))
		}
	}
	if k == 0 {
		bad = append(bad, "no separator is ever set: concatenated scripts can merge across file boundaries")
	}
	c.R.Check(len(bad) == 0, rule, construct, c.pos(x.fd), fmt.Sprintf("\";\\n\" exactly for the %d media types of the universe that select the JavaScript minifier", len(universe)), strings.Join(bad, "; "))
}

// boundToFlag: the variable's address is registered with argp AddOpt under the given long name.
func (c *Ctx) boundToFlag(pk *packages.Package, fd *ast.FuncDecl, v *types.Var, long string) bool {
	info := pk.TypesInfo
	found := false
	for _, f := range load.FuncDecls(pk) {
		for _, call := range findCalls(info, f.Body, true, "github.com/tdewolff/argp.(Argp).AddOpt") {
			if len(call.Args) < 3 {
				continue
			}
			u, ok := ast.Unparen(call.Args[0]).(*ast.UnaryExpr)
			if !ok || u.Op != token.AND {
				continue
			}
			id, ok := ast.Unparen(u.X).(*ast.Ident)
			if !ok || info.Uses[id] != types.Object(v) {
				continue
			}
			if val, err := c.Ev.Expr(pk, call.Args[2]); err == nil && val == long {
				found = true
			}
		}
	}
	return found
}

// R19.9: the address of a per-loop variable does not outlive its iteration.
func (c *Ctx) r199() {
	const rule = "R19.9"
	c.R.Rule(rule, "the module is compiled with the loop-variable semantics of its go.mod language version; below go1.22 a `for`/`range` variable is ONE variable for the whole loop. In cmd/minify and the library packages every `&v` of such a variable that is stored (map/slice element, field, channel send, appended, captured by a go/defer closure) instead of being consumed by the call it is an argument of is reported: all stored pointers alias the last element — the watch mode's file→task map then re-minifies the last task whatever file changed")
	n, stored := 0, 0
	rels := append([]string{"cmd/minify"}, libPkgs...)
	for _, rel := range rels {
		pk := c.P.Pkg(rel)
		if pk == nil {
			continue
		}
		info := pk.TypesInfo
		gv := pk.Types.GoVersion()
		perIteration := false
		if gv != "" {
			var maj, min int
			fmt.Sscanf(strings.TrimPrefix(gv, "go"), "%d.%d", &maj, &min)
			perIteration = maj > 1 || maj == 1 && min >= 22
		}
		for _, fd := range load.FuncDecls(pk) {
			if fd.Body == nil {
				continue
			}
			loopVars := map[types.Object]string{}
			ast.Inspect(fd.Body, func(x ast.Node) bool {
				switch s := x.(type) {
				case *ast.RangeStmt:
					if s.Tok == token.DEFINE {
						for _, e := range []ast.Expr{s.Key, s.Value} {
							if id, ok := e.(*ast.Ident); ok && info.Defs[id] != nil {
								loopVars[info.Defs[id]] = "range"
							}
						}
					}
				case *ast.ForStmt:
					if as, ok := s.Init.(*ast.AssignStmt); ok && as.Tok == token.DEFINE {
						for _, l := range as.Lhs {
							if id, ok := l.(*ast.Ident); ok && info.Defs[id] != nil {
								loopVars[info.Defs[id]] = "for"
							}
						}
					}
				}
				return true
			})
			if len(loopVars) == 0 {
				continue
			}
			ast.Inspect(fd.Body, func(x ast.Node) bool {
				u, ok := x.(*ast.UnaryExpr)
				if !ok || u.Op != token.AND {
					return true
				}
				id, ok := ast.Unparen(u.X).(*ast.Ident)
				if !ok || loopVars[info.Uses[id]] == "" {
					return true
				}
				n++
				// consumed by a call: direct argument of a call expression (not of append / go / defer)
				par := c.P.Parent(u)
				consumed := false
				if call, isCall := par.(*ast.CallExpr); isCall {
					consumed = true
					if fid, isId := call.Fun.(*ast.Ident); isId && fid.Name == "append" {
						consumed = false
					}
					switch c.P.Parent(call).(type) {
					case *ast.GoStmt, *ast.DeferStmt:
						consumed = false
					}
				}
				if consumed {
					return true
				}
				stored++
				construct := fmt.Sprintf("%s.%s/&%s of the %s loop", pk.Name, load.FuncName(fd), id.Name, loopVars[info.Uses[id]])
				c.R.Check(perIteration, rule, construct, c.pos(u), "language version "+gv+" gives every iteration its own variable", "language version "+gv+" (go.mod) has one variable per loop: the stored pointer &"+id.Name+" is the same in every iteration and ends up pointing at the last element")
				return true
			})
		}
	}
	c.R.Note("R19.9: %d address-of expressions on loop variables, %d stored", n, stored)
	c.R.Floor(rule, "packages examined", len(rels), 8)
}

// dominatedByErrOutcome: the call lies on the non-nil outcome of the library error e.
func dominatedByErrOutcome(c *Ctx, x *cliCtx, call *ast.CallExpr, e types.Object, mn *flow.Node) bool {
	n := x.g.NodeOf(call)
	if n == nil {
		return false
	}
	for _, f := range x.g.DomFacts(n) {
		if f.Test.Kind != flow.KCond {
			continue
		}
		for _, sc := range f.Test.Succs {
			if (sc.Kind == flow.KTrue) == f.Value && errOutcome(x.info, sc, e, false) {
				return true
			}
		}
	}
	return false
}

// R19.10: --include / --exclude are applied in the order given, the last matching one decides.
func (c *Ctx) r1910(x *cliCtx) {
	const rule = "R19.10"
	c.R.Rule(rule, "the README documents that --include and --exclude `are interpreted in the order given` and that an include re-admits `paths previously excluded`: the last matching filter decides. In cmd/minify.fileFilter the loop over the compiled filter list (the slice that is appended to in step with the signed pattern list) therefore runs to completion — no return, break or goto leaves it — and what is returned after it is the variable the loop assigns the sign of the matching filter to. A first-match-wins loop keeps `--exclude 'src/vendor/**' --include 'src/vendor/keep.js'` from ever re-including the file")
	pk, info := x.pk, x.info
	fd := c.fn(rule, pk, "fileFilter")
	if fd == nil {
		return
	}
	g := c.graph(pk, fd)
	n := 0
	for _, rn := range g.Nodes {
		if rn.Kind != flow.KRange {
			continue
		}
		rs := rn.Stmt.(*ast.RangeStmt)
		// the filter loop: its body reads the sign `<list>[i][0]`
		var signVar string
		ast.Inspect(rs.Body, func(y ast.Node) bool {
			if as, ok := y.(*ast.AssignStmt); ok && len(as.Lhs) == 1 && len(as.Rhs) == 1 {
				if be, isB := ast.Unparen(as.Rhs[0]).(*ast.BinaryExpr); isB && be.Op == token.EQL {
					if k, isK := intConst(info, be.Y); isK && (k == '+' || k == '-') {
						signVar = str(as.Lhs[0])
					}
				}
			}
			return true
		})
		hasSign := flow.Contains(rs.Body, func(y ast.Node) bool {
			be, ok := y.(*ast.BinaryExpr)
			if !ok || be.Op != token.EQL {
				return false
			}
			k, isK := intConst(info, be.Y)
			return isK && (k == '+' || k == '-')
		})
		if !hasSign {
			continue
		}
		n++
		construct := "main.fileFilter/filter loop over " + str(rs.X)
		var tn *flow.Node
		for _, sc := range rn.Succs {
			if sc.Kind == flow.KTrue {
				tn = sc
			}
		}
		var bad []string
		if p := g.Path(flow.Search{From: []*flow.Node{tn}, Goal: func(y *flow.Node) bool {
			return y.Kind == flow.KExit || (y.Kind == flow.KFalse && y.Of == rn)
		}, Avoid: func(y *flow.Node) bool { return y == rn }}); p != nil {
			bad = append(bad, "the loop is left at a matching filter, later filters are never consulted: "+pathStr(c, g, p))
		}
		if signVar == "" {
			bad = append(bad, "the sign of the matching filter is not stored in a variable for the decision after the loop")
		} else {
			// every return reachable after the loop yields that variable
			for _, y := range g.Nodes {
				r := retStmt(y)
				if r == nil || len(r.Results) != 1 {
					continue
				}
				after := false
				for _, f := range g.DomFacts(y) {
					if f.Test == rn && !f.Value {
						after = true
					}
				}
				if after && str(r.Results[0]) != signVar {
					bad = append(bad, "after the loop "+str(r.Results[0])+" is returned instead of "+signVar)
				}
			}
		}
		c.R.Check(len(bad) == 0, rule, construct, c.pos(rs), "runs to completion, the last match decides", strings.Join(bad, "; "))
	}
	c.R.Floor(rule, "filter loops", n, 1)
}

// R19.12: `**` is translated before `*`.
func (c *Ctx) r1912(x *cliCtx) {
	const rule = "R19.12"
	c.R.Rule(rule, "cmd/minify.compilePattern turns a glob into a regular expression by replacing the quoted wildcards. `\\*\\*` (any path) contains `\\*` (any name): the replacement of the longer wildcard must come first — an earlier strings.ReplaceAll, or an earlier pair of a strings.NewReplacer (which tries its pairs in argument order). Otherwise `**` becomes `[^/]*[^/]*` and --exclude '**/vendor/**' no longer reaches below the first directory level")
	pk, info := x.pk, x.info
	fd := c.fn(rule, pk, "compilePattern")
	if fd == nil {
		return
	}
	g := c.graph(pk, fd)
	constStr := func(e ast.Expr) (string, bool) {
		v, err := c.Ev.Expr(pk, e)
		if err != nil {
			return "", false
		}
		sv, ok := v.(string)
		return sv, ok
	}
	type rep struct {
		old string
		n   *flow.Node
		idx int
	}
	var reps []rep
	for _, y := range g.Nodes {
		a := y.Ast()
		if a == nil || y.Kind != flow.KStmt {
			continue
		}
		flowInspectCalls(a, func(call *ast.CallExpr) {
			switch calleeName(info, call) {
			case "strings.ReplaceAll", "strings.Replace":
				if len(call.Args) >= 3 {
					if sv, ok := constStr(call.Args[1]); ok {
						reps = append(reps, rep{sv, y, 0})
					}
				}
			case "strings.NewReplacer":
				for i := 0; i+1 < len(call.Args); i += 2 {
					if sv, ok := constStr(call.Args[i]); ok {
						reps = append(reps, rep{sv, y, i})
					}
				}
			}
		})
	}
	var star, dstar *rep
	for i := range reps {
		switch reps[i].old {
		case `\*`:
			star = &reps[i]
		case `\*\*`:
			dstar = &reps[i]
		}
	}
	if star == nil || dstar == nil {
		c.R.Unres(rule, "main.compilePattern/wildcard replacements", c.pos(fd), "the replacements of `\\*` and `\\*\\*` were not both found")
		return
	}
	ok := false
	if star.n == dstar.n {
		ok = dstar.idx < star.idx
	} else {
		ok = g.Dominates(dstar.n, star.n)
	}
	c.R.Check(ok, rule, "main.compilePattern/`**` replaced before `*`", c.pos(dstar.n.Ast()), "longest wildcard first", "the single star is translated first (or listed first in the replacer): `**` turns into two name wildcards and stops at a directory separator")
}

// R19.15: every extension the CLI knows selects a minifier the CLI registers.
func (c *Ctx) r1915(x *cliCtx) {
	const rule = "R19.15"
	c.R.Rule(rule, "cmd/minify maps file extensions to media types (extMap) and registers minifiers under media types and patterns in run(). A file is selected by its extension and minified by the lookup of the mapped type: every value of extMap must be matched by a registration — a literal of m.Add, or a constant pattern of m.AddRegexp (evaluated with package regexp). A type nothing is registered for (`application/xhtml-xml`, a typo of `+xml`) makes every such file fail with `minifier does not exist for mimetype` after it has been selected")
	info := x.info
	v, _, err := c.Ev.PackageVar(x.pk, "extMap")
	if err != nil {
		c.R.Unres(rule, "main.extMap", "-", "extMap could not be evaluated: "+err.Error())
		return
	}
	var pairs [][2]string
	if mp, ok := v.(*eval.Map); ok {
		for _, e := range mp.Entries {
			k, okk := e.Key.(string)
			val, okv := e.Value.(string)
			if okk && okv {
				pairs = append(pairs, [2]string{k, val})
			}
		}
	}
	if len(pairs) == 0 {
		c.R.Unres(rule, "main.extMap", "-", fmt.Sprintf("extMap evaluated to %T", v))
		return
	}
	sort.Slice(pairs, func(i, j int) bool { return pairs[i][0] < pairs[j][0] })
	var patternOf func(e ast.Expr) (string, bool)
	patternOf = func(e ast.Expr) (string, bool) {
		e = ast.Unparen(e)
		if call, ok := e.(*ast.CallExpr); ok && (calleeName(info, call) == "regexp.MustCompile" || calleeName(info, call) == "regexp.MustCompilePOSIX") && len(call.Args) == 1 {
			if v, err := c.Ev.Expr(x.pk, call.Args[0]); err == nil {
				if sv, isS := v.(string); isS {
					return sv, true
				}
			}
			return "", false
		}
		if id, ok := e.(*ast.Ident); ok {
			if v, isVar := info.Uses[id].(*types.Var); isVar && v.Pkg() == x.pk.Types && v.Parent() == x.pk.Types.Scope() {
				if init := load.VarInit(x.pk, id.Name); init != nil && !c.assignedAnywhere(v) {
					return patternOf(init)
				}
			}
		}
		return "", false
	}
	literals := map[string]bool{}
	var patterns []*regexp.Regexp
	unknown := 0
	for _, fd := range load.FuncDecls(x.pk) {
		for _, call := range findCalls(info, fd.Body, true, load.Mod+".(M).Add", load.Mod+".(M).AddFunc", load.Mod+".(M).AddCmd") {
			if v, err := c.Ev.Expr(x.pk, call.Args[0]); err == nil {
				if sv, isS := v.(string); isS {
					literals[sv] = true
					continue
				}
			}
			unknown++
		}
		for _, call := range findCalls(info, fd.Body, true, load.Mod+".(M).AddRegexp", load.Mod+".(M).AddFuncRegexp", load.Mod+".(M).AddCmdRegexp") {
			if p, ok := patternOf(call.Args[0]); ok {
				if re, err := regexp.Compile(p); err == nil {
					patterns = append(patterns, re)
					continue
				}
			}
			unknown++
		}
	}
	if len(literals)+len(patterns) < 6 {
		c.R.Unres(rule, "main.run/registrations", c.pos(x.fd), fmt.Sprintf("only %d literal and %d pattern registrations with constant arguments found", len(literals), len(patterns)))
		return
	}
	for _, pr := range pairs {
		matched := literals[pr[1]]
		for _, re := range patterns {
			if re.MatchString(pr[1]) {
				matched = true
			}
		}
		c.R.Check(matched || unknown > 0, rule, "main.extMap["+pr[0]+"] selects a registered minifier", "-", pr[1], "files with the extension ."+pr[0]+" are given the media type "+pr[1]+", for which run() registers no minifier (no m.Add literal, no m.AddRegexp pattern matches): every such file is selected and then fails")
	}
	c.R.Floor(rule, "extMap entries", len(pairs), 15)
}

// R19.16: the mirror path is computed with filepath.Rel.
func (c *Ctx) r1916(x *cliCtx) {
	const rule = "R19.16"
	c.R.Rule(rule, "with a directory as output a file keeps its path relative to the root it was found under: in cmd/minify.NewTask the path joined onto the output (`filepath.Join(output, R)`) is the first result of filepath.Rel(root, input) on the function's own parameters. A textual prefix cut is not the same function: with root `.` it strips the dot of a hidden file (`.theme.css` → `out/theme.css`, overwriting an unrelated file), and it is wrong for every root that is not spelled as a prefix of the input")
	pk, info := x.pk, x.info
	fd := c.fn(rule, pk, "NewTask")
	if fd == nil {
		return
	}
	params := map[string]int{}
	i := 0
	for _, f := range fd.Type.Params.List {
		for _, nm := range f.Names {
			params[nm.Name] = i
			i++
		}
	}
	n := 0
	for _, call := range findCalls(info, fd.Body, false, "path/filepath.Join") {
		if len(call.Args) != 2 {
			continue
		}
		if _, isParam := params[nospace(str(call.Args[0]))]; !isParam {
			continue
		}
		n++
		good := false
		why := "the joined path is " + str(call.Args[1])
		if id, ok := ast.Unparen(call.Args[1]).(*ast.Ident); ok {
			if def, ok := c.singleDef(pk, id).(*ast.CallExpr); ok && calleeName(info, def) == "path/filepath.Rel" && len(def.Args) == 2 {
				_, p0 := params[nospace(str(def.Args[0]))]
				_, p1 := params[nospace(str(def.Args[1]))]
				if p0 && p1 && params[nospace(str(def.Args[0]))] < params[nospace(str(def.Args[1]))] {
					good = true
				} else {
					why = "filepath.Rel is applied to " + str(def.Args[0]) + ", " + str(def.Args[1])
				}
			} else {
				why = id.Name + " is not the result of filepath.Rel"
			}
		}
		c.R.Check(good, rule, fmt.Sprintf("main.NewTask/destination under a directory output#%d", n), c.pos(call), "filepath.Join(output, filepath.Rel(root, input))", why+": the destination is not the path of the input relative to its root (`minify -o out/ .theme.css` writes out/theme.css)")
	}
	c.R.Floor(rule, "joins onto the output directory in NewTask", n, 1)
}

// R19.17: a mirrored file lands inside the output directory.
func (c *Ctx) r1917(x *cliCtx) {
	const rule = "R19.17"
	c.R.Rule(rule, "filepath.Rel(root, input) starts with `..` when the input does not lie under the root — which happens for the input `..` itself, whose lexical parent (filepath.Dir) is `.`. Joined onto the output directory such a path leaves it (`minify -r -o out/ ..` writes ./a.css next to out/). In cmd/minify.NewTask every path from the filepath.Rel call to the filepath.Join onto the output passes a test of the relative path against `..`")
	pk, info := x.pk, x.info
	fd := c.fn(rule, pk, "NewTask")
	if fd == nil {
		return
	}
	g := c.graph(pk, fd)
	var relN, joinN *flow.Node
	relName := ""
	for _, y := range g.Nodes {
		a := y.Ast()
		if a == nil || y.Kind != flow.KStmt {
			continue
		}
		if calls := findCalls(info, a, false, "path/filepath.Rel"); len(calls) > 0 {
			relN = y
			if as, ok := y.Stmt.(*ast.AssignStmt); ok && len(as.Lhs) >= 1 {
				relName = nospace(str(as.Lhs[0]))
			}
		}
		for _, call := range findCalls(info, a, false, "path/filepath.Join") {
			if len(call.Args) == 2 && nospace(str(call.Args[1])) == relName && relName != "" {
				joinN = y
			}
		}
	}
	if relN == nil || joinN == nil {
		c.R.Unres(rule, "main.NewTask/mirror path", c.pos(fd), "filepath.Rel / filepath.Join pair not found (see R19.16)")
		return
	}
	tests := func(q *flow.Node) bool {
		if q.Kind != flow.KCond {
			return false
		}
		s := str(q.Expr)
		return strings.Contains(s, relName) && strings.Contains(s, `".."`)
	}
	p := g.Path(flow.Search{From: []*flow.Node{relN}, Goal: func(q *flow.Node) bool { return q == joinN }, Avoid: tests})
	c.R.Check(p == nil, rule, "main.NewTask/destination stays inside the output directory", c.pos(joinN.Ast()), "the relative path is tested against `..` before it is joined", "the path of the input relative to its root is joined onto the output directory without a test for a leading `..`: for the input `..` (root `.`) the destination lies outside the output directory")
}

// R20.10: no task writes onto the input of another task.
func (c *Ctx) r2010(x *cliCtx) {
	const rule = "R20.10"
	c.R.Rule(rule, "tasks run concurrently and each protects only its own sources (the SameFile test of minify() compares t.dst with t.srcs). With the output directory inside the input tree — `minify -r -o dir/sub/ dir/` — the destination of dir/x.js is dir/sub/x.js, which is itself the source of another task: it is truncated and rewritten without a backup before or while that task reads it, and its original content exists nowhere afterwards. In cmd/minify.createTasks the successful return is, with the bundle flag off (a bundle is one task, whose own sources minify() protects) and an output other than stdout, dominated by a loop over the tasks that looks a task's dst up in a collection keyed by source paths (an index expression on a map that a loop over the tasks fills with their sources, or a call whose argument mentions .dst), whose failure outcome returns an error")
	pk, info := x.pk, x.info
	fd := c.fn(rule, pk, "createTasks")
	if fd == nil {
		return
	}
	g := c.graph(pk, fd)
	// success returns: last result is nil
	var rets []*flow.Node
	for _, y := range g.Nodes {
		if rs := retStmt(y); rs != nil && len(rs.Results) > 0 && isNilExpr(rs.Results[len(rs.Results)-1]) {
			// only returns in the function itself, not in the walk literal
			if c.enclosingLit(rs) == nil {
				rets = append(rets, y)
			}
		}
	}
	if len(rets) == 0 {
		c.R.Unres(rule, "main.createTasks/success return", c.pos(fd), "no `return …, nil` found")
		return
	}
	srcMaps := map[string]bool{}
	for _, s := range c.crossCheckSites(x, fd) {
		if !s.isDst && s.store {
			srcMaps[str(s.idx.X)] = true
		}
	}
	crossCheck := func(q *flow.Node) bool {
		if q.Kind != flow.KRange {
			return false
		}
		rs, ok := q.Stmt.(*ast.RangeStmt)
		if !ok || !strings.Contains(nospace(str(rs.X)), "tasks") {
			return false
		}
		hit := false
		ast.Inspect(rs.Body, func(z ast.Node) bool {
			switch e := z.(type) {
			case *ast.IndexExpr:
				// a look-up of a destination in a map that is filled with sources
				if _, isMap := info.TypeOf(e.X).Underlying().(*types.Map); isMap && strings.Contains(nospace(str(e.Index)), ".dst") && srcMaps[str(e.X)] {
					// … whose hit is refused: the if statement that makes the look-up returns an error in its body (a look-up that
					// only finds out whether the task overwrites its own input does not count)
					for p := c.P.Parent(e); p != nil; p = c.P.Parent(p) {
						ifs, ok := p.(*ast.IfStmt)
						if !ok {
							if _, isStmt := p.(ast.Stmt); isStmt && p != ast.Node(ifs) {
								if _, isAssign := p.(*ast.AssignStmt); !isAssign {
									break
								}
							}
							continue
						}
						for _, st := range ifs.Body.List {
							if rs, ok := st.(*ast.ReturnStmt); ok && len(rs.Results) > 0 && !isNilExpr(rs.Results[len(rs.Results)-1]) {
								hit = true
							}
						}
						break
					}
				}
			case *ast.CallExpr:
				if strings.HasSuffix(calleeName(info, e), ".SameFile") && len(e.Args) == 2 {
					a0, a1 := nospace(str(e.Args[0])), nospace(str(e.Args[1]))
					if strings.Contains(a0+a1, ".dst") && (strings.Contains(a0+a1, "srcs") || strings.Contains(a0+a1, "src")) {
						hit = true
					}
				}
			}
			return true
		})
		return hit
	}
	for i, r := range rets {
		r := r
		p := g.Path(flow.Search{From: []*flow.Node{g.Entry}, Goal: func(q *flow.Node) bool { return q == r }, Avoid: crossCheck, Assume: noBundleToFiles})
		c.R.Check(p == nil, rule, fmt.Sprintf("main.createTasks/destinations checked against all sources#%d", i+1), c.pos(r.Ast()), "a loop over the tasks looks every dst up among the sources before the tasks are returned", "the tasks are handed out without comparing any destination with the sources of the other tasks: with the output directory inside the input tree a file that is still to be read is overwritten (`minify -r -o dir/sub/ dir/` loses dir/sub/x.js)")
	}
}

// crossCheckSites lists, in createTasks, the map index expressions inside loops over the tasks whose key mentions a
// task's destination (".dst") or one of its sources (the range variable of a loop over ".srcs").
type crossSite struct {
	idx   *ast.IndexExpr
	isDst bool
	store bool // the index expression is assigned to
}

func (c *Ctx) crossCheckSites(x *cliCtx, fd *ast.FuncDecl) []crossSite {
	info := x.info
	var out []crossSite
	ast.Inspect(fd.Body, func(z ast.Node) bool {
		rs, ok := z.(*ast.RangeStmt)
		if !ok || !strings.Contains(nospace(str(rs.X)), "tasks") {
			return true
		}
		srcVars := map[types.Object]bool{}
		ast.Inspect(rs.Body, func(y ast.Node) bool {
			if in, ok := y.(*ast.RangeStmt); ok && strings.Contains(nospace(str(in.X)), ".srcs") {
				if id, ok := in.Value.(*ast.Ident); ok {
					srcVars[info.Defs[id]] = true
				}
			}
			return true
		})
		ast.Inspect(rs.Body, func(y ast.Node) bool {
			e, ok := y.(*ast.IndexExpr)
			if !ok {
				return true
			}
			if _, isMap := info.TypeOf(e.X).Underlying().(*types.Map); !isMap {
				return true
			}
			isDst := strings.Contains(nospace(str(e.Index)), ".dst")
			isSrc := false
			ast.Inspect(e.Index, func(w ast.Node) bool {
				if id, ok := w.(*ast.Ident); ok && srcVars[info.Uses[id]] {
					isSrc = true
				}
				return true
			})
			if !isDst && !isSrc {
				return true
			}
			store := false
			if as, ok := c.P.Parent(e).(*ast.AssignStmt); ok {
				for _, l := range as.Lhs {
					if l == ast.Expr(e) {
						store = true
					}
				}
			}
			out = append(out, crossSite{e, isDst, store})
			return true
		})
		return false
	})
	return out
}

// canonicalPath: e is a call of a function (declared, or a literal bound once to a local) whose body calls
// filepath.Abs and filepath.EvalSymlinks.
func (c *Ctx) canonicalPath(x *cliCtx, fd *ast.FuncDecl, e ast.Expr) bool {
	info := x.info
	call, ok := ast.Unparen(e).(*ast.CallExpr)
	if !ok || len(call.Args) != 1 {
		return false
	}
	var body *ast.BlockStmt
	switch f := ast.Unparen(call.Fun).(type) {
	case *ast.Ident:
		obj := info.Uses[f]
		if fn, isFn := obj.(*types.Func); isFn {
			if d := load.Func(x.pk, fn.Name()); d != nil && fn.Pkg() == x.pk.Types {
				body = d.Body
			}
		} else if obj != nil {
			n := 0
			ast.Inspect(fd.Body, func(z ast.Node) bool {
				as, ok := z.(*ast.AssignStmt)
				if !ok {
					return true
				}
				for i, l := range as.Lhs {
					if id, ok := l.(*ast.Ident); ok && (info.Defs[id] == obj || info.Uses[id] == obj) && i < len(as.Rhs) {
						n++
						if lit, ok := as.Rhs[i].(*ast.FuncLit); ok {
							body = lit.Body
						}
					}
				}
				return true
			})
			if n != 1 {
				body = nil
			}
		}
	}
	if body == nil {
		return false
	}
	abs, links := false, false
	ast.Inspect(body, func(z ast.Node) bool {
		if ce, ok := z.(*ast.CallExpr); ok {
			switch calleeName(info, ce) {
			case "path/filepath.Abs":
				abs = true
			case "path/filepath.EvalSymlinks":
				links = true
			}
		}
		return true
	})
	return abs && links
}

// R20.11 (= R19.18): the comparison of destinations with sources does not depend on how a path is spelled.
func (c *Ctx) r2011(x *cliCtx, rule string) {
	c.R.Rule(rule, "the cross-check of createTasks compares path strings, and the same file has many spellings: with the output given as an absolute path and the inputs as relative ones — `minify -r -o $PWD/src/ src/sub/ src/x.js` — the destination $PWD/src/x.js of src/sub/x.js is not found among the sources although it is the input src/x.js, which is then overwritten without a backup. Every key stored in or looked up in the collections of that check (map index expressions inside the loops over the tasks whose key mentions .dst or a source) is the result of one canonicalising function — a function whose body calls filepath.Abs and filepath.EvalSymlinks: the open of the destination follows symbolic links (R20.6), so two spellings through a symlinked directory (`minify -r -o link/sub/ dir/` with link → dir) or a destination that is a link to another task's input name the same file too")
	fd := c.fn(rule, x.pk, "createTasks")
	if fd == nil {
		return
	}
	sites := c.crossCheckSites(x, fd)
	if len(sites) < 2 {
		c.R.Unres(rule, "main.createTasks/cross-check keys", c.pos(fd), fmt.Sprintf("%d map index expressions on destinations and sources found in loops over the tasks, at least 2 expected (one store, one look-up)", len(sites)))
		return
	}
	n := map[string]int{}
	for _, s := range sites {
		kind := "source"
		if s.isDst {
			kind = "destination"
		}
		op := "looked up"
		if s.store {
			op = "stored"
		}
		k := kind + " " + op
		n[k]++
		c.R.Check(c.canonicalPath(x, fd, s.idx.Index), rule, fmt.Sprintf("main.createTasks/%s in canonical form#%d", k, n[k]), c.pos(s.idx), "the key is the result of the canonicalising function", "the key `"+str(s.idx.Index)+"` is a path as it was spelled on the command line: an absolute output and a relative input (or `./x` and `x`) name the same file and do not compare equal, so the overwrite of another task's input goes unnoticed")
	}
}

// R19.19: no two tasks write one destination.
func (c *Ctx) r1919(x *cliCtx) {
	const rule = "R19.19"
	c.R.Rule(rule, "without --bundle every task writes its own file; two inputs of the same name from different directories sent to one output directory — `minify -o out/ a/x.js b/x.js` — give two tasks with the destination out/x.js, the workers write it concurrently and the output of one input is lost without any message. In cmd/minify.createTasks a loop over the tasks stores every destination in a map and looks every destination up in that same map, and the success return is not reachable, with the bundle flag off and an output other than stdout, without passing that loop")
	fd := c.fn(rule, x.pk, "createTasks")
	if fd == nil {
		return
	}
	sites := c.crossCheckSites(x, fd)
	stored, looked := map[string]bool{}, map[string]bool{}
	var loop ast.Node
	for _, s := range sites {
		if !s.isDst {
			continue
		}
		if s.store {
			stored[str(s.idx.X)] = true
		} else {
			looked[str(s.idx.X)] = true
		}
	}
	var both []string
	for m := range stored {
		if looked[m] {
			both = append(both, m)
		}
	}
	sort.Strings(both)
	if len(both) > 0 {
		for _, s := range sites {
			if s.isDst && s.store && str(s.idx.X) == both[0] {
				for p := c.P.Parent(s.idx); p != nil; p = c.P.Parent(p) {
					if rs, ok := p.(*ast.RangeStmt); ok && strings.Contains(nospace(str(rs.X)), "tasks") {
						loop = rs
						break
					}
				}
			}
		}
	}
	c.R.Check(loop != nil, rule, "main.createTasks/destinations are pairwise distinct", c.pos(fd), "a map keyed by destination is filled and consulted in a loop over the tasks", "no collection is both filled with and searched for the destinations of the tasks: two inputs with one destination (`minify -o out/ a/x.js b/x.js`) are written onto each other by concurrent workers and one output is lost")
	if loop == nil {
		return
	}
	g := c.graph(x.pk, fd)
	for i, r := range c.successReturns(g) {
		r := r
		p := g.Path(flow.Search{From: []*flow.Node{g.Entry}, Goal: func(q *flow.Node) bool { return q == r }, Assume: noBundleToFiles,
			Avoid: func(q *flow.Node) bool { return q.Kind == flow.KRange && q.Stmt == loop }})
		c.R.Check(p == nil, rule, fmt.Sprintf("main.createTasks/distinctness loop precedes the return#%d", i+1), c.pos(r.Ast()), "with the bundle flag off every path to the successful return passes the loop", "the tasks can be returned, without --bundle, on a path that skips the comparison of destinations")
	}
}

// noBundleToFiles: the cross-checks of createTasks matter when several tasks write files: the bundle flag is off (a
// bundle is one task) and the output is not stdout (the empty output string: nothing is written to the file system).
var noBundleToFiles = map[string]bool{"bundle": false, `output == ""`: false, `"" == output`: false}

func (c *Ctx) successReturns(g *flow.Graph) []*flow.Node {
	var rets []*flow.Node
	for _, y := range g.Nodes {
		if rs := retStmt(y); rs != nil && len(rs.Results) > 0 && isNilExpr(rs.Results[len(rs.Results)-1]) && c.enclosingLit(rs) == nil {
			rets = append(rets, y)
		}
	}
	return rets
}

// R19.20: the cross-checks of createTasks do not refuse a bundle onto one of its inputs.
func (c *Ctx) r1920(x *cliCtx) {
	const rule = "R19.20"
	c.R.Rule(rule, "with --bundle createTasks still makes one task per input, all with the same destination, and run() merges them afterwards; `minify -b -o a.css a.css b.css` is a supported in-place bundle (minify() renames a.css to a backup first). A cross-check between tasks that fires in bundle mode refuses that invocation. Every error return of createTasks that follows a look-up of a destination among sources or destinations is dominated by the false outcome of the bundle flag")
	fd := c.fn(rule, x.pk, "createTasks")
	if fd == nil {
		return
	}
	g := c.graph(x.pk, fd)
	sites := c.crossCheckSites(x, fd)
	n := 0
	for _, s := range sites {
		if !s.isDst || s.store {
			continue
		}
		// the look-up sits in the condition (or init) of an if whose body returns an error
		var ifs *ast.IfStmt
		for p := c.P.Parent(s.idx); p != nil; p = c.P.Parent(p) {
			if i, ok := p.(*ast.IfStmt); ok {
				ifs = i
				break
			}
			if _, ok := p.(*ast.RangeStmt); ok {
				break
			}
		}
		if ifs == nil {
			continue
		}
		for _, st := range ifs.Body.List {
			rs, ok := st.(*ast.ReturnStmt)
			if !ok || len(rs.Results) == 0 || isNilExpr(rs.Results[len(rs.Results)-1]) {
				continue
			}
			n++
			rn := g.NodeOf(rs)
			ok2 := false
			if rn != nil {
				for _, f := range g.DomFacts(rn) {
					if f.Test.Kind != flow.KCond {
						continue
					}
					if k, neg, okk := flow.CondKey(f.Test.Expr, x.info, false); okk && k == "bundle" && (f.Value == neg) {
						ok2 = true
					}
				}
			}
			c.R.Check(ok2, rule, fmt.Sprintf("main.createTasks/cross-check error only without --bundle#%d", n), c.pos(rs), "the error return is dominated by `!bundle`", "a destination that is also a source (or a second task's destination) is refused in bundle mode too, where all tasks share the destination by construction: `minify -b -o a.css a.css b.css` fails with an error although the in-place bundle is supported")
		}
	}
	if n == 0 {
		c.R.Unres(rule, "main.createTasks/cross-check error returns", c.pos(fd), "no error return behind a destination look-up found")
	}
}

// R19.21: after the backup was made, no successful exit skips the cleanup.
func (c *Ctx) r1921(x *cliCtx) {
	const rule = "R19.21"
	c.R.Rule(rule, "a file minified onto itself is first renamed to <dst>.bak; the loop at the end of cmd/minify.minify removes that backup (or moves it back when writing failed). An exit that reports success without reaching that loop leaves the backup behind — and the next in-place run refuses to work because the backup name is taken. From the rename of the destination to its backup name, every path to a `return true` / `return success` of minify passes the head of a loop whose body tests the backup witness (`i == backup`, or the backup's name) and removes or renames a file. A return of the copy branch (`t.sync` true; such a task has one source) is also in order when, with t.sync true, the rename cannot be reached from the entry without the false outcome of SameFile(t.srcs[0], t.dst): then no backup exists. `minify -s -r -o $PWD/src/ src/` left src/n.txt.bak behind")
	g, info := x.g, x.info
	renameN := x.backupRenameNode()
	if renameN == nil {
		c.R.Unres(rule, "main.minify/backup rename", c.pos(x.fd), "no rename of the destination to a backup found")
		return
	}
	// cleanup loops: range/for loops whose body has an os.Remove / os.Rename under a backup guard
	cleanup := map[ast.Stmt]bool{}
	for _, y := range g.Nodes {
		a := y.Ast()
		if a == nil || y.Kind != flow.KStmt {
			continue
		}
		for _, call := range findCalls(info, a, false, "os.Remove", "os.Rename") {
			if len(call.Args) == 0 || y == renameN {
				continue
			}
			guarded := false
			for _, f := range g.DomFacts(y) {
				if f.Value && f.Test.Kind == flow.KCond && x.isBackupGuard(f.Test.Expr, call.Args[0]) {
					guarded = true
				}
			}
			if !guarded {
				continue
			}
			for p := c.P.Parent(call); p != nil; p = c.P.Parent(p) {
				switch l := p.(type) {
				case *ast.RangeStmt:
					cleanup[l] = true
				case *ast.ForStmt:
					cleanup[l] = true
				}
				if _, isLit := p.(*ast.FuncLit); isLit {
					break
				}
			}
		}
	}
	if len(cleanup) == 0 {
		c.R.Unres(rule, "main.minify/cleanup loop", c.pos(x.fd), "no loop that removes or restores the backup under a backup guard found")
		return
	}
	n := 0
	for _, y := range g.Nodes {
		rs := retStmt(y)
		if rs == nil || len(rs.Results) != 1 || c.enclosingLit(rs) != nil {
			continue
		}
		r := nospace(str(rs.Results[0]))
		if r == "false" {
			continue
		}
		y := y
		if g.Path(flow.Search{From: []*flow.Node{renameN}, Goal: func(q *flow.Node) bool { return q == y }}) == nil {
			continue // not reachable after the rename
		}
		n++
		p := g.Path(flow.Search{From: []*flow.Node{renameN}, Goal: func(q *flow.Node) bool { return q == y }, Avoid: func(q *flow.Node) bool {
			return (q.Kind == flow.KRange || q.Kind == flow.KCond) && q.Stmt != nil && cleanup[q.Stmt]
		}})
		how := "every path from the backup rename passes the cleanup loop"
		if p != nil {
			// a return of the sync (copy) branch: no backup exists there if a sync task whose source is the destination
			// itself left the function before the rename (a sync task has exactly one source, NewTask)
			inSync := false
			for _, f := range g.DomFacts(y) {
				if f.Value && f.Test.Kind == flow.KCond && nospace(str(f.Test.Expr)) == "t.sync" {
					inSync = true
				}
			}
			if inSync {
				sameVars := map[types.Object]bool{}
				for _, z := range g.Nodes {
					as, ok := z.Stmt.(*ast.AssignStmt)
					if !ok || len(as.Rhs) != 1 || len(as.Lhs) < 1 {
						continue
					}
					if call := isCall(info, ast.Unparen(as.Rhs[0]), load.Mod+"/cmd/minify.SameFile"); call != nil && len(call.Args) == 2 &&
						nospace(str(call.Args[0])) == "t.srcs[0]" && nospace(str(call.Args[1])) == "t.dst" {
						if id, ok := as.Lhs[0].(*ast.Ident); ok {
							sameVars[info.ObjectOf(id)] = true
						}
					}
				}
				notSame := func(q *flow.Node) bool {
					if q.Kind != flow.KFalse || q.Of == nil || q.Of.Kind != flow.KCond {
						return false
					}
					id, ok := ast.Unparen(q.Of.Expr).(*ast.Ident)
					return ok && sameVars[info.Uses[id]]
				}
				viaNotSame := g.Path(flow.Search{From: []*flow.Node{g.Entry}, IncludeFrom: true, Goal: func(q *flow.Node) bool { return q == renameN }, Avoid: notSame,
					TrackFields: true, Track: true, Assume: map[string]bool{"t.sync": true}})
				if len(sameVars) > 0 && viaNotSame == nil {
					p = nil
					how = "a sync task reaches the rename only after SameFile(t.srcs[0], t.dst) was false: no backup is made for it"
				}
			}
		}
		c.R.Check(p == nil, rule, fmt.Sprintf("main.minify/return %s#%d after the cleanup of the backup", r, n), c.pos(rs), how, "after the original was renamed to its backup this exit reports success without passing the loop that removes the backup: "+pathStr(c, g, p)+" — `minify -o empty.css empty.css` leaves empty.css.bak behind and the next in-place run fails")
	}
	c.R.Floor(rule, "successful returns reachable after the backup rename", n, 2)
}

// R19.22: selection and type inference derive the extension in the same way.
func (c *Ctx) r1922(x *cliCtx) {
	const rule = "R19.22"
	c.R.Rule(rule, "a file is selected by looking its extension up in extMap (fileMatches for directory walks, createTasks for named files) and later minified under the type found by the same look-up in minify(). The sites must derive the key in the same way — the same functions applied to the file name (filepath.Ext, and whatever case mapping or trimming is wanted, at every site) — otherwise a file is selected that minify() then cannot type (`LOGO.SVG` with a case-folding selection: not minified, not copied by --sync, exit status 1), or the reverse. For every look-up extMap[k] in package main whose key k is a local defined from filepath.Ext, the set of functions called in the definitions of k is collected; all sites have the same set")
	pk, info := x.pk, x.info
	type site struct {
		fn  string
		pos ast.Node
		set string
	}
	var sites []site
	for _, fd := range load.FuncDecls(pk) {
		if fd.Body == nil {
			continue
		}
		ast.Inspect(fd.Body, func(z ast.Node) bool {
			ie, ok := z.(*ast.IndexExpr)
			if !ok || nospace(str(ie.X)) != "extMap" {
				return true
			}
			id, ok := ast.Unparen(ie.Index).(*ast.Ident)
			if !ok {
				return true
			}
			obj := info.Uses[id]
			if obj == nil {
				return true
			}
			calls := map[string]bool{}
			ast.Inspect(fd.Body, func(w ast.Node) bool {
				as, ok := w.(*ast.AssignStmt)
				if !ok {
					return true
				}
				for k, l := range as.Lhs {
					lid, ok := l.(*ast.Ident)
					if !ok || info.ObjectOf(lid) != obj || k >= len(as.Rhs) {
						continue
					}
					ast.Inspect(as.Rhs[k], func(v ast.Node) bool {
						if ce, ok := v.(*ast.CallExpr); ok {
							if cn := calleeName(info, ce); cn != "" && cn != "len" {
								calls[cn] = true
							}
						}
						return true
					})
				}
				return true
			})
			if !calls["path/filepath.Ext"] {
				return true
			}
			sites = append(sites, site{load.FuncName(fd), ie, joinSorted(calls)})
			return true
		})
	}
	if len(sites) < 3 {
		c.R.Unres(rule, "main/extension look-ups", "-", fmt.Sprintf("%d look-ups of a file extension in extMap found, 3 were confirmed by hand (fileMatches, createTasks, minify)", len(sites)))
		return
	}
	// the reference is the derivation of minify(), which decides what the library is called with
	ref := ""
	for _, s := range sites {
		if s.fn == "minify" {
			ref = s.set
		}
	}
	if ref == "" {
		ref = sites[0].set
	}
	seen := map[string]int{}
	for _, s := range sites {
		seen[s.fn]++
		c.R.Check(s.set == ref, rule, fmt.Sprintf("main.%s/extension key derived as in minify()#%d", s.fn, seen[s.fn]), c.pos(s.pos), "key derived by "+s.set, "the extension is derived by {"+s.set+"} here but by {"+ref+"} where the media type is inferred: the two look-ups disagree for some file names (`LOGO.SVG`), so a file is selected but cannot be typed — it is neither minified nor copied and the run fails — or is typed but never selected")
	}
}

// R19.23: the escape test of NewTask rejects exactly the relative paths that leave the root.
func (c *Ctx) r1923(x *cliCtx) {
	const rule = "R19.23"
	c.R.Rule(rule, "the tests that R19.17 requires between filepath.Rel and the join onto the output directory are evaluated, in the checker, for sample relative paths (filepath.Rel returns a cleaned path, so these are all the shapes): with every test of the relative path fixed to its value for the sample, the join is reachable for `a`, `a/b`, `.`, `..a`, `...`, `..a/b` and `.a` — names that merely begin with dots lie inside the root — and unreachable for `..` and `../a`. `strings.HasPrefix(rel, \"..\")` refuses `minify -o out/ ..notes.css` (and, in a recursive run, every file whose name starts with two dots is skipped with an error)")
	pk, info := x.pk, x.info
	fd := c.fn(rule, pk, "NewTask")
	if fd == nil {
		return
	}
	g := c.graph(pk, fd)
	var relN, joinN *flow.Node
	var relObj types.Object
	for _, y := range g.Nodes {
		a := y.Ast()
		if a == nil || y.Kind != flow.KStmt {
			continue
		}
		if calls := findCalls(info, a, false, "path/filepath.Rel"); len(calls) > 0 {
			if as, ok := y.Stmt.(*ast.AssignStmt); ok && len(as.Lhs) >= 1 {
				if id, ok := as.Lhs[0].(*ast.Ident); ok {
					relN = y
					relObj = info.Defs[id]
					if relObj == nil {
						relObj = info.Uses[id]
					}
				}
			}
		}
		for _, call := range findCalls(info, a, false, "path/filepath.Join") {
			if len(call.Args) == 2 && relObj != nil {
				if id, ok := call.Args[1].(*ast.Ident); ok && info.Uses[id] == relObj {
					joinN = y
				}
			}
		}
	}
	if relN == nil || joinN == nil || relObj == nil {
		c.R.Unres(rule, "main.NewTask/mirror path", c.pos(fd), "filepath.Rel / filepath.Join pair not found (see R19.16)")
		return
	}
	mentions := func(e ast.Expr) bool {
		hit := false
		ast.Inspect(e, func(z ast.Node) bool {
			if id, ok := z.(*ast.Ident); ok && info.Uses[id] == relObj {
				hit = true
			}
			return true
		})
		return hit
	}
	// a tiny evaluator for string predicates over the relative path
	hostSep := true
	var evalE func(e ast.Expr, rel string) (interface{}, bool)
	evalE = func(e ast.Expr, rel string) (interface{}, bool) {
		e = ast.Unparen(e)
		if tv, ok := info.Types[e]; ok && tv.Value != nil {
			switch tv.Value.Kind() {
			case constant.String:
				return constant.StringVal(tv.Value), true
			case constant.Bool:
				return constant.BoolVal(tv.Value), true
			case constant.Int:
				if v, ok := constant.Int64Val(tv.Value); ok {
					return v, true
				}
			}
		}
		switch v := e.(type) {
		case *ast.Ident:
			if info.Uses[v] == relObj {
				return rel, true
			}
		case *ast.UnaryExpr:
			if v.Op == token.NOT {
				if b, ok := evalE(v.X, rel); ok {
					if bb, isB := b.(bool); isB {
						return !bb, true
					}
				}
			}
		case *ast.BinaryExpr:
			l, ok1 := evalE(v.X, rel)
			r, ok2 := evalE(v.Y, rel)
			if !ok1 || !ok2 {
				return nil, false
			}
			ls, lIsS := l.(string)
			rs, rIsS := r.(string)
			li, lIsI := l.(int64)
			ri, rIsI := r.(int64)
			switch {
			case lIsS && rIsS:
				switch v.Op {
				case token.ADD:
					return ls + rs, true
				case token.EQL:
					return ls == rs, true
				case token.NEQ:
					return ls != rs, true
				}
			case lIsI && rIsI:
				switch v.Op {
				case token.EQL:
					return li == ri, true
				case token.NEQ:
					return li != ri, true
				case token.LSS:
					return li < ri, true
				case token.LEQ:
					return li <= ri, true
				case token.GTR:
					return li > ri, true
				case token.GEQ:
					return li >= ri, true
				case token.ADD:
					return li + ri, true
				case token.SUB:
					return li - ri, true
				}
			}
		case *ast.IndexExpr:
			s, ok1 := evalE(v.X, rel)
			i, ok2 := evalE(v.Index, rel)
			if ss, isS := s.(string); ok1 && ok2 && isS {
				if ii, isI := i.(int64); isI && 0 <= ii && int(ii) < len(ss) {
					return int64(ss[ii]), true
				}
			}
		case *ast.SliceExpr:
			s, ok1 := evalE(v.X, rel)
			ss, isS := s.(string)
			if !ok1 || !isS || v.Slice3 {
				return nil, false
			}
			lo, hi := int64(0), int64(len(ss))
			if v.Low != nil {
				a, ok := evalE(v.Low, rel)
				ai, isI := a.(int64)
				if !ok || !isI {
					return nil, false
				}
				lo = ai
			}
			if v.High != nil {
				a, ok := evalE(v.High, rel)
				ai, isI := a.(int64)
				if !ok || !isI {
					return nil, false
				}
				hi = ai
			}
			if 0 <= lo && lo <= hi && int(hi) <= len(ss) {
				return ss[lo:hi], true
			}
		case *ast.CallExpr:
			if tv, ok := info.Types[v.Fun]; ok && tv.IsType() && len(v.Args) == 1 {
				// string(os.PathSeparator)
				if atv, ok := info.Types[v.Args[0]]; ok && atv.Value != nil && atv.Value.Kind() == constant.Int {
					if r, ok := constant.Int64Val(atv.Value); ok && types.Identical(tv.Type.Underlying(), types.Typ[types.String]) {
						return string(rune(r)), true
					}
				}
				return evalE(v.Args[0], rel)
			}
			if id, ok := v.Fun.(*ast.Ident); ok && info.Uses[id] == types.Universe.Lookup("len") && len(v.Args) == 1 {
				if s, ok := evalE(v.Args[0], rel); ok {
					if ss, isS := s.(string); isS {
						return int64(len(ss)), true
					}
				}
				return nil, false
			}
			name := calleeName(info, v)
			var args []string
			for _, a := range v.Args {
				s, ok := evalE(a, rel)
				ss, isS := s.(string)
				if !ok || !isS {
					return nil, false
				}
				args = append(args, ss)
			}
			switch {
			case name == "strings.HasPrefix" && len(args) == 2:
				return strings.HasPrefix(args[0], args[1]), true
			case name == "strings.HasSuffix" && len(args) == 2:
				return strings.HasSuffix(args[0], args[1]), true
			case name == "strings.Contains" && len(args) == 2:
				return strings.Contains(args[0], args[1]), true
			case name == "path/filepath.IsLocal" && len(args) == 1 && hostSep:
				return filepath.IsLocal(args[0]), true
			case name == "path/filepath.IsAbs" && len(args) == 1 && hostSep:
				return filepath.IsAbs(args[0]), true
			}
		}
		return nil, false
	}
	var atoms []*flow.Node
	for _, q := range g.Nodes {
		if q.Kind == flow.KCond && mentions(q.Expr) && g.Reachable(q) {
			atoms = append(atoms, q)
		}
	}
	c.R.Floor(rule, "tests of the relative path in NewTask", len(atoms), 1)
	// the separator of the platform the program is loaded for (the thorough tier also loads GOOS=windows)
	sep := "/"
	for _, imp := range pk.Types.Imports() {
		if imp.Path() == "os" {
			if k, ok := imp.Scope().Lookup("PathSeparator").(*types.Const); ok {
				if r, ok := constant.Int64Val(k.Val()); ok {
					sep = string(rune(r))
				}
			}
		}
	}
	hostSep = sep == string(filepath.Separator)
	samples := []struct {
		rel    string
		inside bool
	}{{"a", true}, {"a/b", true}, {".", true}, {".a", true}, {"..a", true}, {"...", true}, {"..a/b", true}, {"..", false}, {"../a", false}, {"../..", false}}
	for _, s := range samples {
		s.rel = strings.ReplaceAll(s.rel, "/", sep)
		construct := fmt.Sprintf("main.NewTask/escape test on the relative path %q", s.rel)
		vals := map[*flow.Node]bool{}
		undecided := ""
		for _, q := range atoms {
			v, ok := evalE(q.Expr, s.rel)
			b, isB := v.(bool)
			if !ok || !isB {
				undecided = str(q.Expr)
				break
			}
			vals[q] = b
		}
		if undecided != "" {
			c.R.Unres(rule, construct, c.pos(joinN.Ast()), "the test `"+undecided+"` is outside what the checker evaluates (string comparisons, concatenation, strings.HasPrefix/HasSuffix/Contains, filepath.IsLocal)")
			continue
		}
		p := g.Path(flow.Search{From: []*flow.Node{relN}, Goal: func(q *flow.Node) bool { return q == joinN }, Avoid: func(q *flow.Node) bool {
			if (q.Kind == flow.KTrue || q.Kind == flow.KFalse) && q.Of != nil {
				if v, ok := vals[q.Of]; ok {
					return v != (q.Kind == flow.KTrue)
				}
			}
			return false
		}})
		if s.inside {
			c.R.Check(p != nil, rule, construct, c.pos(joinN.Ast()), "accepted: the join is reached", "a file whose path relative to the root is "+s.rel+" lies inside the root, but no path reaches the join onto the output directory with the tests evaluated for it: the file is refused (or skipped with an error in a recursive run)")
		} else {
			c.R.Check(p == nil, rule, construct, c.pos(joinN.Ast()), "refused: the join is not reached", "the relative path "+s.rel+" leaves the root and is still joined onto the output directory: "+pathStr(c, g, p))
		}
	}
}

// R19.24: a task that is to be minified has a media type.
func (c *Ctx) r1924(x *cliCtx) {
	const rule = "R19.24"
	c.R.Rule(rule, "minify() gives up on a task whose media type it cannot infer (no --type, extension not in extMap) unless the task is marked for copying. For a file named on the command line createTasks decides that mark itself: every path from the test that the input is a regular file to the NewTask call passes either the successful look-up of the extension in extMap, a test that a media type was given, the assignment that marks the file for copying (`valid = false`), or the outcome `valid == false`. With --sync the look-up used to be skipped and the mark left off: `minify --sync -o out/ src/notes.txt` copied nothing and failed silently, while the same file found in a directory walk is copied")
	pk, info := x.pk, x.info
	fd := c.fn(rule, pk, "createTasks")
	if fd == nil {
		return
	}
	g := c.graph(pk, fd)
	n := 0
	for _, y := range g.Nodes {
		a := y.Ast()
		if a == nil || y.Kind != flow.KStmt || c.enclosingLit(a) != nil {
			continue
		}
		for _, call := range findCalls(info, a, false, load.Mod+"/cmd/minify.NewTask") {
			if len(call.Args) != 4 {
				continue
			}
			// the copy mark is the negation of a local flag
			u, ok := ast.Unparen(call.Args[3]).(*ast.UnaryExpr)
			if !ok || u.Op != token.NOT {
				continue
			}
			fid, ok := ast.Unparen(u.X).(*ast.Ident)
			if !ok {
				continue
			}
			flag := info.Uses[fid]
			// only the branch for a file named on the command line: dominated by IsRegular()
			var head *flow.Node
			for _, f := range g.DomFacts(y) {
				if f.Value && f.Test.Kind == flow.KCond && strings.HasSuffix(nospace(str(f.Test.Expr)), ".IsRegular()") {
					for _, q := range g.Nodes {
						if q.Kind == flow.KTrue && q.Of == f.Test {
							head = q
						}
					}
				}
			}
			if head == nil {
				continue
			}
			n++
			ok2 := func(q *flow.Node) bool {
				if as, isAs := q.Stmt.(*ast.AssignStmt); isAs && q.Kind == flow.KStmt && len(as.Lhs) == 1 && len(as.Rhs) == 1 {
					if id, isId := as.Lhs[0].(*ast.Ident); isId && info.Uses[id] == flag && nospace(str(as.Rhs[0])) == "false" {
						return true
					}
				}
				if (q.Kind != flow.KTrue && q.Kind != flow.KFalse) || q.Of == nil || q.Of.Kind != flow.KCond {
					return false
				}
				e := ast.Unparen(q.Of.Expr)
				if id, isId := e.(*ast.Ident); isId {
					if info.Uses[id] == flag && q.Kind == flow.KFalse {
						return true
					}
					// ok of `_, ok := extMap[ext]`
					if d := c.singleDef(pk, id); d != nil && q.Kind == flow.KTrue && strings.Contains(nospace(str(d)), "extMap[") {
						return true
					}
				}
				if be, isBe := e.(*ast.BinaryExpr); isBe && strings.Contains(nospace(str(be)), "mimetype") {
					s := nospace(str(be))
					if (s == `mimetype==""` || s == `""==mimetype`) && q.Kind == flow.KFalse || (s == `mimetype!=""` || s == `""!=mimetype`) && q.Kind == flow.KTrue {
						return true
					}
				}
				return false
			}
			y := y
			p := g.Path(flow.Search{From: []*flow.Node{head}, Goal: func(q *flow.Node) bool { return q == y }, Avoid: ok2})
			c.R.Check(p == nil, rule, fmt.Sprintf("main.createTasks/file named on the command line#%d has a media type or is copied", n), c.pos(call), "extension looked up, --type given, or marked for copying",
				"a task is created for a file named on the command line without its extension having been looked up and without the copy mark: with --sync a file with an unknown extension is neither minified nor copied: "+pathStr(c, g, p))
		}
	}
	c.R.Floor(rule, "tasks created for files named on the command line", n, 1)
}

// R20.12: the backup file of an in-place task is not a file of another task.
func (c *Ctx) r2012(x *cliCtx) {
	const rule = "R20.12"
	c.R.Rule(rule, "a task that overwrites its own input renames the input to `<dst>.bak` first and removes that file afterwards (main.minify). createTasks refuses plans in which one task's output is another task's input or output — but the backup name is a file of the task as well: with `a.css` and `a.css.bak` both planned in place (`minify --type css -r -o d/ d/`), the worker for `a.css.bak` renames it away between the other worker's existence test and its rename, and one of the originals is removed as a `backup` (about 4 % of runs). For every constant suffix S that main.minify appends to the destination to name the backup, createTasks looks `<dst> + S` (in the canonical form of its other keys) up in each map in which it records the tasks' inputs and outputs, and returns an error on a hit")
	info := x.info
	// suffixes in minify
	suffixes := map[string]bool{}
	backupExpr := func(e ast.Node, want string) bool {
		hit := false
		ast.Inspect(e, func(z ast.Node) bool {
			be, ok := z.(*ast.BinaryExpr)
			if !ok || be.Op != token.ADD || !strings.HasSuffix(nospace(str(be.X)), ".dst") {
				return true
			}
			if tv, ok := info.Types[be.Y]; ok && tv.Value != nil && tv.Value.Kind() == constant.String {
				s := constant.StringVal(tv.Value)
				if want == "" {
					suffixes[s] = true
				} else if s == want {
					hit = true
				}
			}
			return true
		})
		return hit
	}
	backupExpr(x.fd.Body, "")
	if len(suffixes) == 0 {
		c.R.Exists(rule, "main.minify/no derived backup name", c.pos(x.fd), "main.minify derives no file name from the destination")
		return
	}
	fd := c.fn(rule, x.pk, "createTasks")
	if fd == nil {
		return
	}
	// the maps in which the tasks' files are recorded
	maps := map[types.Object]string{}
	for _, s := range c.crossCheckSites(x, fd) {
		if !s.store {
			continue
		}
		if id, ok := ast.Unparen(s.idx.X).(*ast.Ident); ok {
			if o := info.Uses[id]; o != nil {
				maps[o] = id.Name
			}
		}
	}
	if len(maps) < 2 {
		c.R.Unres(rule, "main.createTasks/maps of inputs and outputs", c.pos(fd), fmt.Sprintf("%d maps found in which the tasks' files are stored, 2 expected", len(maps)))
		return
	}
	var derives func(e ast.Expr, want string, depth int) bool
	derives = func(e ast.Expr, want string, depth int) bool {
		if backupExpr(e, want) {
			return true
		}
		hit := false
		ast.Inspect(e, func(z ast.Node) bool {
			if id, ok := z.(*ast.Ident); ok && depth < 3 {
				if _, isVar := info.Uses[id].(*types.Var); isVar {
					if d := c.singleDef(x.pk, id); d != nil && derives(d, want, depth+1) {
						hit = true
					}
				}
			}
			return !hit
		})
		return hit
	}
	var sufs []string
	for s := range suffixes {
		sufs = append(sufs, s)
	}
	sort.Strings(sufs)
	for _, suf := range sufs {
		for mo, name := range maps {
			found, canonical := false, false
			ast.Inspect(fd.Body, func(z ast.Node) bool {
				ifs, ok := z.(*ast.IfStmt)
				if !ok || ifs.Init == nil {
					return true
				}
				as, ok := ifs.Init.(*ast.AssignStmt)
				if !ok || len(as.Lhs) != 2 || len(as.Rhs) != 1 {
					return true
				}
				ix, ok := ast.Unparen(as.Rhs[0]).(*ast.IndexExpr)
				if !ok {
					return true
				}
				id, ok := ast.Unparen(ix.X).(*ast.Ident)
				if !ok || info.Uses[id] != mo || !derives(ix.Index, suf, 0) {
					return true
				}
				// a hit is an error
				refuses := false
				ast.Inspect(ifs.Body, func(q ast.Node) bool {
					if rs, ok := q.(*ast.ReturnStmt); ok && len(rs.Results) > 0 {
						last := ast.Unparen(rs.Results[len(rs.Results)-1])
						if lid, isId := last.(*ast.Ident); !isId || lid.Name != "nil" {
							refuses = true
						}
					}
					return true
				})
				if refuses {
					found = true
					key := ix.Index
					if kid, ok := ast.Unparen(key).(*ast.Ident); ok {
						if d := c.singleDef(x.pk, kid); d != nil {
							key = d
						}
					}
					if c.canonicalPath(x, fd, key) {
						canonical = true
					}
				}
				return true
			})
			c.R.Check(found && canonical, rule, fmt.Sprintf("main.createTasks/backup name <dst>%s looked up among the recorded %s", suf, name), c.pos(fd), "looked up in canonical form, a hit is refused",
				fmt.Sprintf("the file `<dst>%s`, to which main.minify renames an input that is overwritten and which it removes afterwards, is not compared with the files recorded in %s (found: %v, canonical key: %v): two tasks of one run can use the same file, one as its backup and one as its input or output, and a file is lost", suf, name, found, canonical))
		}
	}
}

// R19.25: the hidden-name test of the directory walk does not apply to the directory the user named.
func (c *Ctx) r1925(x *cliCtx) {
	const rule = "R19.25"
	c.R.Rule(rule, "files and directories whose name starts with a dot are skipped by the recursive walk unless --all is given; a *file* named on the command line is taken whatever its name. The walk function of createTasks is also called for the root it was started on: `minify -r -o out/ .config` visited `.config` itself, found its name hidden, skipped the whole tree and exited with status 0 and no output. In the function literal that walks a directory, every condition that tests the hidden flag together with a leading '.' also compares the walked path (the literal's first parameter) with a variable captured from createTasks")
	info := x.info
	fd := c.fn(rule, x.pk, "createTasks")
	if fd == nil {
		return
	}
	n := 0
	ast.Inspect(fd.Body, func(z ast.Node) bool {
		lit, ok := z.(*ast.FuncLit)
		if !ok || lit.Type.Params == nil || len(lit.Type.Params.List) == 0 || len(lit.Type.Params.List[0].Names) == 0 {
			return true
		}
		path := info.Defs[lit.Type.Params.List[0].Names[0]]
		ast.Inspect(lit.Body, func(q ast.Node) bool {
			ifs, ok := q.(*ast.IfStmt)
			if !ok {
				return true
			}
			chars, _, _ := c.constsIn(x.pk, ifs.Cond)
			usesHidden := false
			ast.Inspect(ifs.Cond, func(w ast.Node) bool {
				if id, ok := w.(*ast.Ident); ok && id.Name == "hidden" {
					if v, ok := info.Uses[id].(*types.Var); ok && v.Parent() == x.pk.Types.Scope() {
						usesHidden = true
					}
				}
				return true
			})
			if !chars['.'] || !usesHidden {
				return true
			}
			n++
			good := false
			ast.Inspect(ifs.Cond, func(w ast.Node) bool {
				be, ok := w.(*ast.BinaryExpr)
				if !ok || (be.Op != token.NEQ && be.Op != token.EQL) {
					return true
				}
				for _, pair := range [][2]ast.Expr{{be.X, be.Y}, {be.Y, be.X}} {
					a, ok1 := ast.Unparen(pair[0]).(*ast.Ident)
					b, ok2 := ast.Unparen(pair[1]).(*ast.Ident)
					if !ok1 || !ok2 || info.Uses[a] != path {
						continue
					}
					if v, ok := info.Uses[b].(*types.Var); ok && v.Pos() < lit.Pos() && v.Parent() != x.pk.Types.Scope() {
						good = true // captured from createTasks
					}
				}
				return true
			})
			c.R.Check(good, rule, fmt.Sprintf("main.createTasks/hidden-name test of the walk#%d spares the directory that was named", n), c.pos(ifs), "the walked path is compared with a captured variable",
				"the test for a hidden name is applied to every path the walk visits, the root included: `minify -r -o out/ .hid` writes nothing and exits with status 0")
			return true
		})
		return true
	})
	c.R.Floor(rule, "hidden-name tests in the walk", n, 1)
}

// R19.26: the result of a loop over a map does not depend on the order of the map.
func (c *Ctx) r1926(x *cliCtx) {
	const rule = "R19.26"
	c.R.Rule(rule, "Go iterates over a map in a different order on every run. A loop over a map that writes into a map M and also reads M sees, for some orders, its own earlier writes: `--ext '{inc:php,php:html}'` resolved `inc` through the `php` entry that the same loop had or had not replaced yet, and the same command line minified a file as PHP in one run and as HTML in the next. In package cmd/minify no loop over a map reads a map that its body assigns to")
	info := x.info
	n := 0
	for _, fd := range load.FuncDecls(x.pk) {
		if fd.Body == nil {
			continue
		}
		ast.Inspect(fd.Body, func(z ast.Node) bool {
			rs, ok := z.(*ast.RangeStmt)
			if !ok {
				return true
			}
			if t := info.TypeOf(rs.X); t == nil {
				return true
			} else if _, isMap := t.Underlying().(*types.Map); !isMap {
				return true
			}
			n++
			written := map[types.Object]bool{}
			lhs := map[ast.Node]bool{}
			ast.Inspect(rs.Body, func(q ast.Node) bool {
				if as, ok := q.(*ast.AssignStmt); ok {
					for _, l := range as.Lhs {
						if ix, ok := l.(*ast.IndexExpr); ok {
							if _, isMap := info.TypeOf(ix.X).Underlying().(*types.Map); isMap {
								if id, ok := ast.Unparen(ix.X).(*ast.Ident); ok {
									written[info.Uses[id]] = true
									lhs[ix] = true
								}
							}
						}
					}
				}
				return true
			})
			var bad []string
			ast.Inspect(rs.Body, func(q ast.Node) bool {
				if lhs[q] {
					return false
				}
				if ix, ok := q.(*ast.IndexExpr); ok {
					if id, ok := ast.Unparen(ix.X).(*ast.Ident); ok && written[info.Uses[id]] {
						bad = append(bad, str(ix)+" at "+c.pos(ix))
					}
				}
				return true
			})
			c.R.Check(len(bad) == 0, rule, fmt.Sprintf("main.%s/range over map %s does not read what it writes", load.FuncName(fd), str(rs.X)), c.pos(rs), "no map is both assigned to and read in the body",
				"the loop reads a map it assigns to ("+strings.Join(bad, ", ")+"): what it reads depends on which keys were visited before, and the order of a map differs from run to run")
			return true
		})
	}
	c.R.Floor(rule, "loops over maps in cmd/minify", n, 1)
}
