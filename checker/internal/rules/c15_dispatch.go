package rules

import (
	"fmt"
	"go/ast"
	"go/token"
	"go/types"
	"strings"

	"golang.org/x/tools/go/packages"

	"verif/checker/internal/flow"
	"verif/checker/internal/load"
)

const mT = load.Mod + ".M"

func init() {
	register(&Property{
		ID:    "C15",
		Level: "other",
		Explain: "MinifyMimetype and Match are abstracted, from their CFG, into a lookup plan (literal map lookup on the mimetype → that entry; else range over the pattern slice in ascending order, first regexp match → that entry; else the not-exist outcome) and the plan must be exactly the documented one, " +
			"identical for both functions (R15.1, R15.2); Minify splits the media type with parse.Mediatype and forwards both results (R15.3); the only writes to the literal map are map assignments in Add/AddFunc/AddCmd (replace) and the only writes to the pattern slice are appends in the *Regexp registrars, so pattern order is registration order (R15.4). " +
			"Not covered: semantics of Go maps, regexp and parse.Mediatype (trusted).",
		Run: runC15,
	})
	mutant(&Mutant{Name: "c15-pattern-before-literal", Property: "C15", File: "minify.go",
		Old:  "\tif minifier, ok := m.literal[string(mimetype)]; ok { // string conversion is optimized away\n\t\treturn minifier.Minify(m, w, r, params)\n\t}\n\tfor _, minifier := range m.pattern {\n\t\tif minifier.pattern.Match(mimetype) {\n\t\t\treturn minifier.Minify(m, w, r, params)\n\t\t}\n\t}\n",
		New:  "\tfor _, minifier := range m.pattern {\n\t\tif minifier.pattern.Match(mimetype) {\n\t\t\treturn minifier.Minify(m, w, r, params)\n\t\t}\n\t}\n\tif minifier, ok := m.literal[string(mimetype)]; ok { // string conversion is optimized away\n\t\treturn minifier.Minify(m, w, r, params)\n\t}\n",
		Rule: "R15.1", Construct: "M.MinifyMimetype/plan"})
	mutant(&Mutant{Name: "c15-match-drops-params", Property: "C15", File: "minify.go",
		Old: "\t\t\treturn minifier.pattern.String(), params, minifier.Minify\n", New: "\t\t\treturn minifier.pattern.String(), nil, minifier.Minify\n",
		Rule: "R15.2", Construct: "M.Match/plan"})
	mutant(&Mutant{Name: "c15-notexist-writes", Property: "C15", File: "minify.go",
		Old: "\t\t}\n\t}\n\treturn ErrNotExist\n}\n\n// Bytes minifies", New: "\t\t}\n\t}\n\tio.Copy(w, r)\n\treturn ErrNotExist\n}\n\n// Bytes minifies",
		Rule: "R15.1", Construct: "M.MinifyMimetype/writer untouched"})
	mutant(&Mutant{Name: "c15-minify-drops-params", Property: "C15", File: "minify.go",
		Old: "\treturn m.MinifyMimetype(mimetype, w, r, params)\n}", New: "\t_ = params\n\treturn m.MinifyMimetype(mimetype, w, r, nil)\n}",
		Rule: "R15.3", Construct: "M.Minify"})
	mutant(&Mutant{Name: "c15-regexp-prepend", Property: "C15", File: "minify.go",
		Old:  "func (m *M) AddRegexp(pattern *regexp.Regexp, minifier Minifier) {\n\tm.mutex.Lock()\n\tm.pattern = append(m.pattern, patternMinifier{pattern, minifier})",
		New:  "func (m *M) AddRegexp(pattern *regexp.Regexp, minifier Minifier) {\n\tm.mutex.Lock()\n\tm.pattern = append([]patternMinifier{{pattern, minifier}}, m.pattern...)",
		Rule: "R15.4", Construct: "M.AddRegexp/write M.pattern"})
	mutant(&Mutant{Name: "c15-add-keeps-first", Property: "C15", File: "minify.go",
		Old:  "func (m *M) Add(mimetype string, minifier Minifier) {\n\tm.mutex.Lock()\n\tm.literal[mimetype] = minifier\n",
		New:  "func (m *M) Add(mimetype string, minifier Minifier) {\n\tm.mutex.Lock()\n\tif _, ok := m.literal[mimetype]; !ok {\n\t\tm.literal[mimetype] = minifier\n\t}\n",
		Rule: "R15.4", Construct: "M.Add/write M.literal"})
}

func runC15(c *Ctx) {
	pk := c.pkg("R15", "")
	if pk == nil {
		return
	}
	c.r151(pk)
	c.r153(pk)
	c.r154(pk)
}

// planStep is one step of a dispatch plan.
type planStep struct {
	kind   string // literal | pattern | default
	key    string // what is looked up / matched (canonical)
	action string // canonical result
}

func (p planStep) String() string { return p.kind + "(" + p.key + ") -> " + p.action }

// dispatchPlan abstracts a function into its lookup plan. mimeVar is the name of the []byte mimetype
// variable; canon renders a return statement canonically given the entry variable.
func (c *Ctx) dispatchPlan(pk *packages.Package, fd *ast.FuncDecl, mimeVar string, canon func(r *ast.ReturnStmt, entry string) string) ([]planStep, []string) {
	info := pk.TypesInfo
	g := c.graph(pk, fd)
	var plan []planStep
	var problems []string
	// literal lookup: v, ok := m.literal[string(mime)] followed by cond ok
	var litNode, okCond *flow.Node
	var entryLit string
	for _, n := range g.Nodes {
		if n.Kind != flow.KStmt {
			continue
		}
		as, ok := n.Stmt.(*ast.AssignStmt)
		if !ok || len(as.Lhs) != 2 || len(as.Rhs) != 1 {
			continue
		}
		ix, ok := ast.Unparen(as.Rhs[0]).(*ast.IndexExpr)
		if !ok || !isField(info, ix.X, mT, "literal") {
			continue
		}
		if litNode != nil {
			problems = append(problems, "more than one lookup in M.literal")
		}
		litNode = n
		entryLit = str(as.Lhs[0])
		keyOK := str(ix.Index) == "string("+mimeVar+")"
		if !keyOK {
			problems = append(problems, "literal lookup key is "+str(ix.Index)+", not string("+mimeVar+")")
		}
		okName := str(as.Lhs[1])
		for _, y := range g.Nodes {
			if y.Kind == flow.KCond && str(y.Expr) == okName && g.Dominates(n, y) {
				okCond = y
			}
		}
	}
	if litNode == nil || okCond == nil {
		return nil, append(problems, "no comma-ok lookup in M.literal tested by a branch")
	}
	outcome := func(t *flow.Node, val bool) *flow.Node {
		for _, s := range t.Succs {
			if (s.Kind == flow.KTrue) == val && (s.Kind == flow.KTrue || s.Kind == flow.KFalse) {
				return s
			}
		}
		return nil
	}
	// returns reachable from ok-true without passing ok-false
	retsFrom := func(from *flow.Node, avoid func(*flow.Node) bool) []*ast.ReturnStmt {
		var out []*ast.ReturnStmt
		for _, n := range g.Nodes {
			if r := retStmt(n); r != nil {
				if from == n || g.Path(flow.Search{From: []*flow.Node{from}, Goal: func(y *flow.Node) bool { return y == n }, Avoid: avoid}) != nil {
					out = append(out, r)
				}
			}
		}
		return out
	}
	// nothing is decided before the literal lookup: no return is reachable from the entry without passing it (a cache of
	// earlier results consulted first shadows a literal that is registered later)
	for _, n := range g.Nodes {
		if r := retStmt(n); r != nil && g.Entry != nil {
			if p := g.Path(flow.Search{From: []*flow.Node{g.Entry}, Goal: func(y *flow.Node) bool { return y == n }, Avoid: func(y *flow.Node) bool { return y == litNode }}); p != nil {
				problems = append(problems, "a result is returned before M.literal is consulted ("+c.pos(r)+"): "+pathStr(c, g, p))
				break
			}
		}
	}
	var rangeN, matchCond *flow.Node
	var entryPat string
	for _, n := range g.Nodes {
		if n.Kind == flow.KRange && isField(info, n.Expr, mT, "pattern") {
			if rangeN != nil {
				problems = append(problems, "more than one loop over M.pattern")
			}
			rangeN = n
			rs := n.Stmt.(*ast.RangeStmt)
			if rs.Value != nil {
				entryPat = str(rs.Value)
			}
			if rs.Key != nil && str(rs.Key) != "_" {
				problems = append(problems, "loop over M.pattern uses its index")
			}
		}
	}
	// literal step
	for _, r := range retsFrom(outcome(okCond, true), func(y *flow.Node) bool { return y.Kind == flow.KRange }) {
		plan = append(plan, planStep{"literal", "string(" + mimeVar + ")", canon(r, entryLit)})
	}
	if rangeN == nil {
		return plan, append(problems, "no range over M.pattern")
	}
	if !g.Dominates(outcome(okCond, false), rangeN) {
		problems = append(problems, "the pattern loop is not confined to the case that the literal lookup failed (literal types must win over patterns)")
	}
	for _, y := range g.Nodes {
		if y.Kind == flow.KCond && g.Dominates(outcome(rangeN, true), y) {
			if call, ok := ast.Unparen(y.Expr).(*ast.CallExpr); ok && calleeName(info, call) == "regexp.(Regexp).Match" {
				matchCond = y
				recv := str(call.Fun.(*ast.SelectorExpr).X)
				if recv != entryPat+".pattern" {
					problems = append(problems, "the regexp tested is "+recv+", not the loop entry's pattern")
				}
				if str(call.Args[0]) != mimeVar {
					problems = append(problems, "the regexp is matched against "+str(call.Args[0])+", not the mimetype")
				}
			}
		}
	}
	if matchCond == nil {
		return plan, append(problems, "no (*regexp.Regexp).Match test inside the pattern loop")
	}
	// loop body has no break/continue that skips entries: from range-true every path to the next iteration passes the match cond
	if p := g.Path(flow.Search{From: []*flow.Node{outcome(rangeN, true)}, Goal: func(y *flow.Node) bool { return y.Kind == flow.KRange || y.Kind == flow.KExit }, Avoid: func(y *flow.Node) bool { return y == matchCond }}); p != nil {
		problems = append(problems, "an entry of M.pattern can be skipped without being tested")
	}
	// match-false continues with the next entry (no break)
	if p := g.Path(flow.Search{From: []*flow.Node{outcome(matchCond, false)}, Goal: func(y *flow.Node) bool { return y.Kind == flow.KExit || y.Kind == flow.KFalse && y.Of == rangeN }, Avoid: func(y *flow.Node) bool { return y == rangeN }}); p != nil {
		problems = append(problems, "a non-matching pattern ends the search instead of continuing with the next pattern")
	}
	for _, r := range retsFrom(outcome(matchCond, true), func(y *flow.Node) bool { return y.Kind == flow.KRange }) {
		plan = append(plan, planStep{"pattern", entryPat + ".pattern.Match(" + mimeVar + ")", canon(r, entryPat)})
	}
	for _, r := range retsFrom(outcome(rangeN, false), nil) {
		plan = append(plan, planStep{"default", "", canon(r, "")})
	}
	return plan, problems
}

func (c *Ctx) r151(pk *packages.Package) {
	const rule, rule2 = "R15.1", "R15.2"
	c.R.Rule(rule, "M.MinifyMimetype's lookup plan is exactly: Lookup(M.literal, string(mimetype)) → return entry.Minify(m, w, r, params); else Range(M.pattern) ascending, first entry.pattern.Match(mimetype) → return entry.Minify(m, w, r, params); else return ErrNotExist; the writer parameter is used nowhere else (nothing is written when nothing matches)")
	c.R.Rule(rule2, "M.Match's plan equals MinifyMimetype's with `return <name>, params, entry.Minify` (method value of the same entry, the params produced by the same parse.Mediatype split that M.Minify performs) in place of the call, and a nil function in the default step")
	info := pk.TypesInfo
	fdM := c.fn(rule, pk, "M.MinifyMimetype")
	fdMatch := c.fn(rule2, pk, "M.Match")
	if fdM == nil || fdMatch == nil {
		return
	}
	params := fdM.Type.Params.List
	names := []string{}
	for _, f := range params {
		for _, n := range f.Names {
			names = append(names, n.Name)
		}
	}
	if len(names) != 4 {
		c.R.Unres(rule, "minify.M.MinifyMimetype/signature", c.pos(fdM), "unexpected parameter list")
		return
	}
	mime, w, r, ps := names[0], names[1], names[2], names[3]
	recv := fdM.Recv.List[0].Names[0].Name
	canonCall := func(ret *ast.ReturnStmt, entry string) string {
		if len(ret.Results) != 1 {
			return "?"
		}
		if usesObj(info, ret.Results[0], load.Mod+".ErrNotExist") {
			return "ErrNotExist"
		}
		call, ok := ast.Unparen(ret.Results[0]).(*ast.CallExpr)
		if !ok {
			return "other:" + str(ret.Results[0])
		}
		sel, ok := call.Fun.(*ast.SelectorExpr)
		if ok && str(sel.X) == entry && sel.Sel.Name == "Minify" && len(call.Args) == 4 &&
			str(call.Args[0]) == recv && str(call.Args[1]) == w && str(call.Args[2]) == r && str(call.Args[3]) == ps {
			return "entry.Minify(m, w, r, params)"
		}
		return "other:" + str(ret.Results[0])
	}
	plan, problems := c.dispatchPlan(pk, fdM, mime, canonCall)
	want := []string{"literal(string(" + mime + ")) -> entry.Minify(m, w, r, params)", "pattern(minifier.pattern.Match(" + mime + ")) -> entry.Minify(m, w, r, params)", "default() -> ErrNotExist"}
	got := planStrings(plan)
	if len(plan) == 3 {
		// the loop variable name is free
		got[1] = strings.Replace(got[1], plan[1].key, "minifier.pattern.Match("+mime+")", 1)
	}
	okPlan := len(problems) == 0 && equalStrings(got, want)
	c.R.Check(okPlan, rule, "minify.M.MinifyMimetype/plan", c.pos(fdM), strings.Join(got, "; "),
		fmt.Sprintf("lookup plan is [%s] %s; documented plan is [%s]", strings.Join(got, "; "), strings.Join(problems, "; "), strings.Join(want, "; ")))
	// writer untouched
	wObj := paramOfType(info, fdM, "io.Writer")
	uses := 0
	badUse := ""
	ast.Inspect(fdM.Body, func(x ast.Node) bool {
		id, ok := x.(*ast.Ident)
		if !ok || info.Uses[id] != wObj {
			return true
		}
		uses++
		// must be argument #1 of an entry.Minify call
		par := c.P.Parent(id)
		call, isCall := par.(*ast.CallExpr)
		if !isCall || len(call.Args) != 4 || call.Args[1] != ast.Expr(id) {
			badUse = c.pos(id)
			return true
		}
		if sel, ok := call.Fun.(*ast.SelectorExpr); !ok || sel.Sel.Name != "Minify" {
			badUse = c.pos(id)
		}
		return true
	})
	c.R.Check(badUse == "" && uses >= 2, rule, "minify.M.MinifyMimetype/writer untouched", c.pos(fdM), fmt.Sprintf("writer only handed to the selected minifier (%d uses)", uses), "the writer parameter is used outside the call of the selected minifier at "+badUse+": output could be produced although no minifier matches")

	// Match
	mimeMatch := ""
	var paramsVar string
	ast.Inspect(fdMatch.Body, func(x ast.Node) bool {
		as, ok := x.(*ast.AssignStmt)
		if ok && len(as.Lhs) == 2 && len(as.Rhs) == 1 {
			if call := isCall(info, as.Rhs[0], load.ParseMod+".Mediatype"); call != nil {
				mediaParam := fdMatch.Type.Params.List[0].Names[0].Name
				if str(call.Args[0]) == "[]byte("+mediaParam+")" {
					mimeMatch, paramsVar = str(as.Lhs[0]), str(as.Lhs[1])
				}
			}
		}
		return true
	})
	if mimeMatch == "" {
		c.R.Bad(rule2, "minify.M.Match/plan", c.pos(fdMatch), "Match does not split its argument with parse.Mediatype([]byte(mediatype)) like M.Minify")
		return
	}
	canonMatch := func(ret *ast.ReturnStmt, entry string) string {
		if len(ret.Results) != 3 {
			return "?"
		}
		if str(ret.Results[1]) != paramsVar {
			return "other-params:" + str(ret.Results[1])
		}
		if isNilExpr(ret.Results[2]) {
			return "ErrNotExist"
		}
		if str(ret.Results[2]) == entry+".Minify" {
			return "entry.Minify(m, w, r, params)"
		}
		return "other:" + str(ret.Results[2])
	}
	plan2, problems2 := c.dispatchPlan(pk, fdMatch, mimeMatch, canonMatch)
	got2 := planStrings(plan2)
	for i := range got2 {
		got2[i] = strings.ReplaceAll(got2[i], mimeMatch, mime)
	}
	if len(plan2) == 3 {
		got2[1] = "pattern(minifier.pattern.Match(" + mime + ")) -> " + plan2[1].action
	}
	c.R.Check(len(problems2) == 0 && equalStrings(got2, want), rule2, "minify.M.Match/plan", c.pos(fdMatch), "same plan as MinifyMimetype",
		fmt.Sprintf("Match's plan [%s] %s differs from the dispatch plan [%s]: the match query would not answer what a call uses", strings.Join(got2, "; "), strings.Join(problems2, "; "), strings.Join(want, "; ")))
}

func planStrings(p []planStep) []string {
	var out []string
	for _, s := range p {
		out = append(out, s.String())
	}
	return out
}

func equalStrings(a, b []string) bool {
	if len(a) != len(b) {
		return false
	}
	for i := range a {
		if a[i] != b[i] {
			return false
		}
	}
	return true
}

func (c *Ctx) r153(pk *packages.Package) {
	const rule = "R15.3"
	c.R.Rule(rule, "M.Minify = parse.Mediatype([]byte(mediatype)) followed by return m.MinifyMimetype(mimetype, w, r, params) with both results of the split passed on unchanged")
	info := pk.TypesInfo
	fd := c.fn(rule, pk, "M.Minify")
	if fd == nil {
		return
	}
	ok := false
	detail := "no single forwarding call found"
	names := []string{}
	for _, f := range fd.Type.Params.List {
		for _, n := range f.Names {
			names = append(names, n.Name)
		}
	}
	calls := findCalls(info, fd.Body, false, load.Mod+".(M).MinifyMimetype")
	nret := 0
	var theRet *ast.ReturnStmt
	ast.Inspect(fd.Body, func(x ast.Node) bool {
		if r, isRet := x.(*ast.ReturnStmt); isRet {
			nret++
			theRet = r
		}
		return true
	})
	if len(calls) == 1 && nret == 1 && len(theRet.Results) == 1 && ast.Unparen(theRet.Results[0]) == ast.Expr(calls[0]) && len(names) == 3 {
		call := calls[0]
		mimeId, ok0 := ast.Unparen(call.Args[0]).(*ast.Ident)
		parId, ok3 := ast.Unparen(call.Args[3]).(*ast.Ident)
		if ok0 && ok3 && str(call.Args[1]) == names[1] && str(call.Args[2]) == names[2] {
			d0, d3 := c.singleDef(pk, mimeId), c.singleDef(pk, parId)
			split := isCall(info, d0, load.ParseMod+".Mediatype")
			if d0 != nil && d0 == d3 && split != nil && str(split.Args[0]) == "[]byte("+names[0]+")" {
				// positions: first result -> mimetype, second -> params
				if as, isAs := c.P.Parent(d0).(*ast.AssignStmt); isAs && len(as.Lhs) == 2 && str(as.Lhs[0]) == mimeId.Name && str(as.Lhs[1]) == parId.Name {
					ok = true
				} else {
					detail = "the results of parse.Mediatype are passed in swapped positions"
				}
			} else {
				detail = "mimetype/params passed to MinifyMimetype are not both results of parse.Mediatype([]byte(" + names[0] + "))"
			}
		} else {
			detail = "arguments are not (mimetype, w, r, params): " + str(call)
		}
	}
	c.R.Check(ok, rule, "minify.M.Minify", c.pos(fd), "split then forward", "M.Minify does not forward the split media type and parameters: "+detail)
}

func (c *Ctx) r154(pk *packages.Package) {
	const rule = "R15.4"
	c.R.Rule(rule, "in the whole module the only writes to M.literal are unconditional map assignments m.literal[key] = v in M.Add / M.AddFunc / M.AddCmd (re-registration replaces) and the composite literal in New; the only writes to M.pattern are m.pattern = append(m.pattern, entry) in M.AddRegexp / M.AddFuncRegexp / M.AddCmdRegexp (registration order) and New; no delete, sort or reslice of either")
	lit, pat := 0, 0
	for _, rp := range c.P.Roots {
		info := rp.TypesInfo
		for _, fd := range load.FuncDecls(rp) {
			fname := load.FuncName(fd)
			g := c.graph(rp, fd)
			ast.Inspect(fd.Body, func(x ast.Node) bool {
				switch s := x.(type) {
				case *ast.AssignStmt:
					for i, l := range s.Lhs {
						if ix, ok := ast.Unparen(l).(*ast.IndexExpr); ok && isField(info, ix.X, mT, "literal") {
							lit++
							construct := "minify." + fname + "/write M.literal"
							okFn := rp.PkgPath == load.Mod && (fname == "M.Add" || fname == "M.AddFunc" || fname == "M.AddCmd")
							n := g.NodeOf(s)
							uncond := n != nil && len(g.DomFacts(n)) == 0
							c.R.Check(okFn && uncond && s.Tok == token.ASSIGN, rule, construct, c.pos(s), "unconditional map assignment (replace)", "M.literal is written outside the registrars or conditionally: re-registering a literal type would not replace the earlier minifier")
						}
						if isField(info, l, mT, "literal") {
							c.R.Bad(rule, "minify."+fname+"/replace M.literal", c.pos(s), "the literal map itself is replaced")
						}
						if isField(info, l, mT, "pattern") {
							pat++
							construct := "minify." + fname + "/write M.pattern"
							okFn := rp.PkgPath == load.Mod && (fname == "M.AddRegexp" || fname == "M.AddFuncRegexp" || fname == "M.AddCmdRegexp")
							okApp := false
							if len(s.Rhs) == len(s.Lhs) {
								if call, ok := ast.Unparen(s.Rhs[i]).(*ast.CallExpr); ok && str(call.Fun) == "append" && len(call.Args) == 2 && !call.Ellipsis.IsValid() && isField(info, call.Args[0], mT, "pattern") {
									okApp = true
								}
							}
							c.R.Check(okFn && okApp, rule, construct, c.pos(s), "append at the end (registration order)", "M.pattern is written other than by appending one entry at the end: `first-registered pattern wins` no longer holds")
						}
						if ix, ok := ast.Unparen(l).(*ast.IndexExpr); ok && isField(info, ix.X, mT, "pattern") {
							c.R.Bad(rule, "minify."+fname+"/overwrite M.pattern element", c.pos(s), "an element of the pattern list is overwritten")
						}
					}
				case *ast.CallExpr:
					if id, ok := s.Fun.(*ast.Ident); ok && id.Name == "delete" && len(s.Args) > 0 && isField(info, s.Args[0], mT, "literal") {
						c.R.Bad(rule, "minify."+fname+"/delete M.literal", c.pos(s), "entries are deleted from the literal map")
					}
					if cn := calleeName(info, s); strings.HasPrefix(cn, "sort.") || strings.HasPrefix(cn, "slices.") {
						for _, a := range s.Args {
							if isField(info, a, mT, "pattern") {
								c.R.Bad(rule, "minify."+fname+"/reorder M.pattern", c.pos(s), "the pattern list is reordered")
							}
						}
					}
				}
				return true
			})
		}
	}
	c.R.Floor(rule, "writes to M.literal", lit, 3)
	c.R.Floor(rule, "writes to M.pattern", pat, 3)
	_ = types.Identical
}
