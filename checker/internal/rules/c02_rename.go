package rules

import (
	"fmt"
	"go/ast"
	"go/token"
	"go/types"
	"strings"

	"golang.org/x/tools/go/packages"
	"golang.org/x/tools/go/ssa"

	"verif/checker/internal/eval"
	"verif/checker/internal/flow"
	"verif/checker/internal/load"
	"verif/checker/internal/ref"
)

const (
	jsRenameScope = load.Mod + "/js.(renamer).renameScope"
	jsGetName     = load.Mod + "/js.(renamer).getName"
	jsIsReserved  = load.Mod + "/js.(renamer).isReserved"
	jsBlockStmt   = load.Mod + "/js.(jsMinifier).minifyBlockStmt"
	jsBlockAsStmt = load.Mod + "/js.(jsMinifier).minifyBlockAsStmt"
	jsMinStmt     = load.Mod + "/js.(jsMinifier).minifyStmt"
)

func init() {
	mutant(&Mutant{Name: "c02-one-letter-names-kept", Property: "C02", File: "js/vars.go",
		Old: "\tfor _, v := range scope.Declared {\n\t\tv.Data = r.getName(v.Data, i)\n", New: "\tfor _, v := range scope.Declared {\n\t\tif identStartLen <= i && len(v.Data) == 1 {\n\t\t\tcontinue\n\t\t}\n\t\tv.Data = r.getName(v.Data, i)\n",
		Rule: "R02.11", Construct: "renames every declared binding"})
	register(&Property{
		ID:    "C02",
		Level: "other",
		Explain: "Capture-freedom is decided through where scopes are renamed and what the renamer avoids: (R02.1) every printed block/function/switch scope is passed to renameScope on every path before its statements are printed (correlated branches handled by a worlds search); " +
			"(R02.2) the rename switch is only ever set to an expression that implies ¬HasWith ∧ ¬KeepVarNames of the entered scope, before that scope is renamed; " +
			"(R02.3) every generated name is vetted by isReserved, which only answers false after consulting the reserved set (a copy of all js.Keywords ⊇ ECMAScript reserved words) and every undeclared variable of the scope; " +
			"(R02.4) only renameScope writes Var.Data, only it calls getName, it starts with the !rename early return, and the program scope is never renamed; labels/property/import-export names are never stored to; " +
			"(R02.5) hoisted names are registered as undeclared in every intermediate scope; (R02.6) the name alphabets are valid, duplicate-free and of the declared length. " +
			"(R02.7) statement lists are optimized before their scope is renamed; (R02.8) the rename switch is restored on all paths. Not covered: the dependency's scope analysis, getName's arithmetic, shorthand re-expansion.",
		Run: runC02,
	})
	mutant(&Mutant{Name: "c02-hoisted-ref-registered-in-one-scope", Property: "C02", File: "js/vars.go",
		Old: "\t\t\t\t\t\ts := decl.Scope\n\t\t\t\t\t\tfor s != nil && s != s.Func {\n\t\t\t\t\t\t\ts.AddUndeclared(ref)\n\t\t\t\t\t\t\ts = s.Parent\n\t\t\t\t\t\t}\n", New: "\t\t\t\t\t\tif s := decl.Scope; s != s.Func {\n\t\t\t\t\t\t\ts.AddUndeclared(ref)\n\t\t\t\t\t\t}\n",
		Rule: "R02.5", Construct: "hoisted ref"})
	mutant(&Mutant{Name: "c02-try-body-not-renamed", Property: "C02", File: "js/js.go",
		Old: "\t\tm.renamer.renameScope(stmt.Body.Scope)\n\t\tm.minifyBlockStmt(stmt.Body)\n\t\tif stmt.Catch != nil {", New: "\t\tm.minifyBlockStmt(stmt.Body)\n\t\tif stmt.Catch != nil {",
		Rule: "R02.1", Construct: "case *js.TryStmt/call minifyBlockStmt(stmt.Body)"})
	mutant(&Mutant{Name: "c02-funcdecl-rename-only-in-expr", Property: "C02", File: "js/js.go",
		Old: "\tif !inExpr {\n\t\tm.renamer.renameScope(decl.Body.Scope)\n\t}\n", New: "",
		Rule: "R02.1", Construct: "minifyFuncDecl/call minifyBlockStmt(decl.Body)"})
	mutant(&Mutant{Name: "c02-switch-scope-not-renamed", Property: "C02", File: "js/js.go",
		Old: "\t\tm.renamer.renameScope(stmt.Scope)\n\t\tfor _, clause := range stmt.List {", New: "\t\tfor _, clause := range stmt.List {",
		Rule: "R02.1", Construct: "loop stmt.List"})
	mutant(&Mutant{Name: "c02-for-body-optimized-after-rename", Property: "C02", File: "js/js.go",
		Old: "\tcase *js.ForStmt:\n\t\tstmt.Body.List = optimizeStmtList(stmt.Body.List, iterationBlock)\n\t\tm.renamer.renameScope(stmt.Body.Scope)\n", New: "\tcase *js.ForStmt:\n\t\tm.renamer.renameScope(stmt.Body.Scope)\n\t\tstmt.Body.List = optimizeStmtList(stmt.Body.List, iterationBlock)\n",
		Rule: "R02.7", Construct: "case *js.ForStmt"})
	mutant(&Mutant{Name: "c02-arrow-ignores-with", Property: "C02", File: "js/js.go",
		Old:  "func (m *jsMinifier) minifyArrowFunc(decl *js.ArrowFunc) {\n\tparentRename := m.renamer.rename\n\tm.renamer.rename = !decl.Body.Scope.HasWith && !m.o.KeepVarNames",
		New:  "func (m *jsMinifier) minifyArrowFunc(decl *js.ArrowFunc) {\n\tparentRename := m.renamer.rename\n\tm.renamer.rename = !m.o.KeepVarNames",
		Rule: "R02.2", Construct: "minifyArrowFunc/rename ="})
	mutant(&Mutant{Name: "c02-reserved-check-once", Property: "C02", File: "js/vars.go",
		Old: "\t\tfor r.isReserved(v.Data, scope.Undeclared) {", New: "\t\tif r.isReserved(v.Data, scope.Undeclared) {",
		Rule: "R02.3", Construct: "renameScope/vetted"})
	mutant(&Mutant{Name: "c02-undeclared-early-false", Property: "C02", File: "js/vars.go",
		Old: "\t\tif bytes.Equal(v.Data, name) {\n\t\t\treturn true\n\t\t}\n\t}\n\treturn false\n}\n\nfunc (r *renamer) getIndex", New: "\t\tif bytes.Equal(v.Data, name) {\n\t\t\treturn true\n\t\t}\n\t\treturn false\n\t}\n\treturn false\n}\n\nfunc (r *renamer) getIndex",
		Rule: "R02.3", Construct: "isReserved/return false"})
	mutant(&Mutant{Name: "c02-rename-top-level", Property: "C02", File: "js/js.go",
		Old: "\tm.hoistVars(&ast.BlockStmt)\n", New: "\tm.hoistVars(&ast.BlockStmt)\n\tm.renamer.renameScope(ast.BlockStmt.Scope)\n",
		Rule: "R02.4", Construct: "program scope"})
	mutant(&Mutant{Name: "c02-label-shortened", Property: "C02", File: "js/js.go",
		Old: "\tcase *js.LabelledStmt:\n\t\tm.write(stmt.Label)\n", New: "\tcase *js.LabelledStmt:\n\t\tstmt.Label = stmt.Label[:1]\n\t\tm.write(stmt.Label)\n",
		Rule: "R02.4", Construct: "LabelledStmt.Label"})
	mutant(&Mutant{Name: "c02-hoist-no-undeclared", Property: "C02", File: "js/vars.go",
		Old: "\t\t\t\t\t\t\ts.AddUndeclared(ref)\n", New: "",
		Rule: "R02.5", Construct: "hoistVars"})
	mutant(&Mutant{Name: "c02-alphabet-duplicate", Property: "C02", File: "js/vars.go",
		Old: "identStart = []byte(\"etnsoiarclduhmfpgvbjy_wOxCEkASMFTzDNLRPHIBV$WUKqYGXQZJ\")", New: "identStart = []byte(\"etnsoiarclduhmfpgvbjy_wOxCEkASMFTzDNLRPHIBV$WUKqYGXQZe\")",
		Rule: "R02.6", Construct: "identStart"})
}

func runC02(c *Ctx) {
	pk := c.pkg("R02", "js")
	if pk == nil {
		return
	}
	c.r021(pk)
	c.r022(pk)
	c.r023(pk)
	c.r024(pk)
	c.r025(pk)
	c.r026(pk)
	c.r027(pk)
	c.r029(pk)
	c.r0210(pk)
	c.r0211(pk)
	c.r0212(pk)
	c.alsoUnder(map[string]string{"R01.46": "R02.13"}, nil, func() { c.r0146(pk) })
	c.r0214(pk)
	c.r0151(pk, "R02.15")
	c.R.Rule("R02.8", "R01.3 restricted to renamer.rename: every save `p := m.renamer.rename` is followed, on every path from the later assignment of the switch to a function exit, by the restore `m.renamer.rename = p` — a leaked `on` lets the rest of an enclosing function that contains `with` be renamed")
	c.r013(pk, "R02.8", map[string]bool{"rename": true})
}

// R02.7: statement lists are optimized before their scope is renamed.
func (c *Ctx) r027(pk *packages.Package) {
	const rule = "R02.7"
	c.R.Rule(rule, "optimizeStmtList can dissolve blocks and move their let/const/class bindings into the enclosing scope (Scope.Unscope); such bindings are only renamed and collision-checked if that happens before the enclosing scope is renamed. Rule: within a function no call optimizeStmtList(L) is reachable from a call renameScope(S.Scope) when L belongs to S — L is S.List, S.<field>.List, an element's list S.List[i].List, or the List of a range variable over S.List")
	info := pk.TypesInfo
	const optFn = load.Mod + "/js.optimizeStmtList"
	pairs := 0
	for _, fd := range load.FuncDecls(pk) {
		g := c.graph(pk, fd)
		fname := load.FuncName(fd)
		// range variables: name -> ranged expression path
		rangeOf := map[string]string{}
		ast.Inspect(fd.Body, func(x ast.Node) bool {
			if rs, ok := x.(*ast.RangeStmt); ok && rs.Value != nil {
				rangeOf[str(rs.Value)] = selPath(rs.X)
			}
			return true
		})
		type site struct {
			n    *flow.Node
			call *ast.CallExpr
		}
		callsIn := func(n *flow.Node, name string) []*ast.CallExpr {
			var a ast.Node = n.Ast()
			if n.Kind == flow.KRange {
				a = n.Expr
			}
			if a == nil || n.Kind == flow.KSelect {
				return nil
			}
			return findCalls(info, a, false, name)
		}
		var renames, opts []site
		for _, n := range g.Nodes {
			for _, call := range callsIn(n, jsRenameScope) {
				renames = append(renames, site{n, call})
			}
			for _, call := range callsIn(n, optFn) {
				opts = append(opts, site{n, call})
			}
		}
		for _, r := range renames {
			owner := strings.TrimSuffix(selPath(r.call.Args[0]), ".Scope")
			for _, o := range opts {
				arg := selPath(o.call.Args[0])
				root := arg
				if i := strings.IndexAny(arg, ".["); i >= 0 {
					root = arg[:i]
				}
				belongs := strings.HasPrefix(arg, owner+".") || strings.HasPrefix(arg, owner+"[")
				if ranged, ok := rangeOf[root]; ok && (ranged == owner+".List" || strings.HasPrefix(ranged, owner+".")) {
					belongs = true
				}
				if !belongs || c.caseLabel(r.call) != c.caseLabel(o.call) {
					continue // `stmt` names a different variable in each type-switch clause
				}
				pairs++
				c.R.Func("js." + fname)
				construct := fmt.Sprintf("js.%s/%s/optimizeStmtList(%s) before renameScope(%s.Scope)", fname, c.caseLabel(r.call), arg, owner)
				p := g.Path(flow.Search{From: []*flow.Node{r.n}, Goal: func(y *flow.Node) bool { return y == o.n }})
				c.R.Check(p == nil, rule, construct, c.pos(o.call), "the list is optimized before its scope is renamed",
					"the statement list is optimized after its scope was renamed: bindings that optimizeStmtList moves out of dissolved blocks keep their source names and are not checked against the short names already handed out (capture): "+pathStr(c, g, p))
			}
		}
	}
	c.R.Floor(rule, "optimize/rename pairs", pairs, 8)
}

func hasScopeField(t types.Type) bool {
	st, ok := deref(t).Underlying().(*types.Struct)
	if !ok {
		return false
	}
	for i := 0; i < st.NumFields(); i++ {
		if st.Field(i).Name() == "Scope" && namedTypeName(st.Field(i).Type()) == pjs+".Scope" {
			return true
		}
	}
	return false
}

// R02.1
func (c *Ctx) r021(pk *packages.Package) {
	const rule = "R02.1"
	c.R.Rule(rule, "on every feasible path from function entry to a call minifyBlockStmt(X) / minifyBlockAsStmt(X), and to a loop that prints the List of a node X with an embedded js.Scope, renamer.renameScope(X.Scope) has been called. Exempt: calls inside minifyBlockAsStmt / minifyBlockStmt themselves (documented precondition, discharged at their callers), a fresh &js.BlockStmt{…} literal (no declarations), and the program scope in Minifier.Minify (must stay unrenamed, R02.4)")
	info := pk.TypesInfo
	sites := 0
	for _, fd := range load.FuncDecls(pk) {
		fname := load.FuncName(fd)
		if fname == "jsMinifier.minifyBlockAsStmt" || fname == "jsMinifier.minifyBlockStmt" || fname == "Minifier.Minify" {
			continue
		}
		g := c.graph(pk, fd)
		check := func(n *flow.Node, owner, what string, at ast.Node) {
			sites++
			c.R.Func("js." + fname)
			construct := fmt.Sprintf("js.%s/%s", fname, what)
			if cl := c.caseLabel(at); cl != "" {
				construct = fmt.Sprintf("js.%s/%s/%s", fname, cl, what)
			}
			renamed := func(x *flow.Node) bool {
				a := x.Ast()
				if a == nil {
					return false
				}
				for _, call := range findCalls(info, a, false, jsRenameScope) {
					if selPath(call.Args[0]) == owner+".Scope" {
						return true
					}
				}
				return false
			}
			p := g.MustPassBefore(n, renamed, flow.Search{Track: true})
			c.R.Check(p == nil, rule, construct, c.pos(at),
				"renameScope("+owner+".Scope) on every path before",
				fmt.Sprintf("a path reaches the printing of %s without renameScope(%s.Scope): its declarations keep their original names while enclosing variables are renamed, possibly onto them (capture): %s", owner, owner, pathStr(c, g, p)))
		}
		for _, n := range g.Nodes {
			a := n.Ast()
			if a == nil || n.Kind == flow.KSelect {
				continue
			}
			if n.Kind == flow.KRange {
				rs := n.Stmt.(*ast.RangeStmt)
				sel, ok := ast.Unparen(rs.X).(*ast.SelectorExpr)
				if !ok || sel.Sel.Name != "List" || !hasScopeField(info.TypeOf(sel.X)) {
					continue
				}
				// is it a printing loop?
				if len(findCalls(info, rs.Body, false, jsMinStmt)) == 0 {
					continue
				}
				check(n, selPath(sel.X), "loop "+selPath(rs.X), rs)
				continue
			}
			for _, call := range findCalls(info, a, false, jsBlockStmt, jsBlockAsStmt) {
				arg := ast.Unparen(call.Args[0])
				if u, ok := arg.(*ast.UnaryExpr); ok && u.Op == token.AND {
					if _, isLit := u.X.(*ast.CompositeLit); isLit {
						c.R.Exists(rule, fmt.Sprintf("js.%s/call %s(fresh literal)", fname, call.Fun.(*ast.SelectorExpr).Sel.Name), c.pos(call), "fresh block literal has no declarations")
						continue
					}
				}
				check(n, selPath(arg), fmt.Sprintf("call %s(%s)", call.Fun.(*ast.SelectorExpr).Sel.Name, selPath(arg)), call)
			}
		}
	}
	c.R.Floor(rule, "printed scopes", sites, 13)
}

// boolean function helpers ---------------------------------------------------

// boolAtoms collects the leaf atoms of a boolean expression.
func boolAtoms(e ast.Expr, out *[]string, seen map[string]bool) {
	e = ast.Unparen(e)
	switch x := e.(type) {
	case *ast.UnaryExpr:
		if x.Op == token.NOT {
			boolAtoms(x.X, out, seen)
			return
		}
	case *ast.BinaryExpr:
		if x.Op == token.LAND || x.Op == token.LOR {
			boolAtoms(x.X, out, seen)
			boolAtoms(x.Y, out, seen)
			return
		}
	}
	k := str(e)
	if !seen[k] {
		seen[k] = true
		*out = append(*out, k)
	}
}

func evalBool(e ast.Expr, val map[string]bool) bool {
	e = ast.Unparen(e)
	switch x := e.(type) {
	case *ast.UnaryExpr:
		if x.Op == token.NOT {
			return !evalBool(x.X, val)
		}
	case *ast.BinaryExpr:
		if x.Op == token.LAND {
			return evalBool(x.X, val) && evalBool(x.Y, val)
		}
		if x.Op == token.LOR {
			return evalBool(x.X, val) || evalBool(x.Y, val)
		}
	}
	return val[str(e)]
}

// implies reports whether e ⇒ lit(atom)=want for all valuations of e's atoms; atom must occur in e.
func impliesAtom(e ast.Expr, atom string, want bool) bool {
	var atoms []string
	boolAtoms(e, &atoms, map[string]bool{})
	found := false
	for _, a := range atoms {
		if a == atom {
			found = true
		}
	}
	if !found || len(atoms) > 12 {
		return false
	}
	for m := 0; m < 1<<len(atoms); m++ {
		val := map[string]bool{}
		for i, a := range atoms {
			val[a] = m&(1<<i) != 0
		}
		if evalBool(e, val) && val[atom] != want {
			return false
		}
	}
	return true
}

// R02.2
func (c *Ctx) r022(pk *packages.Package) {
	const rule = "R02.2"
	c.R.Rule(rule, "every assignment to renamer.rename is either the restore of a saved local — whose save dominates every other store to the switch in the function, so that the caller's value is what comes back — or an expression E with E ⇒ ¬X.Body.Scope.HasWith ∧ ¬o.KeepVarNames (truth table over E's atoms) that dominates renameScope(X.Body.Scope) of the same X; the rename argument of newRenamer implies ¬KeepVarNames")
	info := pk.TypesInfo
	sets := 0
	for _, fd := range load.FuncDecls(pk) {
		fname := load.FuncName(fd)
		g := c.graph(pk, fd)
		for _, n := range g.Nodes {
			rhs, ok := assignsTo(n, func(l ast.Expr) bool { return isField(info, l, jsRenT, "rename") })
			if !ok {
				continue
			}
			if id, isId := ast.Unparen(rhs).(*ast.Ident); isId {
				// restore of a saved local (R01.3 checks pairing): the local must be defined from the same field
				if def := c.singleDef(pk, id); def != nil && isField(info, def, jsRenT, "rename") {
					c.R.Exists(rule, "js."+fname+"/rename = "+id.Name, c.pos(n.Stmt), "restore of the saved value")
					// the value that is restored is the one of the caller: the save dominates every other store to the
					// switch in this function, i.e. it reads the field before the function has set it for its own scope
					obj := info.Uses[id]
					var save *flow.Node
					for _, x := range g.Nodes {
						if x.Kind != flow.KStmt {
							continue
						}
						if as, isAs := x.Stmt.(*ast.AssignStmt); isAs {
							for _, l := range as.Lhs {
								if lid, isId := l.(*ast.Ident); isId && obj != nil && info.Defs[lid] == obj {
									save = x
								}
							}
						}
					}
					var late []string
					for _, x := range g.Nodes {
						if x == n || x == save {
							continue
						}
						if _, isStore := assignsTo(x, func(l ast.Expr) bool { return isField(info, l, jsRenT, "rename") }); isStore {
							if save == nil || !g.Dominates(save, x) {
								late = append(late, c.pos(x.Stmt))
							}
						}
					}
					c.R.Check(save != nil && len(late) == 0, rule, "js."+fname+"/"+id.Name+" is saved before the switch is set", c.pos(n.Stmt), "the save dominates every other store to the switch",
						"the local that is restored on leaving is read from the switch after this function has already set it for its own scope ("+strings.Join(late, ", ")+"): the enclosing function gets the inner function's value back — after a method without `with` inside a function with `with`, the block scopes that follow are renamed although the with-object's properties may shadow them")
					continue
				}
			}
			sets++
			c.R.Func("js." + fname)
			construct := "js." + fname + "/rename = " + str(rhs)
			// find the HasWith atom and the KeepVarNames atom by field resolution
			var withAtom, keepAtom, withOwner string
			ast.Inspect(rhs, func(x ast.Node) bool {
				if e, ok := x.(ast.Expr); ok {
					if isField(info, e, pjs+".Scope", "HasWith") {
						withAtom = str(e)
						withOwner = selPath(e.(*ast.SelectorExpr).X)
					}
					if isField(info, e, load.Mod+"/js.Minifier", "KeepVarNames") {
						keepAtom = str(e)
					}
				}
				return true
			})
			var bad []string
			if withAtom == "" || !impliesAtom(rhs, withAtom, false) {
				bad = append(bad, "does not imply ¬HasWith of the entered scope: names inside a function containing `with` would be shortened although the with-object's properties may shadow them")
			}
			if keepAtom == "" || !impliesAtom(rhs, keepAtom, false) {
				bad = append(bad, "does not imply ¬KeepVarNames")
			}
			if withOwner != "" {
				// dominates the rename of that scope
				var ren []*flow.Node
				for _, x := range g.Nodes {
					if a := x.Ast(); a != nil && x.Kind != flow.KSelect {
						for _, call := range findCalls(info, a, false, jsRenameScope) {
							if selPath(call.Args[0]) == withOwner {
								ren = append(ren, x)
							}
						}
					}
				}
				if len(ren) == 0 {
					bad = append(bad, "HasWith is read from "+withOwner+" but that scope is not the one renamed in this function")
				}
				for _, x := range ren {
					if !g.Dominates(n, x) {
						bad = append(bad, "renameScope("+withOwner+") at "+c.pos(x.Ast())+" can run before the switch is set")
					}
				}
			}
			c.R.Check(len(bad) == 0, rule, construct, c.pos(n.Stmt), "implies ¬HasWith ∧ ¬KeepVarNames and dominates the rename", strings.Join(bad, "; "))
		}
	}
	c.R.Floor(rule, "rename switch assignments", sets, 3)
	// newRenamer(rename, ...)
	calls := 0
	for _, fd := range load.FuncDecls(pk) {
		for _, call := range findCalls(info, fd.Body, true, load.Mod+"/js.newRenamer") {
			calls++
			arg := call.Args[0]
			keepAtom := ""
			ast.Inspect(arg, func(x ast.Node) bool {
				if e, ok := x.(ast.Expr); ok && isField(info, e, load.Mod+"/js.Minifier", "KeepVarNames") {
					keepAtom = str(e)
				}
				return true
			})
			c.R.Check(keepAtom != "" && impliesAtom(arg, keepAtom, false), rule, "js."+load.FuncName(fd)+"/newRenamer("+str(arg)+")", c.pos(call), "implies ¬KeepVarNames", "initial rename switch does not imply ¬KeepVarNames")
		}
	}
	c.R.Floor(rule, "newRenamer calls", calls, 1)
	// the rename parameter of newRenamer initialises the field
	if fd := c.fn(rule, pk, "newRenamer"); fd != nil {
		ok := false
		ast.Inspect(fd.Body, func(x ast.Node) bool {
			if kv, isKV := x.(*ast.KeyValueExpr); isKV && str(kv.Key) == "rename" {
				if id, isId := kv.Value.(*ast.Ident); isId && len(fd.Type.Params.List) > 0 && id.Name == fd.Type.Params.List[0].Names[0].Name {
					ok = true
				}
			}
			return true
		})
		c.R.Check(ok, rule, "js.newRenamer/rename field", c.pos(fd), "field initialised from the first parameter", "renamer.rename is not initialised from newRenamer's first parameter")
	}
}

// R02.3
func (c *Ctx) r023(pk *packages.Package) {
	const rule = "R02.3"
	c.R.Rule(rule, "in renamer.renameScope every value assigned to v.Data from getName reaches the next iteration / exit only through the false outcome of isReserved(v.Data, scope.Undeclared); isReserved answers false only after the lookup in r.reserved (the length guard 1 < len(name) is sound because every key of js.Keywords has length ≥ 2) and after the complete range over its undeclared parameter comparing Link-resolved names; newRenamer copies every key of js.Keywords into reserved unconditionally; js.Keywords ⊇ ECMAScript reserved and strict-mode reserved words")
	info := pk.TypesInfo
	if fd := c.fn(rule, pk, "renamer.renameScope"); fd != nil {
		g := c.graph(pk, fd)
		n := 0
		for _, x := range g.Nodes {
			rhs, ok := assignsTo(x, func(l ast.Expr) bool { return isField(info, l, pjs+".Var", "Data") })
			if !ok {
				continue
			}
			n++
			construct := fmt.Sprintf("js.renamer.renameScope/vetted v.Data = %s#%d", str(rhs), n)
			if isCall(info, ast.Unparen(rhs), jsGetName) == nil {
				c.R.Bad(rule, construct, c.pos(x.Stmt), "a name not produced by getName is assigned")
				continue
			}
			lhs := x.Stmt.(*ast.AssignStmt).Lhs[0]
			vetted := func(y *flow.Node) bool {
				if y.Kind != flow.KFalse || y.Of.Kind != flow.KCond {
					return false
				}
				call := isCall(info, ast.Unparen(y.Of.Expr), jsIsReserved)
				if call == nil || len(call.Args) != 2 {
					return false
				}
				return str(call.Args[0]) == str(lhs) && isField(info, call.Args[1], pjs+".Scope", "Undeclared")
			}
			goal := func(y *flow.Node) bool { return y.Kind == flow.KExit || y.Kind == flow.KRange }
			p := g.Path(flow.Search{From: []*flow.Node{x}, Goal: goal, Avoid: vetted})
			c.R.Check(p == nil, rule, construct, c.pos(x.Stmt), "only leaves through !isReserved(v.Data, scope.Undeclared)",
				"a generated name can be kept without passing isReserved: it may be a keyword or the name of a free variable used in the scope (capture): "+pathStr(c, g, p))
		}
		c.R.Floor(rule, "getName assignments", n, 2)
	}
	if fd := c.fn(rule, pk, "renamer.isReserved"); fd != nil {
		g := c.graph(pk, fd)
		params := fd.Type.Params.List
		nameParam, undeclParam := params[0].Names[0].Name, params[1].Names[0].Name
		lookup := func(y *flow.Node) bool {
			a := y.Ast()
			return a != nil && y.Kind != flow.KRange && flow.Contains(a, func(z ast.Node) bool {
				ix, ok := z.(*ast.IndexExpr)
				return ok && isField(info, ix.X, jsRenT, "reserved")
			})
		}
		shortName := func(y *flow.Node) bool {
			// false outcome of 1 < len(name)
			if y.Kind != flow.KFalse || y.Of.Kind != flow.KCond {
				return false
			}
			s := str(y.Of.Expr)
			return s == "1 < len("+nameParam+")" || s == "len("+nameParam+") > 1" || s == "2 <= len("+nameParam+")" || s == "len("+nameParam+") >= 2"
		}
		rangeDone := func(y *flow.Node) bool {
			return y.Kind == flow.KFalse && y.Of.Kind == flow.KRange && str(y.Of.Expr) == undeclParam
		}
		k := 0
		for _, x := range g.Nodes {
			r, ok := x.Stmt.(*ast.ReturnStmt)
			if x.Kind != flow.KStmt || !ok || len(r.Results) != 1 || str(r.Results[0]) == "true" {
				continue
			}
			k++
			construct := fmt.Sprintf("js.renamer.isReserved/return false#%d", k)
			p1 := g.MustPassBefore(x, func(y *flow.Node) bool { return lookup(y) || shortName(y) }, flow.Search{})
			p2 := g.MustPassBefore(x, rangeDone, flow.Search{})
			switch {
			case p1 != nil:
				c.R.Bad(rule, construct, c.pos(r), "answers `not reserved` without consulting r.reserved: "+pathStr(c, g, p1))
			case p2 != nil:
				c.R.Bad(rule, construct, c.pos(r), "answers `not reserved` before every undeclared variable of the scope was compared: "+pathStr(c, g, p2))
			default:
				c.R.OK(rule, construct, c.pos(r), "after reserved lookup and the complete undeclared loop")
			}
		}
		c.R.Floor(rule, "isReserved false returns", k, 1)
		// the loop body compares Link-resolved Data with name and returns true
		okCmp := false
		for _, x := range g.Nodes {
			if x.Kind == flow.KCond {
				if call := isCall(info, ast.Unparen(x.Expr), "bytes.Equal"); call != nil {
					a0, a1 := str(call.Args[0]), str(call.Args[1])
					if (strings.HasSuffix(a0, ".Data") && a1 == nameParam) || (strings.HasSuffix(a1, ".Data") && a0 == nameParam) {
						// true outcome leads to return true only
						for _, s := range x.Succs {
							if s.Kind == flow.KTrue {
								p := g.Path(flow.Search{From: []*flow.Node{s}, Goal: func(y *flow.Node) bool {
									if y.Kind == flow.KExit {
										return true
									}
									return false
								}, Avoid: func(y *flow.Node) bool {
									r, ok := y.Stmt.(*ast.ReturnStmt)
									return y.Kind == flow.KStmt && ok && len(r.Results) == 1 && str(r.Results[0]) == "true"
								}})
								okCmp = p == nil
							}
						}
						// every iteration reaches the comparison
						var rangeTrue *flow.Node
						for _, y := range g.Nodes {
							if y.Kind == flow.KTrue && y.Of.Kind == flow.KRange {
								rangeTrue = y
							}
						}
						if rangeTrue != nil {
							p := g.Path(flow.Search{From: []*flow.Node{rangeTrue}, Goal: func(y *flow.Node) bool { return y.Kind == flow.KRange || y.Kind == flow.KExit }, Avoid: func(y *flow.Node) bool { return y == x }})
							if p != nil {
								okCmp = false
							}
						}
					}
				}
			}
		}
		c.R.Check(okCmp, rule, "js.renamer.isReserved/undeclared comparison", c.pos(fd), "each undeclared variable's Data is compared with the name; equality answers true", "the loop over undeclared variables does not compare every variable's name / equality does not answer true")
		linkLoop := flow.Contains(fd.Body, func(z ast.Node) bool {
			f, ok := z.(*ast.ForStmt)
			return ok && f.Cond != nil && strings.HasSuffix(str(f.Cond), ".Link != nil")
		})
		c.R.Check(linkLoop, rule, "js.renamer.isReserved/Link resolution", c.pos(fd), "names are resolved through Var.Link", "undeclared variables are not resolved through Link: the current (renamed) name of an outer variable would be missed")
	}
	// newRenamer copies all keys
	if fd := c.fn(rule, pk, "newRenamer"); fd != nil {
		g := c.graph(pk, fd)
		ok := false
		for _, x := range g.Nodes {
			if x.Kind != flow.KRange || !usesObj(info, x.Expr, pjs+".Keywords") {
				continue
			}
			rs := x.Stmt.(*ast.RangeStmt)
			key, _ := rs.Key.(*ast.Ident)
			if key == nil {
				continue
			}
			// every iteration passes reservedLocal[key] = …
			var target string
			ins := func(y *flow.Node) bool {
				_, isIns := assignsTo(y, func(l ast.Expr) bool {
					ix, ok := ast.Unparen(l).(*ast.IndexExpr)
					if ok && str(ix.Index) == key.Name {
						target = str(ix.X)
						return true
					}
					return false
				})
				return isIns
			}
			var tn *flow.Node
			for _, s := range x.Succs {
				if s.Kind == flow.KTrue {
					tn = s
				}
			}
			p := g.Path(flow.Search{From: []*flow.Node{tn}, Goal: func(y *flow.Node) bool { return y.Kind == flow.KRange || y.Kind == flow.KExit }, Avoid: ins})
			if p == nil && target != "" {
				// and that map becomes the reserved field
				flowsToField := false
				ast.Inspect(fd.Body, func(z ast.Node) bool {
					if kv, isKV := z.(*ast.KeyValueExpr); isKV && str(kv.Key) == "reserved" && str(kv.Value) == target {
						flowsToField = true
					}
					return true
				})
				ok = flowsToField
			}
		}
		c.R.Check(ok, rule, "js.newRenamer/copy of js.Keywords", c.pos(fd), "every key of js.Keywords is inserted into the reserved set on every iteration", "not every key of js.Keywords reaches renamer.reserved: a generated name could be a keyword")
	}
	// table: Keywords ⊇ reserved words, all keys length ≥ 2
	dep := c.P.Dep(pjs)
	v, _, err := c.Ev.PackageVar(dep, "Keywords")
	if err != nil {
		c.R.Unres(rule, "parse/js.Keywords", "-", err.Error())
		return
	}
	m, _ := v.(*eval.Map)
	if m == nil {
		c.R.Unres(rule, "parse/js.Keywords", "-", "not a map literal")
		return
	}
	have := map[string]bool{}
	for _, e := range m.Entries {
		k, _ := e.Key.(string)
		have[k] = true
		if len(k) < 2 {
			c.R.Bad(rule, "parse/js.Keywords["+k+"]", c.pos(e.KeyX), "a one-character keyword defeats the length guard of isReserved")
		}
	}
	for _, w := range sortedKeys(ref.JSReservedWords) {
		c.R.Check(have[w], rule, "parse/js.Keywords ⊇ "+w, "-", "present", "reserved word "+w+" is not in js.Keywords, so the renamer may generate it as a variable name")
	}
}

// R02.4
func (c *Ctx) r024(pk *packages.Package) {
	const rule = "R02.4"
	c.R.Rule(rule, "SSA, whole module: stores to field Data of js.Var occur only in renamer.renameScope; getName is called only from renameScope; renameScope starts with the `!r.rename` early return that dominates every store; renameScope is never called with the program scope in Minifier.Minify; no store to LabelledStmt.Label, BranchStmt.Label, Alias.Name, Alias.Binding, DotExpr.Y, ImportStmt.Default anywhere in the module")
	prog, _ := c.P.SSA()
	_ = prog
	protected := map[string]string{
		pjs + ".LabelledStmt.Label": "label", pjs + ".BranchStmt.Label": "label", pjs + ".Alias.Name": "import/export name",
		pjs + ".Alias.Binding": "import/export name", pjs + ".DotExpr.Y": "property name", pjs + ".ImportStmt.Default": "import name",
	}
	stores, funcs := 0, 0
	for _, rp := range c.P.Roots {
		sp := c.P.SSAPkg(strings.TrimPrefix(strings.TrimPrefix(rp.PkgPath, load.Mod), "/"))
		if sp == nil {
			continue
		}
		for _, fn := range allFuncs(sp) {
			funcs++
			for _, b := range fn.Blocks {
				for _, ins := range b.Instrs {
					st, ok := ins.(*ssa.Store)
					if !ok {
						continue
					}
					owner, field := ssaFieldAddr(st.Addr)
					if owner == "" {
						continue
					}
					key := owner + "." + field
					fname := fn.RelString(sp.Pkg)
					if key == pjs+".Var.Data" {
						stores++
						c.R.Check(fname == "(*renamer).renameScope" && sp.Pkg.Path() == load.Mod+"/js", rule,
							fmt.Sprintf("store Var.Data in %s.%s", sp.Pkg.Name(), fname), c.P.Pos(st.Pos()), "inside renameScope",
							"an identifier name is written outside renamer.renameScope: names change without the reserved/undeclared vetting")
					}
					if what, ok := protected[key]; ok {
						c.R.Bad(rule, fmt.Sprintf("store %s in %s.%s", strings.TrimPrefix(key, pjs+"."), sp.Pkg.Name(), fname), c.P.Pos(st.Pos()), "a "+what+" (observable outside function bodies) is modified")
					}
				}
			}
		}
	}
	c.R.Note("R02.4: %d SSA functions scanned, %d stores to Var.Data", funcs, stores)
	c.R.Floor(rule, "stores to Var.Data", stores, 1)
	for k := range protected {
		c.R.Exists(rule, "no store to "+strings.TrimPrefix(k, pjs+"."), "-", "0 stores in the module")
	}
	info := pk.TypesInfo
	// getName callers
	n := 0
	for _, fd := range load.FuncDecls(pk) {
		for _, call := range findCalls(info, fd.Body, true, jsGetName) {
			n++
			c.R.Check(load.FuncName(fd) == "renamer.renameScope", rule, "js."+load.FuncName(fd)+"/call getName", c.pos(call), "called from renameScope", "getName is called outside renameScope")
		}
	}
	c.R.Floor(rule, "getName call sites", n, 2)
	// early return dominates stores
	if fd := c.fn(rule, pk, "renamer.renameScope"); fd != nil {
		g := c.graph(pk, fd)
		i := 0
		for _, x := range g.Nodes {
			if _, ok := assignsTo(x, func(l ast.Expr) bool { return isField(info, l, pjs+".Var", "Data") }); !ok {
				continue
			}
			i++
			p := g.ReachableUnder(x, map[string]bool{"r.rename": false}, true)
			c.R.Check(p == nil, rule, fmt.Sprintf("js.renamer.renameScope/store#%d unreachable when !r.rename", i), c.pos(x.Stmt), "guarded by the rename switch", "a name is changed although renaming is switched off (KeepVarNames / with): "+pathStr(c, g, p))
		}
	}
	// program scope never renamed: in Minifier.Minify no renameScope call at all, and no renameScope call
	// anywhere takes the Scope of the js.AST value
	if fd := c.fn(rule, pk, "Minifier.Minify"); fd != nil {
		calls := findCalls(info, fd.Body, true, jsRenameScope)
		c.R.Check(len(calls) == 0, rule, "js.Minifier.Minify/program scope", c.pos(fd), "renameScope is not called on the program scope", "the program (top-level) scope is renamed: top-level declarations are visible to other scripts and must keep their names")
	}
	for _, fd := range load.FuncDecls(pk) {
		for _, call := range findCalls(info, fd.Body, true, jsRenameScope) {
			root := rootIdent(call.Args[0])
			if root != nil && namedTypeName(info.TypeOf(root)) == pjs+".AST" {
				c.R.Bad(rule, "js."+load.FuncName(fd)+"/program scope", c.pos(call), "renameScope is applied to the js.AST (program) scope")
			}
		}
	}
}

func allFuncs(sp *ssa.Package) []*ssa.Function {
	var out []*ssa.Function
	seen := map[*ssa.Function]bool{}
	var add func(f *ssa.Function)
	add = func(f *ssa.Function) {
		if f == nil || seen[f] {
			return
		}
		seen[f] = true
		out = append(out, f)
		for _, a := range f.AnonFuncs {
			add(a)
		}
	}
	for _, m := range sp.Members {
		switch x := m.(type) {
		case *ssa.Function:
			add(x)
		case *ssa.Type:
			for _, t := range []types.Type{x.Type(), types.NewPointer(x.Type())} {
				ms := sp.Prog.MethodSets.MethodSet(t)
				for i := 0; i < ms.Len(); i++ {
					if f := sp.Prog.MethodValue(ms.At(i)); f != nil && f.Pkg == sp {
						add(f)
					}
				}
			}
		}
	}
	return out
}

// ssaFieldAddr resolves a store address to (named struct type, field name) when it is a field address.
func ssaFieldAddr(v ssa.Value) (string, string) {
	fa, ok := v.(*ssa.FieldAddr)
	if !ok {
		return "", ""
	}
	t := deref(fa.X.Type())
	st, ok := t.Underlying().(*types.Struct)
	if !ok {
		return "", ""
	}
	return namedTypeName(t), st.Field(fa.Field).Name()
}

// R02.5
func (c *Ctx) r025(pk *packages.Package) {
	const rule = "R02.5"
	c.R.Rule(rule, "in hoistVars, every path from appending a hoisted ref to the target declaration's list (orig = append(orig, ref)) to the end of that iteration calls (*js.Scope).AddUndeclared(ref) inside a loop that walks Parent up to Func")
	info := pk.TypesInfo
	fd := c.fn(rule, pk, "jsMinifier.hoistVars")
	if fd == nil {
		return
	}
	g := c.graph(pk, fd)
	n := 0
	for _, x := range g.Nodes {
		if x.Kind != flow.KStmt {
			continue
		}
		as, ok := x.Stmt.(*ast.AssignStmt)
		if !ok || len(as.Rhs) != 1 {
			continue
		}
		call, ok := as.Rhs[0].(*ast.CallExpr)
		if !ok || str(call.Fun) != "append" || len(call.Args) != 2 || str(call.Args[0]) != "orig" || call.Ellipsis.IsValid() {
			continue
		}
		ref := str(call.Args[1])
		n++
		construct := "js.jsMinifier.hoistVars/hoisted " + ref
		added := func(y *flow.Node) bool {
			a := y.Ast()
			if a == nil || y.Kind == flow.KSelect {
				return false
			}
			for _, cl := range findCalls(info, a, false, pjs+".(Scope).AddUndeclared") {
				if str(cl.Args[0]) == ref {
					// the receiver walks Parent: some assignment s = s.Parent in the same loop
					recv := str(cl.Fun.(*ast.SelectorExpr).X)
					walks := flow.Contains(fd.Body, func(z ast.Node) bool {
						as, ok := z.(*ast.AssignStmt)
						return ok && len(as.Lhs) == 1 && str(as.Lhs[0]) == recv && str(as.Rhs[0]) == recv+".Parent"
					})
					return walks
				}
			}
			return false
		}
		p := g.Path(flow.Search{From: []*flow.Node{x}, Goal: func(y *flow.Node) bool { return y.Kind == flow.KRange || y.Kind == flow.KExit }, Avoid: added})
		// the walk loop itself may be skipped when s == nil or s == s.Func at once; accept paths that pass the loop condition
		if p != nil {
			passesLoopCond := false
			for _, y := range p {
				if y.Kind != flow.KCond || !strings.Contains(str(y.Expr), ".Func") {
					continue
				}
				// it must be the condition of the walking loop: a for statement whose body registers ref and steps to Parent
				ast.Inspect(fd.Body, func(z ast.Node) bool {
					fs, ok := z.(*ast.ForStmt)
					if !ok || fs.Cond == nil || y.Expr.Pos() < fs.Cond.Pos() || y.Expr.End() > fs.Cond.End() {
						return true
					}
					steps := flow.Contains(fs.Body, func(q ast.Node) bool {
						as, ok := q.(*ast.AssignStmt)
						return ok && len(as.Lhs) == 1 && len(as.Rhs) == 1 && str(as.Rhs[0]) == str(as.Lhs[0])+".Parent"
					})
					registers := len(findCalls(info, fs.Body, false, pjs+".(Scope).AddUndeclared")) > 0
					if steps && registers {
						passesLoopCond = true
					}
					return true
				})
			}
			if passesLoopCond {
				p = nil
			}
		}
		c.R.Check(p == nil, rule, construct, c.pos(x.Stmt), "AddUndeclared("+ref+") up the Parent chain on all paths", "a hoisted variable is not registered as undeclared in the intermediate scopes: a local of such a scope can be renamed to the same short name (capture)")
		// every scope on the way gets the name: inside the walking loop no path from its condition to the step to Parent
		// goes around the registration (a block scope that declares nothing today can receive declarations later, when
		// optimizeStmtList merges a block into it)
		ast.Inspect(fd.Body, func(z ast.Node) bool {
			fs, ok := z.(*ast.ForStmt)
			if !ok || fs.Cond == nil {
				return true
			}
			var step ast.Node
			ast.Inspect(fs.Body, func(q ast.Node) bool {
				if as, ok := q.(*ast.AssignStmt); ok && len(as.Lhs) == 1 && len(as.Rhs) == 1 && str(as.Rhs[0]) == str(as.Lhs[0])+".Parent" {
					step = as
				}
				return true
			})
			if step == nil || len(findCalls(info, fs.Body, false, pjs+".(Scope).AddUndeclared")) == 0 {
				return true
			}
			var from []*flow.Node
			var goal *flow.Node
			for _, y := range g.Nodes {
				if y.Kind == flow.KCond && y.Expr != nil && fs.Cond.Pos() <= y.Expr.Pos() && y.Expr.End() <= fs.Cond.End() {
					from = append(from, y)
				}
				if y.Kind == flow.KStmt && y.Stmt == step {
					goal = y
				}
			}
			if len(from) == 0 || goal == nil {
				c.R.Unres(rule, construct+"/registered in every scope of the walk", c.pos(fs), "the walking loop's condition or step is not in the flow graph")
				return true
			}
			p2 := g.Path(flow.Search{From: from, Goal: func(y *flow.Node) bool { return y == goal }, Avoid: added})
			c.R.Check(p2 == nil, rule, construct+"/registered in every scope of the walk", c.pos(fs), "no path from the loop condition to the step to Parent goes around AddUndeclared("+ref+")",
				"the walk up the Parent chain skips scopes: "+pathStr(c, g, p2)+" — a scope that is skipped (for instance because it declares nothing yet) can later receive a let/const from a merged block, which is then renamed to the hoisted variable's short name: `for(;;){if(e)break;else{let t=g();h(t,t)}var a=1}` with a hoisted `var z` gives `let t` and `var t` in one scope")
			return true
		})
	}
	c.R.Floor(rule, "hoisted refs", n, 1)
}

// R02.6
func (c *Ctx) r026(pk *packages.Package) {
	const rule = "R02.6"
	c.R.Rule(rule, "the identStart / identContinue alphabets assigned in newRenamer: every byte of identStart is an ASCII IdentifierStart (a-zA-Z_$), every byte of identContinue an IdentifierPart (plus 0-9), no duplicates, lengths equal identStartLen / identContinueLen")
	fd := c.fn(rule, pk, "newRenamer")
	if fd == nil {
		return
	}
	lens := map[string]int64{}
	for _, n := range []string{"identStartLen", "identContinueLen"} {
		if k, ok := pk.Types.Scope().Lookup(n).(*types.Const); ok {
			lens[n], _ = constantInt64(k)
		} else {
			c.R.Unres(rule, "js."+n, "-", "constant not found")
		}
	}
	cnt := map[string]int{}
	ast.Inspect(fd.Body, func(x ast.Node) bool {
		as, ok := x.(*ast.AssignStmt)
		if !ok || len(as.Lhs) != 1 || len(as.Rhs) != 1 {
			return true
		}
		name := str(as.Lhs[0])
		if name != "identStart" && name != "identContinue" {
			return true
		}
		v, err := c.Ev.Expr(pk, as.Rhs[0])
		b, isB := v.([]byte)
		if err != nil || !isB {
			c.R.Unres(rule, "js.newRenamer/"+name, c.pos(as), "alphabet is not a constant byte string")
			return true
		}
		cnt[name]++
		construct := fmt.Sprintf("js.newRenamer/%s#%d", name, cnt[name])
		var bad []string
		seen := map[byte]bool{}
		for _, ch := range b {
			isStart := ch >= 'a' && ch <= 'z' || ch >= 'A' && ch <= 'Z' || ch == '_' || ch == '$'
			if !(isStart || name == "identContinue" && ch >= '0' && ch <= '9') {
				bad = append(bad, fmt.Sprintf("%q is not a valid identifier character in this position", ch))
			}
			if seen[ch] {
				bad = append(bad, fmt.Sprintf("%q occurs twice: two indices generate the same name within one scope", ch))
			}
			seen[ch] = true
		}
		if int64(len(b)) != lens[name+"Len"] {
			bad = append(bad, fmt.Sprintf("length %d differs from %sLen = %d", len(b), name, lens[name+"Len"]))
		}
		c.R.Check(len(bad) == 0, rule, construct, c.pos(as), fmt.Sprintf("%d distinct valid characters", len(b)), strings.Join(bad, "; "))
		return true
	})
	c.R.Floor(rule, "alphabet constants", cnt["identStart"]+cnt["identContinue"], 4)
}

// R02.9: `with` disables renaming in the enclosing functions too.
func (c *Ctx) r029(pk *packages.Package) {
	const rule = "R02.9"
	c.R.Rule(rule, "inside `with(o)` every identifier is first looked up on o, so no name visible there may change — not the locals of the function containing the statement, and not the locals of the functions *around* it that are referenced inside. The parser sets Scope.HasWith only on the function that directly contains the `with` (p.scope.Func.HasWith = true), and the renaming switch is computed from that flag alone (`m.renamer.rename = !decl.Body.Scope.HasWith && …`). The rule asks for one of the two repairs to be visible in package js: an upward propagation (an assignment `….HasWith = true` in a loop over Parent / Func), or a switch expression that consults something other than the scope's own HasWith (a nested-with predicate)")
	info := pk.TypesInfo
	propagated := false
	sites := 0
	consults := 0
	for _, fd := range load.FuncDecls(pk) {
		if fd.Body == nil {
			continue
		}
		ast.Inspect(fd.Body, func(x ast.Node) bool {
			as, ok := x.(*ast.AssignStmt)
			if !ok || len(as.Lhs) != 1 || len(as.Rhs) != 1 {
				return true
			}
			l := nospace(str(as.Lhs[0]))
			if strings.HasSuffix(l, ".HasWith") {
				if tv, ok := info.Types[as.Rhs[0]]; ok && tv.Value != nil && tv.Value.String() == "true" {
					// inside a loop that walks upwards
					for p := c.P.Parent(as); p != nil; p = c.P.Parent(p) {
						if fs, ok := p.(*ast.ForStmt); ok {
							if flow.Contains(fs, func(q ast.Node) bool {
								a2, ok := q.(*ast.AssignStmt)
								return ok && len(a2.Rhs) == 1 && (strings.HasSuffix(nospace(str(a2.Rhs[0])), ".Parent") || strings.HasSuffix(nospace(str(a2.Rhs[0])), ".Func"))
							}) {
								propagated = true
							}
						}
					}
				}
			}
			if strings.HasSuffix(l, ".renamer.rename") && strings.Contains(str(as.Rhs[0]), "HasWith") {
				sites++
				// anything besides <x>.Scope.HasWith and the KeepVarNames option?
				other := false
				ast.Inspect(as.Rhs[0], func(q ast.Node) bool {
					switch e := q.(type) {
					case *ast.CallExpr:
						other = true
					case *ast.SelectorExpr:
						if e.Sel.Name != "HasWith" && e.Sel.Name != "KeepVarNames" && e.Sel.Name != "Scope" && e.Sel.Name != "Body" && e.Sel.Name != "o" {
							if _, isField := info.Uses[e.Sel].(*types.Var); isField && strings.Contains(strings.ToLower(e.Sel.Name), "with") {
								other = true
							}
						}
					}
					return true
				})
				if other {
					consults++
				}
			}
			return true
		})
	}
	if sites == 0 {
		c.R.Unres(rule, "js/renaming switch", "-", "no assignment of m.renamer.rename from a HasWith flag found")
		return
	}
	c.R.Check(propagated || consults == sites, rule, "js/with in a nested function disables renaming in the enclosing functions", "-", fmt.Sprintf("%d switch sites; propagation or nested-with predicate present", sites),
		fmt.Sprintf("the renaming switch is computed from the function's own HasWith flag at %d sites and nothing propagates the flag to enclosing functions: `function g(abc){return function(o){with(o){return abc}}}` becomes `function g(e){return function(o){with(o)return e}}` — inside the with, `e` is looked up on o first", sites))
}

// R02.10: bindings move into the enclosing scope only where they cannot clash there.
func (c *Ctx) r0210(pk *packages.Package) {
	const rule = "R02.10"
	c.R.Rule(rule, "when an if-body ends in a jump, optimizeStmtList drops the `else` and splices the else-block's statements into the enclosing list; the block's let/const/class bindings are moved to the enclosing scope with Scope.Unscope. Inside a renamed function the renamer then gives them names that clash with nothing. Where names are kept — the top level, KeepVarNames, a function with `with` — the moved binding keeps its name and can collide with a declaration of the enclosing scope (`let x=1;if(a){throw 1}else{let x=2;g(x)}` → `let x=1;if(a)throw 1;let x=2;g(x)`, a redeclaration error) or capture its uses (`…else{let x=2}h(x)`: h now receives the block's x). Every call of (*js.Scope).Unscope is therefore dominated by a test that looks at the names involved or at the renaming switch: a call taking the scope (or its Declared list), or a comparison of Var names")
	info := pk.TypesInfo
	n := 0
	for _, fd := range load.FuncDecls(pk) {
		if fd.Body == nil {
			continue
		}
		calls := findCalls(info, fd.Body, false, pjs+".(Scope).Unscope")
		if len(calls) == 0 {
			continue
		}
		g := c.graph(pk, fd)
		for _, call := range calls {
			n++
			y := g.NodeOf(call)
			recv := nospace(str(call.Fun.(*ast.SelectorExpr).X))
			good := false
			if y != nil {
				for _, f := range g.DomFacts(y) {
					if f.Test.Kind != flow.KCond {
						continue
					}
					s := nospace(str(f.Test.Expr))
					if strings.Contains(s, recv) && strings.Contains(s, "(") && !strings.Contains(s, "isFlowStmt") || strings.Contains(s, ".rename") || strings.Contains(s, "KeepVarNames") {
						good = true
					}
				}
			}
			c.R.Check(good, rule, fmt.Sprintf("js.%s/%s.Unscope()#%d only where no name can clash", load.FuncName(fd), recv, n), c.pos(call), "behind a test of the names or of the renaming switch",
				"the bindings of a dissolved else-block are moved into the enclosing scope unconditionally: where names are not renamed (top level, KeepVarNames) they collide with or capture names of that scope — `let x=1;if(a){throw 1}else{let x=2;g(x)}` → `let x=1;if(a)throw 1;let x=2;g(x)`")
		}
	}
	c.R.Floor(rule, "calls of Scope.Unscope", n, 1)
}

// R02.11: every binding of a scope gets its name from the generator.
func (c *Ctx) r0211(pk *packages.Package) {
	const rule = "R02.11"
	c.R.Rule(rule, "renamer.renameScope hands out the names of one sequence to the bindings of a scope; two bindings are distinct because each took a different element. A binding that keeps its source name — a `continue` in front of the assignment — is outside that argument: its name may already have been handed to a binding renamed earlier (`var x=24,…,x=1e3` merges two variables, with let it is a redeclaration) or to an outer variable. In the loop over scope.Declared no path leads from the head of the loop to the next iteration without passing the assignment `v.Data = r.getName(…)`")
	info := pk.TypesInfo
	fd := c.fn(rule, pk, "renamer.renameScope")
	if fd == nil {
		return
	}
	g := c.graph(pk, fd)
	n := 0
	for _, h := range g.Nodes {
		if h.Kind != flow.KRange {
			continue
		}
		rs, ok := h.Stmt.(*ast.RangeStmt)
		if !ok || !strings.HasSuffix(nospace(str(rs.X)), ".Declared") {
			continue
		}
		n++
		var entry *flow.Node
		for _, q := range g.Nodes {
			if q.Kind == flow.KTrue && q.Of == h {
				entry = q
			}
		}
		if entry == nil {
			c.R.Unres(rule, "js.renamer.renameScope/loop over the declared bindings", c.pos(rs), "loop entry not found in the flow graph")
			continue
		}
		assigns := func(q *flow.Node) bool {
			as, ok := q.Stmt.(*ast.AssignStmt)
			if !ok || q.Kind != flow.KStmt || len(as.Lhs) != 1 || len(as.Rhs) != 1 {
				return false
			}
			if !strings.HasSuffix(nospace(str(as.Lhs[0])), ".Data") {
				return false
			}
			ce, ok := ast.Unparen(as.Rhs[0]).(*ast.CallExpr)
			return ok && strings.HasSuffix(calleeName(info, ce), ".getName")
		}
		p := g.Path(flow.Search{From: []*flow.Node{entry}, Goal: func(q *flow.Node) bool { return q == h }, Avoid: assigns})
		c.R.Check(p == nil, rule, fmt.Sprintf("js.renamer.renameScope/loop#%d renames every declared binding", n), c.pos(rs), "each iteration assigns a generated name",
			"an iteration of the loop over the declared bindings can end without giving the binding a generated name: it keeps its source name, which the generator may have handed to another binding of the same scope: "+pathStr(c, g, p))
	}
	c.R.Floor(rule, "loops over scope.Declared in renameScope", n, 1)
}

// R02.12 (known finding K15): the name of a class expression is a binding the renamer knows about.
func (c *Ctx) r0212(pk *packages.Package) {
	const rule = "R02.12"
	c.R.Rule(rule, "`class e{…}` in expression position binds e inside the class (heritage, computed keys, members). The renamer chooses names per scope and avoids the names that are declared in or referenced from it; a binding that is in no scope's lists is invisible to it, and a variable captured by the class can be given that very name: `function f(){var x=1;return class e{m(){return x}}}` → `…var e=1;return class e{m(){return e}}`, m returns the class. In the pinned parser (parse/js, Parser.parseAnyClass) every assignment to the Name of the class declaration takes the result of a Scope.Declare call; a free-standing &Var{…} is a binding nobody accounts for")
	dep := c.P.Dep(pjs)
	if dep == nil {
		c.R.Unres(rule, "parse/js.Parser.parseAnyClass", "-", "dependency package not loaded")
		return
	}
	fd := load.Func(dep, "Parser.parseAnyClass")
	if fd == nil {
		c.R.Unres(rule, "parse/js.Parser.parseAnyClass", "-", "function not found in the dependency")
		return
	}
	info := dep.TypesInfo
	n := 0
	ast.Inspect(fd.Body, func(x ast.Node) bool {
		as, ok := x.(*ast.AssignStmt)
		if !ok || len(as.Rhs) != 1 || len(as.Lhs) < 1 || !strings.HasSuffix(nospace(str(as.Lhs[0])), ".Name") {
			return true
		}
		n++
		construct := fmt.Sprintf("parse/js.Parser.parseAnyClass/class name#%d is declared in a scope", n)
		if ce, ok := ast.Unparen(as.Rhs[0]).(*ast.CallExpr); ok && strings.HasSuffix(calleeName(info, ce), ".(Scope).Declare") {
			c.R.OK(rule, construct, c.pos(as), "result of Scope.Declare")
			return true
		}
		// does the minifier compensate? (any use of js.ExprDecl in package js of the module)
		comp := false
		for _, f := range pk.Syntax {
			ast.Inspect(f, func(z ast.Node) bool {
				if se, ok := z.(*ast.SelectorExpr); ok && se.Sel.Name == "ExprDecl" {
					comp = true
				}
				return true
			})
		}
		if comp {
			c.R.Unres(rule, construct, c.pos(as), "the parser leaves the name of a class expression out of every scope and package js refers to js.ExprDecl: whether that compensates is not decided here")
			return true
		}
		c.R.Bad(rule, construct, c.pos(as), "the name of a class expression is "+str(as.Rhs[0])+", a variable in no scope: the renamer can hand the same name to a variable that the class body captures (`function f(){var x=1;return class e{m(){return x}}}` → `var e=1;return class e{m(){return e}}`)")
		return true
	})
	c.R.Floor(rule, "assignments of the class name in the parser", n, 2)
}

// R02.14: the renamer for the top level starts with the switch its scope asks for.
func (c *Ctx) r0214(pk *packages.Package) {
	const rule = "R02.14"
	c.R.Rule(rule, "the functions compute the renaming switch from their own scope (`!decl.Body.Scope.HasWith && !m.o.KeepVarNames`); the top level has a scope of its own, whose let/const bindings in blocks are renamed too: `{let abc=1;with(o){abc}}` became `{let e=1;with(o)e}`, and `e` is looked up on o first. Every call of newRenamer passes a switch that consults the HasWith flag of a scope")
	info := pk.TypesInfo
	n := 0
	for _, fd := range load.FuncDecls(pk) {
		if fd.Body == nil {
			continue
		}
		for _, call := range findCalls(info, fd.Body, false, load.Mod+"/js.newRenamer") {
			if len(call.Args) < 1 {
				continue
			}
			n++
			good := false
			ast.Inspect(call.Args[0], func(z ast.Node) bool {
				if sel, ok := z.(*ast.SelectorExpr); ok && sel.Sel.Name == "HasWith" {
					good = true
				}
				if id, ok := z.(*ast.Ident); ok {
					if d := c.singleDef(pk, id); d != nil && strings.Contains(nospace(str(d)), ".HasWith") {
						good = true
					}
				}
				return true
			})
			c.R.Check(good, rule, fmt.Sprintf("js.%s/newRenamer#%d starts with the switch of its scope", load.FuncName(fd), n), c.pos(call), "the switch consults HasWith",
				"the renamer is created with renaming on whatever the scope contains: at the top level `{let abc=1;with(o){abc}}` is printed as `{let e=1;with(o)e}`")
		}
	}
	c.R.Floor(rule, "constructions of a renamer", n, 1)
}
