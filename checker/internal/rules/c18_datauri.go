package rules

import (
	"fmt"
	"go/ast"
	"go/token"
	"go/types"
	"strings"

	"verif/checker/internal/flow"
	"verif/checker/internal/load"
)

// C18 — data URI and media type helpers (claimed in part: the structural clauses only).

func init() {
	mutant(&Mutant{Name: "c18-length-count-stops-on-a-tie", Property: "C18", File: "common.go",
		Old: "\t\tif asciiLen > base64Len {\n\t\t\tbreak\n", New: "\t\tif base64Len <= asciiLen {\n\t\t\tbreak\n",
		Rule: "R18.10", Construct: "early exit#1 of the length count"})
	mutant(&Mutant{Name: "c18-base64-encoded-over-its-own-source", Property: "C18", File: "common.go",
		Old: "encoded := make([]byte, base64Len-len(\";base64\"))", New: "encoded := dataURI[:base64Len-len(\";base64\")]",
		Rule: "R18.9", Construct: "is fresh memory"})
	register(&Property{
		ID:    "C18",
		Level: "other",
		Explain: "What C18 says about decoded byte values and about which encoding is shorter cannot be decided from the shape of the code. Decided here are the clauses of minify.DataURI whose truth is in that shape: " +
			"(R18.1) the default media type text/plain is dropped only as a whole type — behind a test that the byte after it is the end of the media type or a `;`; " +
			"(R18.2) `;charset=us-ascii` is cut out only between parameter boundaries (a `;` before, the end or a `;` after); " +
			"(R18.3) the input is returned unchanged exactly under a comparison of its length with both candidate encodings, and base64 is chosen under a comparison of the two candidate lengths — necessary for `never more bytes than it was given` and `whichever is shorter`; " +
			"(R18.4 = R11.5) the payload's minifier is looked up under the media type as parsed; (R18.5 = R11.1, known finding) the error of the payload minifier; (R18.6 = R11.8, known finding in the dependency) `+` decoded as a space. " +
			"Not decided: the payload round trip per byte value, the choice between encodings as such, minify.Mediatype (quoted strings with escaped quotes are not recognised by it — observation, DESIGN §5).",
		Run: runC18,
	})
	mutant(&Mutant{Name: "c18-mediatype-escaped-quote-ends-string", Property: "C18", File: "common.go",
		Old: "\t\tif escaped {\n\t\t\tescaped = false\n\t\t} else if !inString && parse.IsWhitespace(c) {", New: "\t\tif escaped && c != '\"' {\n\t\t\tescaped = false\n\t\t} else if !inString && parse.IsWhitespace(c) {",
		Rule: "R18.7", Construct: "quote toggles the string state only when not escaped"})
	mutant(&Mutant{Name: "c18-mediatype-lowercase-in-output-coordinates", Property: "C18", File: "common.go",
		Old: "\t\t\t} else {\n\t\t\t\tlower = i + 1\n\t\t\t}\n", New: "\t\t\t} else {\n\t\t\t\tlower = j + (i + 1 - start)\n\t\t\t}\n",
		Rule: "R18.8", Construct: "in input coordinates"})
	mutant(&Mutant{Name: "c18-default-type-cut-as-a-prefix", Property: "C18", File: "common.go",
		Old: "parse.EqualFold(mediatype[:len(\"text/plain\")], textMimeBytes) && (len(mediatype) == len(\"text/plain\") || mediatype[len(\"text/plain\")] == ';') {", New: "parse.EqualFold(mediatype[:len(\"text/plain\")], textMimeBytes) {",
		Rule: "R18.1", Construct: "default media type"})
	mutant(&Mutant{Name: "c18-charset-cut-inside-a-parameter", Property: "C18", File: "common.go",
		Old: " && (i+len(\";charset=us-ascii\") >= len(mediatype) || mediatype[i+len(\";charset=us-ascii\")] == ';') {", New: " {",
		Rule: "R18.2", Construct: "charset"})
	mutant(&Mutant{Name: "c18-original-returned-without-looking-at-base64", Property: "C18", File: "common.go",
		Old: "if len(origData) < base64Len && len(origData) < asciiLen {", New: "if len(origData) < asciiLen {",
		Rule: "R18.3", Construct: "original returned"})
}

func runC18(c *Ctx) {
	const r1, r2, r3 = "R18.1", "R18.2", "R18.3"
	c.R.Rule(r1, "minify.DataURI shortens the media type for output: a leading `text/plain` (any case) is the default and is dropped. It is the default type only when nothing but parameters follow: the reslice `mediatype = mediatype[K:]` behind the comparison with textMimeBytes is dominated by a test that the media type ends there or continues with `;` (`len(mediatype) == K || mediatype[K] == ';'`). A bare prefix test turns `data:text/plainx,abc` into `data:x,abc` and `text/plain2;base64` into `2;base64`")
	c.R.Rule(r2, "the parameter `;charset=us-ascii` is cut out of the media type (`append(mediatype[:i], mediatype[i+K:]...)`) only when it is a whole parameter: dominated by `mediatype[i] == ';'` and by a test that the media type ends after it or continues with `;`")
	c.R.Rule(r3, "the decision what to return compares lengths: `return origData` lies behind comparisons of len(origData) with both the base64 and the percent-encoded candidate length, and the base64 encoding is produced under a comparison of those two candidate lengths")
	pk := c.pkg(r1, "")
	if pk == nil {
		return
	}
	info := pk.TypesInfo
	fd := c.fn(r1, pk, "DataURI")
	if fd == nil {
		return
	}
	g := c.graph(pk, fd)
	// the media type variable: first result of parse.DataURI
	mt := ""
	for _, y := range g.Nodes {
		if as, ok := y.Stmt.(*ast.AssignStmt); ok && y.Kind == flow.KStmt && len(as.Rhs) == 1 && len(as.Lhs) >= 2 {
			if isCall(info, ast.Unparen(as.Rhs[0]), load.ParseMod+".DataURI") != nil {
				mt = nospace(str(as.Lhs[0]))
			}
		}
	}
	if mt == "" {
		c.R.Unres(r1, "minify.DataURI/media type", c.pos(fd), "the variable bound to the first result of parse.DataURI was not found")
		return
	}
	n1, n2 := 0, 0
	for _, y := range g.Nodes {
		as, ok := y.Stmt.(*ast.AssignStmt)
		if !ok || y.Kind != flow.KStmt || len(as.Lhs) != 1 || len(as.Rhs) != 1 || nospace(str(as.Lhs[0])) != mt {
			continue
		}
		rhs := ast.Unparen(as.Rhs[0])
		// R18.1: mediatype = mediatype[K:]
		if se, ok := rhs.(*ast.SliceExpr); ok && nospace(str(se.X)) == mt && se.Low != nil && se.High == nil {
			underDefault := false
			boundary := false
			for _, f := range g.DomFacts(y) {
				if !f.Value || f.Test.Kind != flow.KCond {
					continue
				}
				s := nospace(str(f.Test.Expr))
				if strings.Contains(s, "textMimeBytes") {
					underDefault = true
				}
			}
			if !underDefault {
				continue
			}
			n1++
			// the boundary test is a disjunction: no single dominating outcome — every path from the prefix comparison to the
			// reslice passes a test of len(mt) == K or mt[K] == ';'
			K := nospace(str(se.Low))
			isBoundary := func(q *flow.Node) bool {
				if q.Kind != flow.KCond {
					return false
				}
				s := nospace(str(q.Expr))
				return s == "len("+mt+")=="+K || s == K+"==len("+mt+")" || strings.HasPrefix(s, mt+"["+K+"]==") || strings.HasSuffix(s, "=="+mt+"["+K+"]")
			}
			var from []*flow.Node
			for _, q := range g.Nodes {
				if q.Kind == flow.KTrue && q.Of != nil && q.Of.Kind == flow.KCond && strings.Contains(nospace(str(q.Of.Expr)), "textMimeBytes") {
					from = append(from, q)
				}
			}
			p := g.Path(flow.Search{From: from, Goal: func(q *flow.Node) bool { return q == y }, Avoid: isBoundary})
			boundary = p == nil && len(from) > 0
			c.R.Check(boundary, r1, fmt.Sprintf("minify.DataURI/default media type dropped as a whole#%d", n1), c.pos(as), "behind len("+mt+") == K || "+mt+"[K] == ';'", "the first "+K+" bytes are cut off whenever they spell text/plain, whatever follows: `data:text/plainx,abc` becomes `data:x,abc` — another media type")
		}
		// R18.2: mediatype = append(mediatype[:i], mediatype[i+K:]...)
		if call, ok := rhs.(*ast.CallExpr); ok && str(call.Fun) == "append" && len(call.Args) == 2 && call.Ellipsis.IsValid() {
			a0, ok0 := ast.Unparen(call.Args[0]).(*ast.SliceExpr)
			a1, ok1 := ast.Unparen(call.Args[1]).(*ast.SliceExpr)
			if !ok0 || !ok1 || nospace(str(a0.X)) != mt || nospace(str(a1.X)) != mt || a0.High == nil || a1.Low == nil {
				continue
			}
			n2++
			i := nospace(str(a0.High))
			after := nospace(str(a1.Low))
			startOK, endOK := false, false
			for _, f := range g.DomFacts(y) {
				if !f.Value || f.Test.Kind != flow.KCond {
					continue
				}
				s := nospace(str(f.Test.Expr))
				if s == mt+"["+i+"]==';'" || s == "';'=="+mt+"["+i+"]" {
					startOK = true
				}
			}
			isEnd := func(q *flow.Node) bool {
				if q.Kind != flow.KCond {
					return false
				}
				s := nospace(str(q.Expr))
				return strings.Contains(s, mt+"["+after+"]") && strings.Contains(s, "';'") || strings.Contains(s, "len("+mt+")") && strings.Contains(s, after) && (strings.Contains(s, "<=") || strings.Contains(s, ">=") || strings.Contains(s, "=="))
			}
			var from []*flow.Node
			for _, q := range g.Nodes {
				if q.Kind == flow.KTrue && q.Of != nil && q.Of.Kind == flow.KCond && strings.Contains(nospace(str(q.Of.Expr)), "charsetASCIIBytes") {
					from = append(from, q)
				}
			}
			p := g.Path(flow.Search{From: from, Goal: func(q *flow.Node) bool { return q == y }, Avoid: isEnd})
			endOK = p == nil && len(from) > 0
			c.R.Check(startOK && endOK, r2, fmt.Sprintf("minify.DataURI/charset parameter cut out between boundaries#%d", n2), c.pos(as), "`;` before, end or `;` after", fmt.Sprintf("the bytes are removed without both boundary tests (start %v, end %v): `;charset=us-asciix` or `;xcharset=us-ascii` would be mutilated", startOK, endOK))
		}
	}
	c.R.Floor(r1, "default media type cuts", n1, 1)
	c.R.Floor(r2, "charset parameter cuts", n2, 1)
	// R18.3
	orig := ""
	for _, y := range g.Nodes {
		if as, ok := y.Stmt.(*ast.AssignStmt); ok && y.Kind == flow.KStmt && len(as.Lhs) == 1 && len(as.Rhs) == 1 {
			if isCall(info, ast.Unparen(as.Rhs[0]), load.ParseMod+".Copy") != nil {
				orig = nospace(str(as.Lhs[0]))
			}
		}
	}
	n3 := 0
	for _, y := range g.Nodes {
		rs := retStmt(y)
		if rs == nil || len(rs.Results) != 1 || orig == "" || nospace(str(rs.Results[0])) != orig {
			continue
		}
		n3++
		var lens []string
		for _, f := range g.DomFacts(y) {
			if f.Value && f.Test.Kind == flow.KCond {
				if be, ok := ast.Unparen(f.Test.Expr).(*ast.BinaryExpr); ok && (be.Op == token.LSS || be.Op == token.LEQ) && nospace(str(be.X)) == "len("+orig+")" {
					lens = append(lens, nospace(str(be.Y)))
				}
			}
		}
		c.R.Check(len(lens) >= 2, r3, fmt.Sprintf("minify.DataURI/original returned only when shorter than both encodings#%d", n3), c.pos(rs), "compared with "+strings.Join(lens, " and "), fmt.Sprintf("the input is returned unchanged under %d length comparison(s) (%s): it must be shorter than the base64 and than the percent-encoded candidate, otherwise a longer form than necessary — or than the input — can be returned", len(lens), strings.Join(lens, ", ")))
	}
	c.R.Floor(r3, "returns of the unchanged input", n3, 1)
	// base64 chosen under a comparison of the two candidate lengths
	for _, y := range g.Nodes {
		a := y.Ast()
		if a == nil || y.Kind != flow.KStmt || len(findCalls(info, a, false, "encoding/base64.(Encoding).Encode")) == 0 {
			continue
		}
		good := false
		for _, f := range g.DomFacts(y) {
			if f.Test.Kind == flow.KCond {
				if be, ok := ast.Unparen(f.Test.Expr).(*ast.BinaryExpr); ok && (be.Op == token.LSS || be.Op == token.LEQ) {
					if _, isK := intConst(info, be.X); !isK {
						if _, isK2 := intConst(info, be.Y); !isK2 && !strings.Contains(str(be), orig) {
							good = true
						}
					}
				}
			}
		}
		c.R.Check(good, r3, "minify.DataURI/base64 chosen by comparing the candidate lengths", c.pos(a), "under a comparison of two computed lengths", "the payload is base64-encoded without comparing the length of that form with the percent-encoded one")
	}
	// cross-listed
	c.alsoUnder(map[string]string{"R11.5": "R18.4", "R11.1": "R18.5", "R11.8": "R18.6"}, func(construct string) bool {
		return strings.Contains(construct, "minify.DataURI") || strings.Contains(construct, "parse.DecodeURL") || strings.HasPrefix(construct, "floor/")
	}, func() {
		c.r111()
		c.r115()
		c.r118()
	})
	c.r187()
	c.r189()
	c.r1810()
	c.r1111("R18.11")
	c.r1812()
	c.r1813()
}

// R18.7 / R18.8: Mediatype finds the quoted strings and leaves them alone.
func (c *Ctx) r187() {
	const r7, r8 = "R18.7", "R18.8"
	c.R.Rule(r7, "inside a quoted-string of a media type a backslash escapes the next byte (RFC 7231 quoted-pair), so `\\\"` does not end the string and `\\\\\"` does. minify.Mediatype decides with one flag whether a quote toggles the in-string state: every statement `inString = !inString` is dominated by the false outcome of a test of a boolean escape flag, and that flag is set only by an assignment whose condition (its right-hand side, or the tests dominating `= true`) conjoins `c == '\\\\'`, the in-string state and the negated flag. A look-behind at the previous byte cannot tell the two cases apart; no escape handling at all takes `\\\"` for the end of the string, and what follows is lower-cased and loses its spaces")
	c.R.Rule(r8, "minify.Mediatype compacts in place: bytes are moved to the output cursor only when white space is met, until then they sit at their input positions. Every slice handed to parse.ToLower therefore has bounds in input coordinates — built from the loop index and constants, through variables that are only ever assigned such values — and does not mention a variable that is advanced by a copy. A bound in output coordinates applied to bytes that were not moved yet reaches into a string: `a  =  \"ABCDEF\";b=\"x\"` became `a=\"ABCdef\";b=\"x\"`")
	pk := c.pkg(r7, "")
	if pk == nil {
		return
	}
	info := pk.TypesInfo
	fd := c.fn(r7, pk, "Mediatype")
	if fd == nil {
		return
	}
	g := c.graph(pk, fd)
	// --- R18.7
	var toggles []*flow.Node
	for _, y := range g.Nodes {
		as, ok := y.Stmt.(*ast.AssignStmt)
		if !ok || y.Kind != flow.KStmt || len(as.Lhs) != 1 || len(as.Rhs) != 1 {
			continue
		}
		if u, ok := ast.Unparen(as.Rhs[0]).(*ast.UnaryExpr); ok && u.Op == token.NOT && nospace(str(u.X)) == nospace(str(as.Lhs[0])) {
			toggles = append(toggles, y)
		}
	}
	if len(toggles) == 0 {
		c.R.Unres(r7, "minify.Mediatype/in-string toggle", c.pos(fd), "no statement `x = !x` found")
	}
	isBoolVar := func(e ast.Expr) types.Object {
		id, ok := ast.Unparen(e).(*ast.Ident)
		if !ok {
			return nil
		}
		o := info.Uses[id]
		if o == nil {
			return nil
		}
		if bt, ok := o.Type().Underlying().(*types.Basic); ok && bt.Info()&types.IsBoolean != 0 {
			return o
		}
		return nil
	}
	for i, y := range toggles {
		state := info.Uses[y.Stmt.(*ast.AssignStmt).Lhs[0].(*ast.Ident)]
		var flag types.Object
		for _, f := range g.DomFacts(y) {
			if f.Test.Kind != flow.KCond || f.Value {
				continue
			}
			if o := isBoolVar(f.Test.Expr); o != nil && o != state {
				flag = o
			}
		}
		good := false
		why := "the toggle is not behind the false outcome of an escape flag"
		if flag != nil {
			// every assignment of the flag that can make it true
			sets, okSets := 0, 0
			for _, z := range g.Nodes {
				as, ok := z.Stmt.(*ast.AssignStmt)
				if !ok || z.Kind != flow.KStmt {
					continue
				}
				for k, l := range as.Lhs {
					id, ok := l.(*ast.Ident)
					if !ok || (info.Uses[id] != flag && info.Defs[id] != flag) || k >= len(as.Rhs) {
						continue
					}
					rhs := nospace(str(as.Rhs[k]))
					if rhs == "false" {
						continue
					}
					sets++
					// the conjuncts under which the flag becomes true: of the right-hand side, or of the dominating tests
					type lit struct {
						e   ast.Expr
						pos bool
					}
					var lits []lit
					var split func(e ast.Expr, pos bool)
					split = func(e ast.Expr, pos bool) {
						e = ast.Unparen(e)
						if be, ok := e.(*ast.BinaryExpr); ok && be.Op == token.LAND && pos {
							split(be.X, pos)
							split(be.Y, pos)
							return
						}
						if u, ok := e.(*ast.UnaryExpr); ok && u.Op == token.NOT {
							split(u.X, !pos)
							return
						}
						lits = append(lits, lit{e, pos})
					}
					if rhs == "true" {
						for _, f := range g.DomFacts(z) {
							if f.Test.Kind == flow.KCond {
								split(f.Test.Expr, f.Value)
							}
						}
					} else {
						split(as.Rhs[k], true)
					}
					hasBackslash, hasState, hasNotFlag := false, false, false
					for _, l := range lits {
						if id, ok := l.e.(*ast.Ident); ok {
							if info.Uses[id] == state && l.pos {
								hasState = true
							}
							if info.Uses[id] == flag && !l.pos {
								hasNotFlag = true
							}
						}
						if be, ok := l.e.(*ast.BinaryExpr); ok && be.Op == token.EQL && l.pos {
							for _, side := range []ast.Expr{be.X, be.Y} {
								if tv, ok := info.Types[side]; ok && tv.Value != nil && tv.Value.ExactString() == "92" {
									hasBackslash = true
								}
							}
						}
					}
					if hasBackslash && hasState && hasNotFlag {
						okSets++
					}
				}
			}
			good = sets > 0 && sets == okSets
			why = fmt.Sprintf("the escape flag %s is set by %d assignment(s), %d of them under `c == '\\' && %s && !%s`", flag.Name(), sets, okSets, state.Name(), flag.Name())
		}
		c.R.Check(good, r7, fmt.Sprintf("minify.Mediatype/quote toggles the string state only when not escaped#%d", i+1), c.pos(y.Ast()), why, why+": an escaped quote inside a quoted-string (`a=\"x\\\"Y z\"`) ends the string for the minifier, so the rest of the value is lower-cased and stripped of spaces — or, with a look-behind at one byte, `\"…\\\\\"` is not seen as closed and the following strings are rewritten")
	}
	// --- R18.8
	moved := map[types.Object]bool{} // advanced by a copy
	ast.Inspect(fd.Body, func(x ast.Node) bool {
		as, ok := x.(*ast.AssignStmt)
		if !ok {
			return true
		}
		for k, l := range as.Lhs {
			if id, ok := l.(*ast.Ident); ok && k < len(as.Rhs) && len(findCalls(info, as.Rhs[k], false, "copy")) > 0 {
				if o := info.Uses[id]; o != nil {
					moved[o] = true
				}
			}
		}
		return true
	})
	// transitive: variables assigned from expressions mentioning a moved variable
	mentionsMoved := func(e ast.Node) string {
		hit := ""
		ast.Inspect(e, func(x ast.Node) bool {
			if id, ok := x.(*ast.Ident); ok && moved[info.Uses[id]] {
				hit = id.Name
			}
			return true
		})
		return hit
	}
	for changed := true; changed; {
		changed = false
		ast.Inspect(fd.Body, func(x ast.Node) bool {
			as, ok := x.(*ast.AssignStmt)
			if !ok {
				return true
			}
			for k, l := range as.Lhs {
				id, ok := l.(*ast.Ident)
				if !ok || k >= len(as.Rhs) {
					continue
				}
				o := info.Uses[id]
				if o == nil {
					o = info.Defs[id]
				}
				if o != nil && !moved[o] && mentionsMoved(as.Rhs[k]) != "" {
					moved[o] = true
					changed = true
				}
			}
			return true
		})
	}
	n8 := 0
	ast.Inspect(fd.Body, func(x ast.Node) bool {
		call, ok := x.(*ast.CallExpr)
		if !ok || calleeName(info, call) != load.ParseMod+".ToLower" || len(call.Args) != 1 {
			return true
		}
		n8++
		bad := mentionsMoved(call.Args[0])
		c.R.Check(bad == "", r8, fmt.Sprintf("minify.Mediatype/ToLower(%s) in input coordinates#%d", nospace(str(call.Args[0])), n8), c.pos(call), "bounds from the loop index only", "the range `"+str(call.Args[0])+"` depends on "+bad+", which counts bytes already moved to the front: applied to bytes that still sit at their input positions it reaches into a quoted string (`a  =  \"ABCDEF\";b=\"x\"` → `a=\"ABCdef\";b=\"x\"`)")
		return true
	})
	c.R.Floor(r8, "ToLower calls of Mediatype", n8, 2)
}

// R18.12: the candidate lengths are those of the payload that is encoded.
func (c *Ctx) r1812() {
	const rule = "R18.12"
	c.R.Rule(rule, "minify.DataURI chooses between the unchanged input, the base64 and the percent encoding by comparing lengths it computed from the payload (`base64Len := … EncodedLen(len(data))`, `asciiLen := len(data)` plus two per escaped byte). A length is that of the payload only as long as the payload variable is not assigned again: for every local that is defined from len(V) of a byte slice V and read later, no path leads from the definition through an assignment of V to a read without passing a new definition from len(V). Computing base64Len in front of the payload's minifier compared the length of the unminified payload and chose the longer encoding")
	pk := c.pkg(rule, "")
	if pk == nil {
		return
	}
	info := pk.TypesInfo
	fd := c.fn(rule, pk, "DataURI")
	if fd == nil {
		return
	}
	g := c.graph(pk, fd)
	// lenOf returns the byte slice variables V for which e contains len(V)
	lenOf := func(e ast.Node) []types.Object {
		var out []types.Object
		ast.Inspect(e, func(z ast.Node) bool {
			ce, ok := z.(*ast.CallExpr)
			if !ok || len(ce.Args) != 1 {
				return true
			}
			if id, ok := ce.Fun.(*ast.Ident); !ok || id.Name != "len" {
				return true
			}
			if a, ok := ast.Unparen(ce.Args[0]).(*ast.Ident); ok {
				if v, ok := info.Uses[a].(*types.Var); ok && !v.IsField() && v.Parent() != pk.Types.Scope() {
					if sl, ok := v.Type().Underlying().(*types.Slice); ok && isByteType(sl.Elem()) {
						out = append(out, v)
					}
				}
			}
			return true
		})
		return out
	}
	objOf := func(e ast.Expr) types.Object {
		id, ok := ast.Unparen(e).(*ast.Ident)
		if !ok {
			return nil
		}
		if o := info.Defs[id]; o != nil {
			return o
		}
		return info.Uses[id]
	}
	assigns := func(y *flow.Node, o types.Object) (ast.Expr, bool) {
		if y.Kind != flow.KStmt {
			return nil, false
		}
		as, ok := y.Stmt.(*ast.AssignStmt)
		if !ok {
			return nil, false
		}
		for i, l := range as.Lhs {
			if objOf(l) == o {
				if len(as.Lhs) == len(as.Rhs) {
					return as.Rhs[i], true
				}
				return as.Rhs[0], true
			}
		}
		return nil, false
	}
	reads := func(y *flow.Node, o types.Object) bool {
		a := y.Ast()
		if a == nil {
			return false
		}
		hit := false
		skip := map[ast.Node]bool{}
		if as, ok := a.(*ast.AssignStmt); ok && (as.Tok == token.ASSIGN || as.Tok == token.DEFINE) {
			for _, l := range as.Lhs {
				skip[l] = true
			}
		}
		ast.Inspect(a, func(z ast.Node) bool {
			if skip[z] {
				return false
			}
			if id, ok := z.(*ast.Ident); ok && info.Uses[id] == o {
				hit = true
			}
			return !hit
		})
		return hit
	}
	n := 0
	for _, d := range g.Nodes {
		as, ok := d.Stmt.(*ast.AssignStmt)
		if !ok || d.Kind != flow.KStmt || len(as.Lhs) != 1 || len(as.Rhs) != 1 || (as.Tok != token.ASSIGN && as.Tok != token.DEFINE) {
			continue
		}
		L := objOf(as.Lhs[0])
		if L == nil || !isIntType(L.Type()) {
			continue
		}
		for _, V := range lenOf(as.Rhs[0]) {
			n++
			isRefresh := func(q *flow.Node) bool {
				rhs, ok := assigns(q, L)
				if !ok || q == d {
					return false
				}
				for _, v2 := range lenOf(rhs) {
					if v2 == V {
						return true
					}
				}
				return false
			}
			var bad []string
			for _, a := range g.Nodes {
				if _, ok := assigns(a, V); !ok || a == d {
					continue
				}
				p1 := g.Path(flow.Search{From: []*flow.Node{d}, Goal: func(q *flow.Node) bool { return q == a }, Avoid: isRefresh})
				if p1 == nil {
					continue
				}
				p2 := g.Path(flow.Search{From: []*flow.Node{a}, Goal: func(q *flow.Node) bool { return q != a && q != d && reads(q, L) }, Avoid: func(q *flow.Node) bool { return isRefresh(q) || q == d }})
				if p2 != nil {
					bad = append(bad, fmt.Sprintf("%s assigned at %s, %s read at %s", V.Name(), c.pos(a.Stmt), L.Name(), c.pos(p2[len(p2)-1].Ast())))
				}
			}
			c.R.Check(len(bad) == 0, rule, fmt.Sprintf("minify.DataURI/length#%d is the length of the payload it is compared for", n), c.pos(as), "no assignment of the payload between the definition and a read",
				"a length computed from the payload is read after the payload was assigned again ("+strings.Join(bad, "; ")+"): the encodings are compared by the size of bytes that are not the ones that are written, and the longer encoding can be chosen")
		}
	}
	c.R.Floor(rule, "lengths computed from the payload", n, 2)
}

// R18.13: the percent-encoded length is counted with the table the encoder uses.
func (c *Ctx) r1813() {
	const rule = "R18.13"
	c.R.Rule(rule, "minify.DataURI predicts the length of the percent-encoded payload by counting, per byte, two more when a table says the byte is escaped, and later encodes with parse.EncodeURL(data, table). The prediction is the encoder's length only when both use the same table: counting with a table that also marks the apostrophe chose base64 for SVG payloads with single-quoted attributes although the percent encoding was shorter. Every table indexed with the loop byte in a range over the payload is the object that is handed to parse.EncodeURL")
	pk := c.pkg(rule, "")
	if pk == nil {
		return
	}
	info := pk.TypesInfo
	fd := c.fn(rule, pk, "DataURI")
	if fd == nil {
		return
	}
	objOfExpr := func(e ast.Expr) types.Object {
		switch v := ast.Unparen(e).(type) {
		case *ast.Ident:
			return info.Uses[v]
		case *ast.SelectorExpr:
			return info.Uses[v.Sel]
		}
		return nil
	}
	var enc []types.Object
	for _, call := range findCalls(info, fd.Body, false, load.ParseMod+".EncodeURL") {
		if len(call.Args) == 2 {
			if o := objOfExpr(call.Args[1]); o != nil {
				enc = append(enc, o)
			}
		}
	}
	if len(enc) == 0 {
		c.R.Unres(rule, "minify.DataURI/encoder table", c.pos(fd), "no call parse.EncodeURL(data, table) found")
		return
	}
	n := 0
	ast.Inspect(fd.Body, func(x ast.Node) bool {
		rs, ok := x.(*ast.RangeStmt)
		if !ok || rs.Value == nil {
			return true
		}
		vid, ok := rs.Value.(*ast.Ident)
		if !ok {
			return true
		}
		loopByte := info.Defs[vid]
		ast.Inspect(rs.Body, func(z ast.Node) bool {
			ix, ok := z.(*ast.IndexExpr)
			if !ok {
				return true
			}
			iid, ok := ast.Unparen(ix.Index).(*ast.Ident)
			if !ok || info.Uses[iid] != loopByte {
				return true
			}
			if arr, ok := info.TypeOf(ix.X).Underlying().(*types.Array); !ok || !isBoolType(arr.Elem()) {
				return true
			}
			n++
			same := false
			for _, o := range enc {
				if objOfExpr(ix.X) == o {
					same = true
				}
			}
			c.R.Check(same, rule, fmt.Sprintf("minify.DataURI/escape table of the length count#%d is the encoder's", n), c.pos(ix), "the same object as the second argument of parse.EncodeURL",
				"the percent-encoded length is predicted with "+str(ix.X)+" while the payload is encoded with another table: the prediction is not the length that is written, and the longer encoding can be chosen or the input returned longer than given")
			return true
		})
		return true
	})
	c.R.Floor(rule, "table look-ups in the length count", n, 1)
}

func isBoolType(t types.Type) bool {
	b, ok := t.Underlying().(*types.Basic)
	return ok && b.Kind() == types.Bool
}
