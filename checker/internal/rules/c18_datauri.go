package rules

import (
	"fmt"
	"go/ast"
	"go/token"
	"strings"

	"verif/checker/internal/flow"
	"verif/checker/internal/load"
)

// C18 — data URI and media type helpers (claimed in part: the structural clauses only).

func init() {
	register(&Property{
		ID:    "C18",
		Level: "other",
		Explain: "What C18 says about decoded byte values and about which encoding is shorter cannot be decided from the shape of the code. Decided here are the clauses of minify.DataURI whose truth is in that shape: " +
			"(R18.1) the default media type text/plain is dropped only as a whole type — behind a test that the byte after it is the end of the media type or a `;`; " +
			"(R18.2) `;charset=us-ascii` is cut out only between parameter boundaries (a `;` before, the end or a `;` after); " +
			"(R18.3) the input is returned unchanged exactly under a comparison of its length with both candidate encodings, and base64 is chosen under a comparison of the two candidate lengths — necessary for `never more bytes than it was given` and `whichever is shorter`; " +
			"(R18.4 = R11.5) the payload's minifier is looked up under the media type as parsed; (R18.5 = R11.1, known finding) the error of the payload minifier; (R18.6 = R11.8, known finding in the dependency) `+` decoded as a space. " +
			"Not decided: the payload round trip per byte value, the choice between encodings as such, minify.Mediatype (quoted strings with escaped quotes are not recognised by it — observation, DESIGN §5).",
		Run: runC18,
	})
	mutant(&Mutant{Name: "c18-default-type-cut-as-a-prefix", Property: "C18", File: "common.go",
		Old: "parse.EqualFold(mediatype[:len(\"text/plain\")], textMimeBytes) && (len(mediatype) == len(\"text/plain\") || mediatype[len(\"text/plain\")] == ';') {", New: "parse.EqualFold(mediatype[:len(\"text/plain\")], textMimeBytes) {",
		Rule: "R18.1", Construct: "default media type"})
	mutant(&Mutant{Name: "c18-charset-cut-inside-a-parameter", Property: "C18", File: "common.go",
		Old: " && (i+len(\";charset=us-ascii\") >= len(mediatype) || mediatype[i+len(\";charset=us-ascii\")] == ';') {", New: " {",
		Rule: "R18.2", Construct: "charset"})
	mutant(&Mutant{Name: "c18-original-returned-without-looking-at-base64", Property: "C18", File: "common.go",
		Old: "if len(origData) < base64Len && len(origData) < asciiLen {", New: "if len(origData) < asciiLen {",
		Rule: "R18.3", Construct: "original returned"})
}

func runC18(c *Ctx) {
	const r1, r2, r3 = "R18.1", "R18.2", "R18.3"
	c.R.Rule(r1, "minify.DataURI shortens the media type for output: a leading `text/plain` (any case) is the default and is dropped. It is the default type only when nothing but parameters follow: the reslice `mediatype = mediatype[K:]` behind the comparison with textMimeBytes is dominated by a test that the media type ends there or continues with `;` (`len(mediatype) == K || mediatype[K] == ';'`). A bare prefix test turns `data:text/plainx,abc` into `data:x,abc` and `text/plain2;base64` into `2;base64`")
	c.R.Rule(r2, "the parameter `;charset=us-ascii` is cut out of the media type (`append(mediatype[:i], mediatype[i+K:]...)`) only when it is a whole parameter: dominated by `mediatype[i] == ';'` and by a test that the media type ends after it or continues with `;`")
	c.R.Rule(r3, "the decision what to return compares lengths: `return origData` lies behind comparisons of len(origData) with both the base64 and the percent-encoded candidate length, and the base64 encoding is produced under a comparison of those two candidate lengths")
	pk := c.pkg(r1, "")
	if pk == nil {
		return
	}
	info := pk.TypesInfo
	fd := c.fn(r1, pk, "DataURI")
	if fd == nil {
		return
	}
	g := c.graph(pk, fd)
	// the media type variable: first result of parse.DataURI
	mt := ""
	for _, y := range g.Nodes {
		if as, ok := y.Stmt.(*ast.AssignStmt); ok && y.Kind == flow.KStmt && len(as.Rhs) == 1 && len(as.Lhs) >= 2 {
			if isCall(info, ast.Unparen(as.Rhs[0]), load.ParseMod+".DataURI") != nil {
				mt = nospace(str(as.Lhs[0]))
			}
		}
	}
	if mt == "" {
		c.R.Unres(r1, "minify.DataURI/media type", c.pos(fd), "the variable bound to the first result of parse.DataURI was not found")
		return
	}
	n1, n2 := 0, 0
	for _, y := range g.Nodes {
		as, ok := y.Stmt.(*ast.AssignStmt)
		if !ok || y.Kind != flow.KStmt || len(as.Lhs) != 1 || len(as.Rhs) != 1 || nospace(str(as.Lhs[0])) != mt {
			continue
		}
		rhs := ast.Unparen(as.Rhs[0])
		// R18.1: mediatype = mediatype[K:]
		if se, ok := rhs.(*ast.SliceExpr); ok && nospace(str(se.X)) == mt && se.Low != nil && se.High == nil {
			underDefault := false
			boundary := false
			for _, f := range g.DomFacts(y) {
				if !f.Value || f.Test.Kind != flow.KCond {
					continue
				}
				s := nospace(str(f.Test.Expr))
				if strings.Contains(s, "textMimeBytes") {
					underDefault = true
				}
			}
			if !underDefault {
				continue
			}
			n1++
			// the boundary test is a disjunction: no single dominating outcome — every path from the prefix comparison to the
			// reslice passes a test of len(mt) == K or mt[K] == ';'
			K := nospace(str(se.Low))
			isBoundary := func(q *flow.Node) bool {
				if q.Kind != flow.KCond {
					return false
				}
				s := nospace(str(q.Expr))
				return s == "len("+mt+")=="+K || s == K+"==len("+mt+")" || strings.HasPrefix(s, mt+"["+K+"]==") || strings.HasSuffix(s, "=="+mt+"["+K+"]")
			}
			var from []*flow.Node
			for _, q := range g.Nodes {
				if q.Kind == flow.KTrue && q.Of != nil && q.Of.Kind == flow.KCond && strings.Contains(nospace(str(q.Of.Expr)), "textMimeBytes") {
					from = append(from, q)
				}
			}
			p := g.Path(flow.Search{From: from, Goal: func(q *flow.Node) bool { return q == y }, Avoid: isBoundary})
			boundary = p == nil && len(from) > 0
			c.R.Check(boundary, r1, fmt.Sprintf("minify.DataURI/default media type dropped as a whole#%d", n1), c.pos(as), "behind len("+mt+") == K || "+mt+"[K] == ';'", "the first "+K+" bytes are cut off whenever they spell text/plain, whatever follows: `data:text/plainx,abc` becomes `data:x,abc` — another media type")
		}
		// R18.2: mediatype = append(mediatype[:i], mediatype[i+K:]...)
		if call, ok := rhs.(*ast.CallExpr); ok && str(call.Fun) == "append" && len(call.Args) == 2 && call.Ellipsis.IsValid() {
			a0, ok0 := ast.Unparen(call.Args[0]).(*ast.SliceExpr)
			a1, ok1 := ast.Unparen(call.Args[1]).(*ast.SliceExpr)
			if !ok0 || !ok1 || nospace(str(a0.X)) != mt || nospace(str(a1.X)) != mt || a0.High == nil || a1.Low == nil {
				continue
			}
			n2++
			i := nospace(str(a0.High))
			after := nospace(str(a1.Low))
			startOK, endOK := false, false
			for _, f := range g.DomFacts(y) {
				if !f.Value || f.Test.Kind != flow.KCond {
					continue
				}
				s := nospace(str(f.Test.Expr))
				if s == mt+"["+i+"]==';'" || s == "';'=="+mt+"["+i+"]" {
					startOK = true
				}
			}
			isEnd := func(q *flow.Node) bool {
				if q.Kind != flow.KCond {
					return false
				}
				s := nospace(str(q.Expr))
				return strings.Contains(s, mt+"["+after+"]") && strings.Contains(s, "';'") || strings.Contains(s, "len("+mt+")") && strings.Contains(s, after) && (strings.Contains(s, "<=") || strings.Contains(s, ">=") || strings.Contains(s, "=="))
			}
			var from []*flow.Node
			for _, q := range g.Nodes {
				if q.Kind == flow.KTrue && q.Of != nil && q.Of.Kind == flow.KCond && strings.Contains(nospace(str(q.Of.Expr)), "charsetASCIIBytes") {
					from = append(from, q)
				}
			}
			p := g.Path(flow.Search{From: from, Goal: func(q *flow.Node) bool { return q == y }, Avoid: isEnd})
			endOK = p == nil && len(from) > 0
			c.R.Check(startOK && endOK, r2, fmt.Sprintf("minify.DataURI/charset parameter cut out between boundaries#%d", n2), c.pos(as), "`;` before, end or `;` after", fmt.Sprintf("the bytes are removed without both boundary tests (start %v, end %v): `;charset=us-asciix` or `;xcharset=us-ascii` would be mutilated", startOK, endOK))
		}
	}
	c.R.Floor(r1, "default media type cuts", n1, 1)
	c.R.Floor(r2, "charset parameter cuts", n2, 1)
	// R18.3
	orig := ""
	for _, y := range g.Nodes {
		if as, ok := y.Stmt.(*ast.AssignStmt); ok && y.Kind == flow.KStmt && len(as.Lhs) == 1 && len(as.Rhs) == 1 {
			if isCall(info, ast.Unparen(as.Rhs[0]), load.ParseMod+".Copy") != nil {
				orig = nospace(str(as.Lhs[0]))
			}
		}
	}
	n3 := 0
	for _, y := range g.Nodes {
		rs := retStmt(y)
		if rs == nil || len(rs.Results) != 1 || orig == "" || nospace(str(rs.Results[0])) != orig {
			continue
		}
		n3++
		var lens []string
		for _, f := range g.DomFacts(y) {
			if f.Value && f.Test.Kind == flow.KCond {
				if be, ok := ast.Unparen(f.Test.Expr).(*ast.BinaryExpr); ok && (be.Op == token.LSS || be.Op == token.LEQ) && nospace(str(be.X)) == "len("+orig+")" {
					lens = append(lens, nospace(str(be.Y)))
				}
			}
		}
		c.R.Check(len(lens) >= 2, r3, fmt.Sprintf("minify.DataURI/original returned only when shorter than both encodings#%d", n3), c.pos(rs), "compared with "+strings.Join(lens, " and "), fmt.Sprintf("the input is returned unchanged under %d length comparison(s) (%s): it must be shorter than the base64 and than the percent-encoded candidate, otherwise a longer form than necessary — or than the input — can be returned", len(lens), strings.Join(lens, ", ")))
	}
	c.R.Floor(r3, "returns of the unchanged input", n3, 1)
	// base64 chosen under a comparison of the two candidate lengths
	for _, y := range g.Nodes {
		a := y.Ast()
		if a == nil || y.Kind != flow.KStmt || len(findCalls(info, a, false, "encoding/base64.(Encoding).Encode")) == 0 {
			continue
		}
		good := false
		for _, f := range g.DomFacts(y) {
			if f.Test.Kind == flow.KCond {
				if be, ok := ast.Unparen(f.Test.Expr).(*ast.BinaryExpr); ok && (be.Op == token.LSS || be.Op == token.LEQ) {
					if _, isK := intConst(info, be.X); !isK {
						if _, isK2 := intConst(info, be.Y); !isK2 && !strings.Contains(str(be), orig) {
							good = true
						}
					}
				}
			}
		}
		c.R.Check(good, r3, "minify.DataURI/base64 chosen by comparing the candidate lengths", c.pos(a), "under a comparison of two computed lengths", "the payload is base64-encoded without comparing the length of that form with the percent-encoded one")
	}
	// cross-listed
	c.alsoUnder(map[string]string{"R11.5": "R18.4", "R11.1": "R18.5", "R11.8": "R18.6"}, func(construct string) bool {
		return strings.Contains(construct, "minify.DataURI") || strings.Contains(construct, "parse.DecodeURL") || strings.HasPrefix(construct, "floor/")
	}, func() {
		c.r111()
		c.r115()
		c.r118()
	})
}
