package rules

import (
	"fmt"
	"go/ast"
	"go/token"
	"go/types"
	"sort"
	"strings"

	"golang.org/x/tools/go/callgraph"
	"golang.org/x/tools/go/ssa"

	"verif/checker/internal/flow"
	"verif/checker/internal/load"
)

func init() {
	register(&Property{
		ID:    "C13",
		Level: "other",
		Explain: "Races and nondeterminism are schedule-dependent, but each way the code could race is an effect visible in SSA / the CFG: (R13.1) no store through a user-owned *Minifier (stores to Minifier fields must have a fresh allocation of the same function as base) and no store through a reference-typed field of a shallow struct copy of user-owned data; " +
			"(R13.2) no package-level state of the library packages is written outside init, and no package-level slice is passed directly to a parameter that a (transitive, fixpoint) effect summary says may be written through; " +
			"(R13.3) every access to the registry maps/slices is dominated by the mutex (write lock for writes) with the unlock deferred or on all paths, and no registrar is reachable in the VTA call graph from a minifier; " +
			"(R13.4) package-level byte slices used as append bases are len==cap string conversions that are never assigned or resliced at the append; (R13.5) every range over a map has an order-insensitive body and the library calls no clock, random or environment source. " +
			"Not covered: flows of package-level slices through struct fields (stated gap), races inside the dependency, actual schedules.",
		Run: runC13,
	})
	mutant(&Mutant{Name: "c13-command-input-file-shared-between-calls", Property: "C13", File: "minify.go",
		Old: "if in, err = os.CreateTemp(\"\", \"minify-in-*\"+ext); err != nil {", New: "if in, err = os.Create(os.TempDir() + \"/minify-in\" + ext); err != nil {",
		Rule: "R13.8", Construct: "os.Create on a composed name"})
	mutant(&Mutant{Name: "c13-xml-writes-option", Property: "C13", File: "xml/xml.go",
		Old: "\tomitSpace := true // on true the next text token must not start with a space\n", New: "\tomitSpace := true // on true the next text token must not start with a space\n\to.KeepWhitespace = o.KeepWhitespace || false\n",
		Rule: "R13.1", Construct: "xml.(*Minifier).Minify"})
	mutant(&Mutant{Name: "c13-css-no-copy", Property: "C13", File: "css/css.go",
		Old:  "\ttmp := &Minifier{}\n\t*tmp = *o\n\to = tmp\n\n\to.newPrecision = o.Precision\n\tif o.newPrecision <= 0 || 15 < o.newPrecision {\n\t\to.newPrecision = 15 // minimum number of digits a double can represent exactly\n\t}\n\tif !o.Inline {\n\t\to.Inline = params != nil && params[\"inline\"] == \"1\"\n\t}\n\n\tz := parse.NewInput(r)\n\tdefer z.Restore()\n\n\tc := &cssMinifier{",
		New:  "\to.newPrecision = o.Precision\n\tif o.newPrecision <= 0 || 15 < o.newPrecision {\n\t\to.newPrecision = 15 // minimum number of digits a double can represent exactly\n\t}\n\tif !o.Inline {\n\t\to.Inline = params != nil && params[\"inline\"] == \"1\"\n\t}\n\n\tz := parse.NewInput(r)\n\tdefer z.Restore()\n\n\tc := &cssMinifier{",
		Rule: "R13.1", Construct: "css.(*Minifier).Minify"})
	mutant(&Mutant{Name: "c13-global-scratch-buffer", Property: "C13", File: "json/json.go",
		Old: "\tskipComma := true\n", New: "\tskipComma := true\n\tzeroBytes[0] = '0'\n",
		Rule: "R13.2", Construct: "json.zeroBytes"})
	mutant(&Mutant{Name: "c13-global-lowercased", Property: "C13", File: "html/html.go",
		Old: "\tomitSpace := true // if true the next leading space is omitted\n", New: "\tomitSpace := true // if true the next leading space is omitted\n\tparse.ToLower(jsMimeBytes)\n",
		Rule: "R13.2", Construct: "html.jsMimeBytes"})
	mutant(&Mutant{Name: "c13-match-unlocked", Property: "C13", File: "minify.go",
		Old: "func (m *M) Match(mediatype string) (string, map[string]string, MinifierFunc) {\n\tm.mutex.RLock()\n\tdefer m.mutex.RUnlock()\n", New: "func (m *M) Match(mediatype string) (string, map[string]string, MinifierFunc) {\n",
		Rule: "R13.3", Construct: "M.Match"})
	mutant(&Mutant{Name: "c13-registry-written-under-read-lock", Property: "C13", File: "minify.go",
		Old: "\tm.mutex.RLock()\n\tdefer m.mutex.RUnlock()\n\n\tmimetype, params := parse.Mediatype([]byte(mediatype))\n", New: "\tm.mutex.RLock()\n\tdefer m.mutex.RUnlock()\n\n\tdelete(m.literal, \"\")\n\tmimetype, params := parse.Mediatype([]byte(mediatype))\n",
		Rule: "R13.3", Construct: "M.Match"})
	mutant(&Mutant{Name: "c13-add-read-lock", Property: "C13", File: "minify.go",
		Old: "func (m *M) AddFunc(mimetype string, minifier MinifierFunc) {\n\tm.mutex.Lock()\n\tm.literal[mimetype] = minifier\n\tm.mutex.Unlock()", New: "func (m *M) AddFunc(mimetype string, minifier MinifierFunc) {\n\tm.mutex.RLock()\n\tm.literal[mimetype] = minifier\n\tm.mutex.RUnlock()",
		Rule: "R13.3", Construct: "M.AddFunc"})
	mutant(&Mutant{Name: "c13-append-base-resliced", Property: "C13", File: "common.go",
		Old: "append(dataBytes, ", New: "append(dataBytes[:4], ",
		Rule: "R13.4", Construct: "dataBytes"})
	mutant(&Mutant{Name: "c13-shared-scratch-buffer", Property: "C13", File: "json/json.go",
		Old: "var (\n\tcommaBytes", New: "var scratch = minify.New()\n\nvar (\n\tcommaBytes",
		Rule: "R13.6", Construct: "json.scratch"})
	mutant(&Mutant{Name: "c13-html-global-inline-params", Property: "C13", File: "html/html.go",
		Old: "\tinlineParams := map[string]string{\"inline\": \"1\"} // per call: minifiers may edit the parameters they receive\n", New: "",
		Old2: "var GoTemplateDelims = ", New2: "var inlineParams = map[string]string{\"inline\": \"1\"}\n\nvar GoTemplateDelims = ",
		Rule: "R13.7", Construct: "params handed to a minifier"})
	mutant(&Mutant{Name: "c13-mediatype-cache-shares-params", Property: "C13", File: "minify.go",
		Old: "\tmimetype, params := parse.Mediatype([]byte(mediatype))\n\tif minifier, ok := m.literal[string(mimetype)]; ok {", New: "\tmimetype, params := parse.Mediatype([]byte(mediatype))\n\tif v, ok := mediatypeCache.LoadOrStore(mediatype, params); ok {\n\t\tparams = v.(map[string]string)\n\t}\n\tif minifier, ok := m.literal[string(mimetype)]; ok {",
		Old2: "type M struct {", New2: "var mediatypeCache sync.Map\n\ntype M struct {",
		Rule: "R13.7", Construct: "Match"})
	mutant(&Mutant{Name: "c13-pooled-writer-read-after-release", Property: "C13", File: "minify.go",
		Old: "\tout := buffer.NewWriter(make([]byte, 0, len(v)))\n\tif err := m.Minify(mediatype, out, buffer.NewReader([]byte(v))); err != nil {\n\t\treturn v, err\n\t}\n\treturn string(out.Bytes()), nil", New: "\tout := writerPool.Get().(*buffer.Writer)\n\tout.Reset()\n\tif err := m.Minify(mediatype, out, buffer.NewReader([]byte(v))); err != nil {\n\t\twriterPool.Put(out)\n\t\treturn v, err\n\t}\n\tb := out.Bytes()\n\twriterPool.Put(out)\n\treturn string(b), nil",
		Old2: "type M struct {", New2: "var writerPool = sync.Pool{New: func() interface{} { return buffer.NewWriter(make([]byte, 0, 64)) }}\n\ntype M struct {",
		Rule: "R13.6", Construct: "used after it is given back"})
	mutant(&Mutant{Name: "c13-env-dependent", Property: "C13", File: "minify.go",
		Old: "\tmimetype, params := parse.Mediatype([]byte(mediatype))\n\treturn m.MinifyMimetype(", New: "\tif os.Getenv(\"MINIFY_DISABLE\") != \"\" {\n\t\tmediatype = \"\"\n\t}\n\tmimetype, params := parse.Mediatype([]byte(mediatype))\n\treturn m.MinifyMimetype(",
		Rule: "R13.5", Construct: "minify/no clock"})
}

func runC13(c *Ctx) {
	c.r131()
	c.r132()
	c.r133()
	c.r134()
	c.r135()
	c.r136()
	c.r137()
	c.r138()
	c.r139()
	c.r1310()
	c.r1311()
}

// R13.6: pooled / shared scratch objects do not escape.
func (c *Ctx) r136() {
	const rule = "R13.6"
	c.R.Rule(rule, "library packages: an object obtained from a sync.Pool (or any package-level pool / free list reached through a method call on a package-level variable) that the function gives back with Put must not be reachable from the function's results or be stored into memory that outlives the call, and nothing derived from it (a slice of its bytes, a view returned by one of its methods) may be used after the release (getter/putter wrappers around the pool are summarised and seen through): SSA — no Return operand and no Store value derives (through load, slicing, conversion, φ, type assertion) from the result of (*sync.Pool).Get in a function that also calls (*sync.Pool).Put (directly or deferred). Otherwise the next concurrent or later call rewrites bytes the earlier caller still holds. Also inventories every package-level variable of the library by type: a variable whose type can carry hidden mutable state (sync.*, bytes.Buffer, channels, pointers to structs) other than *regexp.Regexp / *log.Logger / error must be one the escape rule covers")
	pools, escapes := 0, 0
	for _, rel := range libPkgs {
		sp := c.P.SSAPkg(rel)
		if sp == nil {
			continue
		}
		for _, fn := range allFuncs(sp) {
			var gets []ssa.Value
			puts := false
			for _, b := range fn.Blocks {
				for _, ins := range b.Instrs {
					ci, ok := ins.(ssa.CallInstruction)
					if !ok {
						continue
					}
					callee := ci.Common().StaticCallee()
					if callee == nil {
						continue
					}
					switch callee.String() {
					case "(*sync.Pool).Get":
						if v, ok := ins.(ssa.Value); ok {
							gets = append(gets, v)
						}
					case "(*sync.Pool).Put":
						puts = true
					}
				}
			}
			if len(gets) == 0 {
				continue
			}
			pools++
			fromPool := func(v ssa.Value) bool {
				seen := map[ssa.Value]bool{}
				var walk func(v ssa.Value) bool
				walk = func(v ssa.Value) bool {
					if v == nil || seen[v] {
						return false
					}
					seen[v] = true
					for _, g := range gets {
						if v == g {
							return true
						}
					}
					switch x := v.(type) {
					case *ssa.TypeAssert:
						return walk(x.X)
					case *ssa.UnOp:
						if a, isAlloc := x.X.(*ssa.Alloc); isAlloc {
							// local cell (e.g. a result spilled because of defer): what was stored into it
							for _, r := range *a.Referrers() {
								if st, ok := r.(*ssa.Store); ok && st.Addr == ssa.Value(a) && walk(st.Val) {
									return true
								}
							}
							return false
						}
						return walk(x.X)
					case *ssa.Slice:
						return walk(x.X)
					case *ssa.ChangeType:
						return walk(x.X)
					case *ssa.Convert:
						return walk(x.X)
					case *ssa.FieldAddr:
						return walk(x.X)
					case *ssa.IndexAddr:
						return walk(x.X)
					case *ssa.Extract:
						return walk(x.Tuple)
					case *ssa.Phi:
						for _, e := range x.Edges {
							if walk(e) {
								return true
							}
						}
					case *ssa.Call:
						// append(pooled, …) may return the pooled array
						if bi, ok := x.Call.Value.(*ssa.Builtin); ok && bi.Name() == "append" {
							return walk(x.Call.Args[0])
						}
						// a method of the pooled object that returns memory (buf.Bytes()) may return its own
						if callee := x.Call.StaticCallee(); callee != nil && callee.Signature.Recv() != nil && len(x.Call.Args) > 0 && isRefType(x.Type()) {
							return walk(x.Call.Args[0])
						}
					}
					return false
				}
				return walk(v)
			}
			var bad []string
			for _, b := range fn.Blocks {
				for _, ins := range b.Instrs {
					switch x := ins.(type) {
					case *ssa.Return:
						for _, r := range x.Results {
							if isRefType(r.Type()) && fromPool(r) {
								bad = append(bad, "a result returned at "+c.P.Pos(x.Pos())+" aliases the pooled object")
							}
						}
					case *ssa.Store:
						// storing the pooled object (or a slice of it) anywhere but back into itself / locals
						if _, isAlloc := x.Addr.(*ssa.Alloc); isAlloc {
							continue
						}
						if isRefType(x.Val.Type()) && fromPool(x.Val) && !fromPool(x.Addr) {
							bad = append(bad, "the pooled object is stored into longer-lived memory at "+c.P.Pos(x.Pos()))
						}
					}
				}
			}
			if len(bad) > 0 && puts {
				escapes++
			}
			c.R.Check(len(bad) == 0 || !puts, rule, fnName(fn)+"/pooled object does not escape", c.P.Pos(fn.Pos()), "no result or stored value aliases an object that is put back",
				"the function hands an object back to a sync.Pool while "+strings.Join(bad, "; ")+": a concurrent or later call reuses the buffer and overwrites what this call's caller is still reading")
		}
	}
	c.R.Note("R13.6: %d functions use a sync.Pool, %d let a pooled object escape", pools, escapes)
	c.poolUseAfterRelease(rule)
	// inventory of package-level variables by type class
	risky := 0
	for _, rel := range libPkgs {
		pk := c.P.Pkg(rel)
		if pk == nil {
			continue
		}
		scope := pk.Types.Scope()
		for _, name := range scope.Names() {
			v, ok := scope.Lookup(name).(*types.Var)
			if !ok {
				continue
			}
			cls := stateClass(v.Type(), 0)
			if cls == "data" {
				continue
			}
			risky++
			construct := pk.Name + "." + name + " (" + types.TypeString(v.Type(), func(p *types.Package) string { return p.Name() }) + ")"
			switch cls {
			case "pool":
				c.R.Exists(rule, construct, c.P.Pos(v.Pos()), "sync.Pool: every user is checked by the escape rule above")
			case "handle":
				c.R.Exists(rule, construct, c.P.Pos(v.Pos()), "immutable-after-init handle (*regexp.Regexp / *log.Logger / error)")
			default:
				c.R.Bad(rule, construct, c.P.Pos(v.Pos()), "package-level variable of a type that can carry mutable state shared by all calls ("+cls+"); no rule of this check covers its use — shared scratch state breaks concurrent use of the registry")
			}
		}
	}
	c.R.Exists(rule, "inventory of stateful package-level variables", "-", fmt.Sprintf("%d non-data variables", risky))
}

// stateClass classifies a package-level variable's type: data (values, byte slices, tables), handle, pool, or a description of the risk.
func stateClass(t types.Type, depth int) string {
	if depth > 4 {
		return "data"
	}
	switch ts := types.TypeString(t, nil); ts {
	case "*regexp.Regexp", "*log.Logger", "error":
		return "handle"
	case "sync.Pool", "*sync.Pool":
		return "pool"
	}
	switch u := t.Underlying().(type) {
	case *types.Basic:
		return "data"
	case *types.Slice:
		return stateClass(u.Elem(), depth+1)
	case *types.Array:
		return stateClass(u.Elem(), depth+1)
	case *types.Map:
		if k := stateClass(u.Key(), depth+1); k != "data" {
			return k
		}
		return stateClass(u.Elem(), depth+1)
	case *types.Struct:
		if n, ok := t.(*types.Named); ok && n.Obj().Pkg() != nil && (n.Obj().Pkg().Path() == "sync" || n.Obj().Pkg().Path() == "sync/atomic" || n.Obj().Pkg().Path() == "bytes" || n.Obj().Pkg().Path() == "strings") {
			return "stateful " + n.Obj().Pkg().Name() + "." + n.Obj().Name()
		}
		for i := 0; i < u.NumFields(); i++ {
			if cls := stateClass(u.Field(i).Type(), depth+1); cls != "data" {
				return cls
			}
		}
		return "data"
	case *types.Pointer:
		return "pointer to " + types.TypeString(u.Elem(), nil)
	case *types.Chan:
		return "channel"
	case *types.Signature:
		return "data"
	case *types.Interface:
		return "interface value"
	}
	return "data"
}

// R13.1
func (c *Ctx) r131() {
	const rule = "R13.1"
	c.R.Rule(rule, "(a) in css/html/js/json/svg/xml every SSA store whose address is a field of that package's Minifier struct has, as base, a fresh allocation made in the same function (the `tmp := &Minifier{}; *tmp = *o; o = tmp` idiom) — never a parameter, a loaded field or another non-fresh pointer, so a user's option struct shared between goroutines is never written; (b) in the root package, after a whole-struct copy `*a = *p` from a non-fresh pointer, no store goes through a slice/map/pointer field of the copy unless that field was first re-assigned a fresh value")
	stores := 0
	for _, rel := range formatPkgs {
		sp := c.P.SSAPkg(rel)
		if sp == nil {
			c.R.Unres(rule, "ssa/"+rel, "-", "SSA package missing")
			continue
		}
		minT := load.Mod + "/" + rel + ".Minifier"
		perFn := map[string][]string{}
		seenFn := map[string]string{}
		for _, fn := range allFuncs(sp) {
			c.R.Func(fnName(fn))
			for _, b := range fn.Blocks {
				for _, ins := range b.Instrs {
					st, ok := ins.(*ssa.Store)
					if !ok {
						continue
					}
					owner, field := ssaFieldAddr(st.Addr)
					wholeCopy := false
					if owner == "" {
						// *p = v where p : *Minifier
						if namedTypeName(st.Addr.Type()) == minT && !isAlloc(st.Addr) {
							owner, field, wholeCopy = minT, "*", true
						}
					}
					if owner != minT {
						continue
					}
					stores++
					key := fnName(fn)
					seenFn[key] = c.P.Pos(st.Pos())
					var baseAddr ssa.Value = st.Addr
					if fa, ok := st.Addr.(*ssa.FieldAddr); ok {
						baseAddr = fa.X
					}
					_ = wholeCopy
					for _, bv := range basesOf(baseAddr) {
						if a, ok := bv.(*ssa.Alloc); ok && a.Parent() == fn {
							continue
						}
						perFn[key] = append(perFn[key], fmt.Sprintf("%s at %s (base: %s)", field, c.P.Pos(st.Pos()), describeValue(bv)))
					}
				}
			}
		}
		for fnm, pos := range seenFn {
			bad := perFn[fnm]
			c.R.Check(len(bad) == 0, rule, "stores to Minifier fields in "+fnm, pos, "all through a fresh copy",
				"option fields are written through a pointer that is not a fresh copy made in this function — a *Minifier registered once and used from several goroutines is mutated (data race, and later calls see changed options): "+strings.Join(bad, "; "))
		}
	}
	c.R.Floor(rule, "stores to Minifier fields", stores, 4)

	// (b) shallow copies in the root package
	sp := c.P.SSAPkg("")
	if sp == nil {
		return
	}
	copies := 0
	for _, fn := range allFuncs(sp) {
		for _, b := range fn.Blocks {
			for _, ins := range b.Instrs {
				st, ok := ins.(*ssa.Store)
				if !ok {
					continue
				}
				dst, ok := st.Addr.(*ssa.Alloc)
				if !ok {
					continue
				}
				ld, ok := st.Val.(*ssa.UnOp)
				if !ok || ld.Op != token.MUL {
					continue
				}
				stT, ok := deref(dst.Type()).Underlying().(*types.Struct)
				if !ok {
					continue
				}
				fresh := true
				for _, bv := range basesOf(ld.X) {
					if a, isA := bv.(*ssa.Alloc); !isA || a.Parent() != fn {
						fresh = false
					}
				}
				if fresh {
					continue
				}
				copies++
				construct := fmt.Sprintf("%s/shallow copy of %s", fnName(fn), namedTypeName(dst.Type()))
				// stores through reference fields of dst
				var bad []string
				reassigned := map[int]bool{}
				for _, r := range *dst.Referrers() {
					if fa, ok := r.(*ssa.FieldAddr); ok {
						for _, rr := range *fa.Referrers() {
							if s2, ok := rr.(*ssa.Store); ok && s2.Addr == fa && isFreshAlloc(s2.Val) {
								reassigned[fa.Field] = true
							}
						}
					}
				}
				for _, b2 := range fn.Blocks {
					for _, in2 := range b2.Instrs {
						var addr ssa.Value
						switch x := in2.(type) {
						case *ssa.Store:
							addr = x.Addr
						case *ssa.MapUpdate:
							addr = x.Map
						default:
							continue
						}
						// addr = IndexAddr(Load(FieldAddr(dst, f)), i) / FieldAddr(Load(FieldAddr(dst,f)), g)
						var inner ssa.Value
						switch a := addr.(type) {
						case *ssa.IndexAddr:
							inner = a.X
						case *ssa.FieldAddr:
							inner = a.X
						default:
							inner = addr
						}
						ld2, ok := inner.(*ssa.UnOp)
						if !ok || ld2.Op != token.MUL {
							continue
						}
						fa, ok := ld2.X.(*ssa.FieldAddr)
						if !ok || fa.X != ssa.Value(dst) {
							continue
						}
						if !isRefType(stT.Field(fa.Field).Type()) || reassigned[fa.Field] {
							continue
						}
						bad = append(bad, fmt.Sprintf("%s at %s", stT.Field(fa.Field).Name(), c.P.Pos(in2.Pos())))
					}
				}
				c.R.Check(len(bad) == 0, rule, construct, c.P.Pos(st.Pos()), "no store through shared reference fields of the copy",
					"the struct copy is shallow: a store through field(s) "+strings.Join(bad, ", ")+" writes memory shared with the user's value and with concurrent calls")
			}
		}
	}
	c.R.Floor(rule, "shallow struct copies of user data (root package)", copies, 1)
}

func isAlloc(v ssa.Value) bool { _, ok := v.(*ssa.Alloc); return ok }

func describeValue(v ssa.Value) string {
	switch x := v.(type) {
	case *ssa.Parameter:
		return "parameter " + x.Name()
	case *ssa.Global:
		return "global " + x.Name()
	case *ssa.UnOp:
		return "loaded from " + x.X.Name() + " " + x.X.String()
	case *ssa.Alloc:
		return "allocation in another function"
	}
	return v.Name() + " " + v.String()
}

// R13.2
func (c *Ctx) r132() {
	const rule = "R13.2"
	c.R.Rule(rule, "library packages (root, css, html, js, json, svg, xml): no SSA Store / MapUpdate whose address derives from a package-level variable outside init (element, field or the variable itself); no copy() into and no append to a reslice of a value that may be such a variable (`buf = pkgBytes … append(buf[:0], v...)`); no package-level slice/pointer passed directly (same-function def-use through slicing, conversion, φ) as an argument for which the callee's effect summary — fixpoint over module and parse/v2 functions: stores through the parameter, copy into it, append to a high-bounded reslice of it, or passing it on to such a parameter — says it may be written. Standard-library and interface callees are assumed not to write their arguments (io.Writer contract)")
	eff := c.computeEffects()
	stores, passes := 0, 0
	for _, rel := range libPkgs {
		sp := c.P.SSAPkg(rel)
		if sp == nil {
			continue
		}
		for _, fn := range allFuncs(sp) {
			if fn.Name() == "init" || strings.HasPrefix(fn.Name(), "init#") {
				continue
			}
			c.R.Func(fnName(fn))
			for _, b := range fn.Blocks {
				for _, ins := range b.Instrs {
					var addr ssa.Value
					switch x := ins.(type) {
					case *ssa.Store:
						addr = x.Addr
					case *ssa.MapUpdate:
						addr = x.Map
					case ssa.CallInstruction:
						cc := x.Common()
						callee := cc.StaticCallee()
						if bi, ok := cc.Value.(*ssa.Builtin); ok && bi.Name() == "copy" {
							for _, bv := range basesOf(cc.Args[0]) {
								if g, ok := bv.(*ssa.Global); ok && g.Pkg != nil && strings.HasPrefix(g.Pkg.Pkg.Path(), load.Mod) {
									c.R.Bad(rule, fmt.Sprintf("%s.%s copied into in %s", g.Pkg.Pkg.Name(), g.Name(), fnName(fn)), c.P.Pos(ins.Pos()), "copy() into package-level data")
								}
							}
						}
						if bi, ok := cc.Value.(*ssa.Builtin); ok && bi.Name() == "append" && len(cc.Args) > 0 {
							// append to a reslice writes into the spare capacity of what was sliced
							if sl, ok := cc.Args[0].(*ssa.Slice); ok && sl.High != nil {
								for _, bv := range basesOf(sl.X) {
									if g, ok := bv.(*ssa.Global); ok && g.Pkg != nil && strings.HasPrefix(g.Pkg.Pkg.Path(), load.Mod) {
										c.R.Bad(rule, fmt.Sprintf("%s.%s appended into in %s", g.Pkg.Pkg.Name(), g.Name(), fnName(fn)), c.P.Pos(ins.Pos()), "append to a reslice of a value that may be the package-level slice "+g.Name()+" overwrites its bytes in place: every later and every concurrent call sees them changed")
									}
								}
							}
						}
						if callee == nil {
							continue
						}
						for i, a := range cc.Args {
							if !isRefType(a.Type()) {
								continue
							}
							for _, bv := range basesOf(a) {
								g, ok := bv.(*ssa.Global)
								if !ok || g.Pkg == nil || !strings.HasPrefix(g.Pkg.Pkg.Path(), load.Mod) {
									continue
								}
								passes++
								if eff.writes[callee][i] {
									c.R.Bad(rule, fmt.Sprintf("%s.%s passed to %s in %s", g.Pkg.Pkg.Name(), g.Name(), fnName(callee), fnName(fn)), c.P.Pos(ins.Pos()),
										fmt.Sprintf("package-level data is handed to parameter %d of %s, which may be written through (in-place rewrite): concurrent calls race on it and later calls see changed bytes", i, fnName(callee)))
								}
							}
						}
						continue
					default:
						continue
					}
					if _, isA := addr.(*ssa.Alloc); isA {
						continue
					}
					for _, bv := range basesOf(addr) {
						g, ok := bv.(*ssa.Global)
						if !ok || g.Pkg == nil || !strings.HasPrefix(g.Pkg.Pkg.Path(), load.Mod) {
							continue
						}
						if why := c.lenGuardExcludes(ins, addr, g); why != "" {
							c.R.OK(rule, fmt.Sprintf("%s.%s infeasible write in %s", g.Pkg.Pkg.Name(), g.Name(), fnName(fn)), c.P.Pos(ins.Pos()), why)
							continue
						}
						stores++
						c.R.Bad(rule, fmt.Sprintf("%s.%s written in %s", g.Pkg.Pkg.Name(), g.Name(), fnName(fn)), c.P.Pos(ins.Pos()), "package-level state is written outside init: concurrent minify calls race on it")
					}
				}
			}
		}
	}
	c.R.Note("R13.2: %d direct passes of package-level data to module/parse functions examined; %d functions have a may-write parameter", passes, len(eff.writes))
	c.R.Exists(rule, "stores to package-level state outside init", "-", fmt.Sprintf("%d found", stores))
	c.R.Floor(rule, "direct passes of package-level slices examined", passes, 20)
	// sanity: the effect analysis recognises the known in-place helpers of the dependency
	prog, _ := c.P.SSA()
	for _, want := range []string{"ToLower", "ReplaceMultipleWhitespace", "TrimWhitespace"} {
		sp := prog.ImportedPackage(load.ParseMod)
		if sp == nil {
			c.R.Unres(rule, "effects/parse."+want, "-", "dependency SSA missing")
			continue
		}
		fn := sp.Func(want)
		if fn == nil {
			c.R.Unres(rule, "effects/parse."+want, "-", "function not found")
			continue
		}
		if want == "TrimWhitespace" {
			c.R.Check(!eff.writes[fn][0], rule, "effects/parse."+want+" is read-only", "-", "summary: no write", "effect summary wrongly marks a read-only helper as writing (would raise false alarms)")
		} else {
			c.R.Check(eff.writes[fn][0], rule, "effects/parse."+want+" writes its argument", "-", "summary: may write param 0", "effect summary misses a known in-place helper: the rule would pass vacuously")
		}
	}
}

// R13.3
func (c *Ctx) r133() {
	const rule = "R13.3"
	c.R.Rule(rule, "every syntactic access to a map- or slice-typed field of M (literal, pattern, and whatever is added later) in the root package outside New is dominated by m.mutex.RLock() or m.mutex.Lock() (writes: Lock) on the same receiver, and the matching unlock is deferred or lies on every path to the exit; in the VTA call graph no registrar ((*M).Add, AddFunc, AddRegexp, AddFuncRegexp, AddCmd, AddCmdRegexp) is reachable from a (*Minifier).Minify / cmdMinifier.Minify (a nested call then only re-enters the read lock)")
	pk := c.pkg(rule, "")
	if pk == nil {
		return
	}
	info := pk.TypesInfo
	fns := 0
	// the guarded state: every map- or slice-typed field of M (today literal and pattern; a memo or cache added later is registry state too)
	var guarded []string
	if tn, ok := pk.Types.Scope().Lookup("M").(*types.TypeName); ok {
		if st, ok := tn.Type().Underlying().(*types.Struct); ok {
			for i := 0; i < st.NumFields(); i++ {
				switch st.Field(i).Type().Underlying().(type) {
				case *types.Map, *types.Slice:
					guarded = append(guarded, st.Field(i).Name())
				}
			}
		}
	}
	if len(guarded) < 2 {
		c.R.Unres(rule, "minify.M/guarded fields", "-", "fewer than two map/slice fields found in M")
		return
	}
	for _, fd := range load.FuncDecls(pk) {
		fname := load.FuncName(fd)
		if fname == "New" {
			continue
		}
		g := c.graph(pk, fd)
		type acc struct {
			n     *flow.Node
			write bool
			what  string
		}
		var accs []acc
		for _, n := range g.Nodes {
			a := n.Ast()
			if a == nil || n.Kind == flow.KSelect {
				continue
			}
			if n.Kind == flow.KRange {
				a = n.Expr
			}
			ast.Inspect(a, func(x ast.Node) bool {
				if _, isLit := x.(*ast.FuncLit); isLit {
					return false
				}
				e, ok := x.(ast.Expr)
				if !ok {
					return true
				}
				for _, f := range guarded {
					if isField(info, e, mT, f) {
						w := false
						// delete(m.f, k) and clear(m.f) write the map
						if par, isCall := c.P.Parent(x).(*ast.CallExpr); isCall {
							if fid, isId := par.Fun.(*ast.Ident); isId && (fid.Name == "delete" || fid.Name == "clear") && len(par.Args) > 0 && par.Args[0] == e {
								w = true
							}
						}
						if as, isAs := n.Stmt.(*ast.AssignStmt); isAs && n.Kind == flow.KStmt {
							for _, l := range as.Lhs {
								if flow.Contains(l, func(y ast.Node) bool { return y == x }) {
									w = true
								}
							}
						}
						accs = append(accs, acc{n, w, f})
					}
				}
				return true
			})
		}
		if len(accs) == 0 {
			continue
		}
		fns++
		c.R.Func("minify." + fname)
		lockCall := func(names ...string) func(*flow.Node) bool {
			return func(y *flow.Node) bool {
				a := y.Ast()
				if a == nil || y.Kind != flow.KStmt {
					return false
				}
				if _, isDefer := y.Stmt.(*ast.DeferStmt); isDefer {
					return false
				}
				found := false
				flowInspectCalls(a, func(call *ast.CallExpr) {
					cn := calleeName(info, call)
					for _, nm := range names {
						if cn == "sync.(RWMutex)."+nm {
							if sel, ok := call.Fun.(*ast.SelectorExpr); ok && isField(info, sel.X, mT, "mutex") {
								found = true
							}
						}
					}
				})
				return found
			}
		}
		var bad []string
		anyWrite := false
		for _, a := range accs {
			if a.write {
				anyWrite = true
			}
			need := lockCall("RLock", "Lock")
			if a.write {
				need = lockCall("Lock")
			}
			if p := g.MustPassBefore(a.n, need, flow.Search{}); p != nil {
				kind := "read"
				if a.write {
					kind = "write"
				}
				bad = append(bad, fmt.Sprintf("%s of M.%s at %s without holding the %s", kind, a.what, c.pos(a.n.Ast()), map[bool]string{true: "write lock", false: "mutex"}[a.write]))
			}
		}
		// unlock: deferred, or on all paths from the lock to exit
		unlockNames := []string{"RUnlock"}
		if anyWrite {
			unlockNames = []string{"Unlock"}
		}
		deferred := false
		for _, d := range g.Defers {
			cn := calleeName(info, d.Call)
			for _, u := range unlockNames {
				if cn == "sync.(RWMutex)."+u {
					deferred = true
				}
			}
		}
		if !deferred {
			for _, n := range g.Nodes {
				if lockCall("RLock", "Lock")(n) {
					if p := g.MustPassAfter(n, lockCall(unlockNames...), flow.Search{}); p != nil {
						bad = append(bad, "the lock taken at "+c.pos(n.Ast())+" is not released on every path: "+pathStr(c, g, p))
					}
				}
			}
		}
		// no access after an explicit unlock
		if !deferred {
			for _, a := range accs {
				for _, n := range g.Nodes {
					if lockCall(unlockNames...)(n) && g.Dominates(n, a.n) {
						bad = append(bad, "access at "+c.pos(a.n.Ast())+" after the unlock")
					}
				}
			}
		}
		c.R.Check(len(bad) == 0, rule, "minify."+fname+"/registry access", c.pos(fd), fmt.Sprintf("%d access(es) under the mutex", len(accs)), strings.Join(bad, "; "))
	}
	c.R.Floor(rule, "functions touching the registry", fns, 8)

	// call graph: registrars not reachable from minifiers
	cg := c.P.CallGraph()
	prog, _ := c.P.SSA()
	root := prog.ImportedPackage(load.Mod)
	if root == nil {
		c.R.Unres(rule, "callgraph/root", "-", "root SSA package missing")
		return
	}
	registrars := map[*ssa.Function]bool{}
	mType := root.Type("M")
	if mType != nil {
		ms := prog.MethodSets.MethodSet(types.NewPointer(mType.Type()))
		for i := 0; i < ms.Len(); i++ {
			if strings.HasPrefix(ms.At(i).Obj().Name(), "Add") {
				registrars[prog.MethodValue(ms.At(i))] = true
			}
		}
	}
	if len(registrars) < 6 {
		c.R.Unres(rule, "callgraph/registrars", "-", fmt.Sprintf("only %d Add* methods found", len(registrars)))
	}
	var starts []*ssa.Function
	for _, rel := range formatPkgs {
		if sp := c.P.SSAPkg(rel); sp != nil {
			if t := sp.Type("Minifier"); t != nil {
				ms := prog.MethodSets.MethodSet(types.NewPointer(t.Type()))
				for i := 0; i < ms.Len(); i++ {
					if ms.At(i).Obj().Name() == "Minify" {
						starts = append(starts, prog.MethodValue(ms.At(i)))
					}
				}
			}
		}
	}
	seen := map[*ssa.Function]bool{}
	var hit []string
	var walk func(n *callgraph.Node, depth int)
	walk = func(n *callgraph.Node, depth int) {
		if n == nil || seen[n.Func] {
			return
		}
		seen[n.Func] = true
		if registrars[n.Func] {
			hit = append(hit, fnName(n.Func))
		}
		for _, e := range n.Out {
			walk(e.Callee, depth+1)
		}
	}
	for _, s := range starts {
		walk(cg.Nodes[s], 0)
	}
	c.R.Check(len(hit) == 0 && len(starts) == 6, rule, "callgraph/no registrar reachable from a minifier", "-", fmt.Sprintf("%d functions reachable from the %d Minify methods, none is a registrar", len(seen), len(starts)),
		"a registrar (write lock) is reachable from inside a minifier, which runs under the read lock of the same RWMutex: deadlock: "+strings.Join(hit, ", "))
}

// R13.4
func (c *Ctx) r134() {
	const rule = "R13.4"
	c.R.Rule(rule, "every package-level []byte of the library packages that is the first argument of append is used there as the bare variable (not a reslice), is initialised by a []byte(\"literal\") conversion (len == cap with the gc compiler, so append always reallocates), and is never assigned anywhere in the module")
	bases := 0
	for _, rel := range libPkgs {
		pk := c.P.Pkg(rel)
		if pk == nil {
			continue
		}
		info := pk.TypesInfo
		for _, fd := range load.FuncDecls(pk) {
			ast.Inspect(fd.Body, func(x ast.Node) bool {
				call, ok := x.(*ast.CallExpr)
				if !ok || str(call.Fun) != "append" || len(call.Args) == 0 {
					return true
				}
				if _, isB := info.Uses[call.Fun.(*ast.Ident)].(*types.Builtin); !isB {
					return true
				}
				id := rootIdent(call.Args[0])
				if id == nil {
					return true
				}
				v, ok := info.Uses[id].(*types.Var)
				if !ok || v.Pkg() == nil || v.Parent() != v.Pkg().Scope() {
					return true
				}
				bases++
				construct := fmt.Sprintf("%s.%s as append base in %s", v.Pkg().Name(), v.Name(), load.FuncName(fd))
				var bad []string
				if _, bare := ast.Unparen(call.Args[0]).(*ast.Ident); !bare {
					if _, isSel := ast.Unparen(call.Args[0]).(*ast.SelectorExpr); !isSel {
						bad = append(bad, "append is applied to "+str(call.Args[0])+", a reslice/element of the package-level slice: it has spare capacity and append overwrites the shared bytes")
					}
				}
				owner := c.P.All[v.Pkg().Path()]
				init := load.VarInit(owner, v.Name())
				okInit := false
				if conv, isCall := init.(*ast.CallExpr); isCall && len(conv.Args) == 1 {
					if tv, has := owner.TypesInfo.Types[conv.Fun]; has && tv.IsType() {
						if atv, has := owner.TypesInfo.Types[conv.Args[0]]; has && atv.Value != nil {
							okInit = true
						}
					}
				}
				if !okInit {
					bad = append(bad, "not initialised by a []byte(\"…\") conversion of a constant (capacity may exceed length)")
				}
				if c.assignedAnywhere(v) {
					bad = append(bad, "the variable is assigned after initialisation")
				}
				c.R.Check(len(bad) == 0, rule, construct, c.pos(call), "bare len==cap constant slice", strings.Join(bad, "; "))
				return true
			})
		}
	}
	c.R.Floor(rule, "package-level append bases", bases, 1)
}

func (c *Ctx) assignedAnywhere(v *types.Var) bool {
	found := false
	for _, pk := range c.P.Roots {
		for _, f := range pk.Syntax {
			ast.Inspect(f, func(x ast.Node) bool {
				switch s := x.(type) {
				case *ast.AssignStmt:
					for _, l := range s.Lhs {
						if id, ok := ast.Unparen(l).(*ast.Ident); ok && pk.TypesInfo.Uses[id] == v {
							found = true
						}
					}
				case *ast.UnaryExpr:
					if s.Op == token.AND {
						if id, ok := ast.Unparen(s.X).(*ast.Ident); ok && pk.TypesInfo.Uses[id] == v {
							found = true
						}
					}
				}
				return !found
			})
		}
	}
	return found
}

// R13.5
func (c *Ctx) r135() {
	const rule = "R13.5"
	c.R.Rule(rule, "in the library packages every range over a map has a body that only inserts into another map / set (order-insensitive), and no function calls time.Now, math/rand, crypto/rand, os.Getenv or os.Environ")
	ranges := 0
	banned := []string{"time.Now", "time.Since", "os.Getenv", "os.Environ", "os.LookupEnv", "os.Getpid", "os.Hostname"}
	for _, rel := range libPkgs {
		pk := c.P.Pkg(rel)
		if pk == nil {
			continue
		}
		info := pk.TypesInfo
		pname := pk.Name
		c.R.Pkg(pk.PkgPath)
		nondet := []string{}
		for _, fd := range load.FuncDecls(pk) {
			ast.Inspect(fd.Body, func(x ast.Node) bool {
				switch s := x.(type) {
				case *ast.RangeStmt:
					if _, isMap := info.TypeOf(s.X).Underlying().(*types.Map); !isMap {
						return true
					}
					ranges++
					okBody := true
					for _, st := range s.Body.List {
						as, isAs := st.(*ast.AssignStmt)
						if !isAs || len(as.Lhs) != 1 {
							okBody = false
							continue
						}
						ix, isIx := as.Lhs[0].(*ast.IndexExpr)
						if !isIx {
							okBody = false
							continue
						}
						if _, isMap := info.TypeOf(ix.X).Underlying().(*types.Map); !isMap {
							okBody = false
						}
					}
					c.R.Check(okBody, rule, fmt.Sprintf("%s.%s/range over map %s", pname, load.FuncName(fd), str(s.X)), c.pos(s), "body only inserts into a map", "iteration order of a map influences the result: output differs between runs")
				case *ast.CallExpr:
					cn := calleeName(info, s)
					for _, b := range banned {
						if cn == b {
							nondet = append(nondet, cn+" at "+c.pos(s))
						}
					}
					if strings.HasPrefix(cn, "math/rand.") || strings.HasPrefix(cn, "math/rand/v2.") || strings.HasPrefix(cn, "crypto/rand.") {
						nondet = append(nondet, cn+" at "+c.pos(s))
					}
				}
				return true
			})
		}
		c.R.Check(len(nondet) == 0, rule, pname+"/no clock, random or environment source", "-", "none called", "the library reads a nondeterministic source: repeating a call can give different bytes: "+strings.Join(nondet, ", "))
	}
	c.R.Floor(rule, "ranges over maps", ranges, 1)
}

// lenGuardExcludes recognises the idiom `x = global; … if len(x) == K { x[i] = … }`: the store is
// dominated by the true branch of len(x) == K on the very slice value it indexes, while the
// package-level slice (never assigned, constant initialiser) has a different length, so the
// global can never be the slice written on that path. Returns the reason, or "".
func (c *Ctx) lenGuardExcludes(ins ssa.Instruction, addr ssa.Value, g *ssa.Global) string {
	ia, ok := addr.(*ssa.IndexAddr)
	if !ok {
		return ""
	}
	x := ia.X
	// constant length of the global
	pk := c.P.All[g.Pkg.Pkg.Path()]
	if pk == nil {
		return ""
	}
	v, _, err := c.Ev.PackageVar(pk, g.Name())
	b, isBytes := v.([]byte)
	if err != nil || !isBytes {
		return ""
	}
	if obj, ok := g.Object().(*types.Var); !ok || c.assignedAnywhere(obj) {
		return ""
	}
	blk := ins.Block()
	for d := blk; d != nil; d = d.Idom() {
		id := d.Idom()
		if id == nil {
			break
		}
		ifi, ok := id.Instrs[len(id.Instrs)-1].(*ssa.If)
		if !ok || len(id.Succs) != 2 {
			continue
		}
		// the store must lie in the region dominated by the true successor
		if !id.Succs[0].Dominates(blk) || id.Succs[0] == id.Succs[1] {
			continue
		}
		bo, ok := ifi.Cond.(*ssa.BinOp)
		if !ok || bo.Op != token.EQL {
			continue
		}
		lenOf := func(v ssa.Value) ssa.Value {
			if call, ok := v.(*ssa.Call); ok {
				if bi, ok := call.Call.Value.(*ssa.Builtin); ok && bi.Name() == "len" {
					return call.Call.Args[0]
				}
			}
			return nil
		}
		var k *ssa.Const
		var arg ssa.Value
		if a := lenOf(bo.X); a != nil {
			arg = a
			k, _ = bo.Y.(*ssa.Const)
		} else if a := lenOf(bo.Y); a != nil {
			arg = a
			k, _ = bo.X.(*ssa.Const)
		}
		if arg == nil || k == nil || arg != x {
			continue
		}
		if k.Int64() != int64(len(b)) {
			return fmt.Sprintf("store is guarded by len(%s) == %d on the slice it indexes; %s has constant length %d and is never assigned, so it cannot be the slice written here", x.Name(), k.Int64(), g.Name(), len(b))
		}
	}
	return ""
}

// poolUseAfterRelease: second half of R13.6 — nothing derived from a pooled object is used after the
// object was given back. Getters (functions returning a value derived from (*sync.Pool).Get) and
// putters (functions passing a parameter to (*sync.Pool).Put) are summarised first, so that the
// usual wrapper pair getX()/putX(x) is seen through.
func (c *Ctx) poolUseAfterRelease(rule string) {
	type fnset map[*ssa.Function]bool
	getters, putters := fnset{}, map[*ssa.Function]int{}
	var fns []*ssa.Function
	for _, rel := range libPkgs {
		fns = append(fns, c.ssaFuncsOf(rel)...)
	}
	isPoolCall := func(ins ssa.Instruction, name string) (*ssa.CallCommon, bool) {
		ci, ok := ins.(ssa.CallInstruction)
		if !ok {
			return nil, false
		}
		if cal := ci.Common().StaticCallee(); cal != nil && cal.String() == "(*sync.Pool)."+name {
			return ci.Common(), true
		}
		return nil, false
	}
	derive := func(fn *ssa.Function, seeds map[ssa.Value]bool) map[ssa.Value]bool {
		d := map[ssa.Value]bool{}
		for k := range seeds {
			d[k] = true
		}
		for changed := true; changed; {
			changed = false
			for _, b := range fn.Blocks {
				for _, ins := range b.Instrs {
					// a derived value spilled into a local cell (results of a function with defers): the cell holds it
					if st, isStore := ins.(*ssa.Store); isStore && d[st.Val] {
						if al, isAlloc := st.Addr.(*ssa.Alloc); isAlloc && !d[al] {
							d[al] = true
							changed = true
						}
					}
					v, ok := ins.(ssa.Value)
					if !ok || d[v] {
						continue
					}
					add := false
					switch x := ins.(type) {
					case *ssa.TypeAssert:
						add = d[x.X]
					case *ssa.Slice:
						add = d[x.X]
					case *ssa.FieldAddr:
						add = d[x.X]
					case *ssa.IndexAddr:
						add = d[x.X]
					case *ssa.ChangeType:
						add = d[x.X]
					case *ssa.ChangeInterface:
						add = d[x.X]
					case *ssa.MakeInterface:
						add = d[x.X]
					case *ssa.Extract:
						add = d[x.Tuple]
					case *ssa.UnOp:
						add = d[x.X] && isRefType(x.Type())
					case *ssa.Phi:
						for _, e := range x.Edges {
							if d[e] {
								add = true
							}
						}
					case *ssa.Call:
						// a method or function given the pooled object that returns a view (slice / pointer) of it
						if isRefType(x.Type()) && len(x.Call.Args) > 0 && d[x.Call.Args[0]] {
							add = true
						}
						if x.Call.IsInvoke() && d[x.Call.Value] && isRefType(x.Type()) {
							add = true
						}
					}
					if add {
						d[v] = true
						changed = true
					}
				}
			}
		}
		return d
	}
	// summaries
	for _, fn := range fns {
		seeds := map[ssa.Value]bool{}
		for _, b := range fn.Blocks {
			for _, ins := range b.Instrs {
				if _, ok := isPoolCall(ins, "Get"); ok {
					if v, isV := ins.(ssa.Value); isV {
						seeds[v] = true
					}
				}
			}
		}
		if len(seeds) > 0 {
			d := derive(fn, seeds)
			for _, b := range fn.Blocks {
				for _, ins := range b.Instrs {
					if r, ok := ins.(*ssa.Return); ok {
						for _, res := range r.Results {
							if d[res] {
								getters[fn] = true
							}
						}
					}
				}
			}
		}
		for i, p := range fn.Params {
			d := derive(fn, map[ssa.Value]bool{p: true})
			for _, b := range fn.Blocks {
				for _, ins := range b.Instrs {
					if cc, ok := isPoolCall(ins, "Put"); ok && len(cc.Args) > 1 && d[cc.Args[1]] {
						putters[fn] = i
					}
				}
			}
		}
	}
	n := 0
	for _, fn := range fns {
		if getters[fn] {
			continue
		}
		seeds := map[ssa.Value]bool{}
		for _, b := range fn.Blocks {
			for _, ins := range b.Instrs {
				if _, ok := isPoolCall(ins, "Get"); ok {
					if v, isV := ins.(ssa.Value); isV {
						seeds[v] = true
					}
				}
				if call, ok := ins.(*ssa.Call); ok {
					if cal := call.Call.StaticCallee(); cal != nil && getters[cal] {
						seeds[call] = true
					}
				}
			}
		}
		if len(seeds) == 0 {
			continue
		}
		d := derive(fn, seeds)
		// release points: direct (non-deferred) Put of a derived value, or a putter call
		type point struct {
			b   *ssa.BasicBlock
			idx int
			pos token.Pos
		}
		var rel []point
		for _, b := range fn.Blocks {
			for i, ins := range b.Instrs {
				call, ok := ins.(*ssa.Call)
				if !ok {
					continue
				}
				if cc, isPut := isPoolCall(ins, "Put"); isPut && len(cc.Args) > 1 && d[cc.Args[1]] {
					rel = append(rel, point{b, i, ins.Pos()})
				}
				if cal := call.Call.StaticCallee(); cal != nil {
					if pi, isPutter := putters[cal]; isPutter && pi < len(call.Call.Args) && d[call.Call.Args[pi]] {
						rel = append(rel, point{b, i, ins.Pos()})
					}
				}
			}
		}
		// deferred releases: the object goes back to the pool when the function returns — nothing derived from it may
		// be among the results
		var deferred []token.Pos
		for _, b := range fn.Blocks {
			for _, ins := range b.Instrs {
				df, ok := ins.(*ssa.Defer)
				if !ok {
					continue
				}
				if cal := df.Call.StaticCallee(); cal != nil {
					if cal.String() == "(*sync.Pool).Put" && len(df.Call.Args) > 1 && d[df.Call.Args[1]] {
						deferred = append(deferred, df.Pos())
					}
					if pi, isPutter := putters[cal]; isPutter && pi < len(df.Call.Args) && d[df.Call.Args[pi]] {
						deferred = append(deferred, df.Pos())
					}
				}
			}
		}
		if len(rel) == 0 && len(deferred) == 0 {
			continue
		}
		n++
		var bad []string
		if len(deferred) > 0 {
			for _, b := range fn.Blocks {
				for _, ins := range b.Instrs {
					if r, ok := ins.(*ssa.Return); ok {
						for _, res := range r.Results {
							if d[res] {
								bad = append(bad, "returned at "+c.P.Pos(r.Pos())+" although the object is put back by the deferred call at "+c.P.Pos(deferred[0]))
							}
						}
					}
				}
			}
		}
		for _, r := range rel {
			// blocks reachable after the release
			reach := map[*ssa.BasicBlock]bool{}
			var dfs func(b *ssa.BasicBlock)
			dfs = func(b *ssa.BasicBlock) {
				for _, sc := range b.Succs {
					if !reach[sc] {
						reach[sc] = true
						dfs(sc)
					}
				}
			}
			dfs(r.b)
			uses := func(ins ssa.Instruction) bool {
				if _, isDbg := ins.(*ssa.DebugRef); isDbg {
					return false
				}
				for _, op := range ins.Operands(nil) {
					if *op != nil && d[*op] {
						// φ-nodes merely carry the value; a use is an instruction that reads through it
						if _, isPhi := ins.(*ssa.Phi); isPhi {
							return false
						}
						return true
					}
				}
				return false
			}
			for i := r.idx + 1; i < len(r.b.Instrs); i++ {
				if uses(r.b.Instrs[i]) {
					bad = append(bad, "used at "+c.P.Pos(r.b.Instrs[i].Pos())+" after the release at "+c.P.Pos(r.pos))
					break
				}
			}
			for b := range reach {
				if b == r.b {
					continue // (loop back into the releasing block: the object is fetched anew there)
				}
				for _, ins := range b.Instrs {
					if uses(ins) {
						bad = append(bad, "used at "+c.P.Pos(ins.Pos())+" after the release at "+c.P.Pos(r.pos))
						break
					}
				}
			}
		}
		sort.Strings(bad)
		if len(bad) > 3 {
			bad = bad[:3]
		}
		c.R.Check(len(bad) == 0, rule, fnName(fn)+"/nothing of a pooled object is used after it is given back", c.P.Pos(fn.Pos()), fmt.Sprintf("%d release point(s), no later use", len(rel)),
			"bytes of an object already given back to the pool are still read ("+strings.Join(bad, "; ")+"): a concurrent call that takes the object from the pool overwrites them meanwhile")
	}
	c.R.Note("R13.6: %d functions release a pooled object, %d pool getters, %d pool putters", n, len(getters), len(putters))
}

// R13.8: files a call creates for its own use have names no other call can have.
func (c *Ctx) r138() {
	const rule = "R13.8"
	c.R.Rule(rule, "calls on one registry run concurrently; a call that exchanges data with an external command through files (cmdMinifier.Minify: `$in`, `$out`) must not share those files with another call of the same minifier. In cmdMinifier.Minify and the functions of the package it calls, files are created with os.CreateTemp / os.MkdirTemp, whose names are unique per call — not with os.Create / os.OpenFile / os.WriteFile on a name the code composes (a name built from the process id, the minifier's address and the argument index is the same for every call of that minifier: overlapping calls read each other's input and return each other's output)")
	pk := c.pkg(rule, "")
	if pk == nil {
		return
	}
	info := pk.TypesInfo
	fd := c.fn(rule, pk, "cmdMinifier.Minify")
	if fd == nil {
		return
	}
	todo := []*ast.FuncDecl{fd}
	seen := map[*ast.FuncDecl]bool{fd: true}
	temps, bad := 0, 0
	for len(todo) > 0 {
		f := todo[0]
		todo = todo[1:]
		ast.Inspect(f.Body, func(x ast.Node) bool {
			ce, ok := x.(*ast.CallExpr)
			if !ok {
				return true
			}
			cn := calleeName(info, ce)
			switch cn {
			case "os.CreateTemp", "os.MkdirTemp":
				temps++
			case "os.Create", "os.OpenFile", "os.WriteFile":
				bad++
				c.R.Bad(rule, fmt.Sprintf("minify.%s/%s on a composed name#%d", load.FuncName(f), cn, bad), c.pos(ce), "a file for the call's own use is created under a name the code composes ("+str(ce.Args[0])+"): two overlapping calls of the same command minifier use the same file, read each other's input and deliver each other's output")
			}
			if fo, _ := callee(info, ce).(*types.Func); fo != nil && fo.Pkg() == pk.Types {
				name := fo.Name()
				if sig, ok := fo.Type().(*types.Signature); ok && sig.Recv() != nil {
					name = namedTypeName(deref(sig.Recv().Type()))
					name = name[strings.LastIndex(name, ".")+1:] + "." + fo.Name()
				}
				if d := load.Func(pk, name); d != nil && d.Body != nil && !seen[d] {
					seen[d] = true
					todo = append(todo, d)
				}
			}
			return true
		})
	}
	c.R.Floor(rule, "temporary files created by the command minifier", temps, 2)
	if bad == 0 {
		c.R.OK(rule, "minify.cmdMinifier.Minify/files created by os.CreateTemp only", c.pos(fd), fmt.Sprintf("%d creations, all with per-call unique names", temps))
	}
}

// R13.9: every minifier gives the byte it borrowed back.
func (c *Ctx) r139() {
	const rule = "R13.9"
	c.R.Rule(rule, "parse.NewInput terminates the input with a NUL: when the reader exposes its bytes (bytes.Buffer, buffer.Reader) and the slice has spare capacity, the NUL overwrites the byte behind the input in the caller's memory, and Input.Restore puts it back. That byte can belong to something else of the caller's — the next record of one buffer that is minified piece by piece. Sibling agreement: in each of the six format packages every function that binds the result of parse.NewInput to a variable defers Restore on it directly afterwards (css, html, json, svg and xml did; js did not, so `Minify(\"js\", w, bytes.NewBuffer(buf[:n]))` left buf[n] = 0)")
	n := 0
	for _, rel := range formatPkgs {
		pk := c.P.Pkg(rel)
		if pk == nil {
			continue
		}
		info := pk.TypesInfo
		for _, fd := range load.FuncDecls(pk) {
			if fd.Body == nil {
				continue
			}
			for i, st := range fd.Body.List {
				as, ok := st.(*ast.AssignStmt)
				if !ok || len(as.Lhs) != 1 || len(as.Rhs) != 1 {
					continue
				}
				ce, ok := ast.Unparen(as.Rhs[0]).(*ast.CallExpr)
				if !ok || calleeName(info, ce) != load.ParseMod+".NewInput" {
					continue
				}
				id, ok := as.Lhs[0].(*ast.Ident)
				if !ok {
					continue
				}
				obj := info.Defs[id]
				n++
				restored := false
				for _, nx := range fd.Body.List[i+1:] {
					ds, ok := nx.(*ast.DeferStmt)
					if !ok {
						continue
					}
					if sel, ok := ds.Call.Fun.(*ast.SelectorExpr); ok && sel.Sel.Name == "Restore" {
						if rid, ok := ast.Unparen(sel.X).(*ast.Ident); ok && info.Uses[rid] == obj {
							restored = true
						}
					}
				}
				c.R.Check(restored, rule, fmt.Sprintf("%s.%s/input %s is restored", pk.Name, load.FuncName(fd), id.Name), c.pos(as), "defer "+id.Name+".Restore()",
					"the input is terminated with a NUL inside the caller's buffer and the byte is never put back: a caller that minifies consecutive pieces of one buffer finds the first byte of the next piece replaced by 0")
			}
		}
	}
	c.R.Floor(rule, "inputs created with parse.NewInput in the format packages", n, 6)
}

// R13.10: a minifier does not write into the registry it was called through.
func (c *Ctx) r1310() {
	const rule = "R13.10"
	c.R.Rule(rule, "every minifier receives the registry `m *minify.M` it was called through, the same value for all concurrent calls; its exported field URL is the base URL the user set. In the format packages (css, html, js, json, svg, xml) no assignment goes to a field of a minify.M — `m.URL = base` for the duration of one document (restored by a defer) made every other document minified at that moment, and every embedded re-entry, see a foreign base URL")
	n := 0
	for _, rel := range formatPkgs {
		pk := c.P.Pkg(rel)
		if pk == nil {
			continue
		}
		info := pk.TypesInfo
		var bad []string
		for _, fd := range load.FuncDecls(pk) {
			if fd.Body == nil {
				continue
			}
			ast.Inspect(fd.Body, func(z ast.Node) bool {
				var targets []ast.Expr
				switch v := z.(type) {
				case *ast.AssignStmt:
					targets = v.Lhs
				case *ast.IncDecStmt:
					targets = []ast.Expr{v.X}
				case *ast.UnaryExpr:
					if v.Op == token.AND {
						targets = []ast.Expr{v.X} // &m.URL: a pointer through which it can be written
					}
				}
				for _, l := range targets {
					for {
						switch x := ast.Unparen(l).(type) {
						case *ast.IndexExpr:
							l = x.X
							continue
						case *ast.StarExpr:
							l = x.X
							continue
						}
						break
					}
					sel, ok := ast.Unparen(l).(*ast.SelectorExpr)
					if !ok {
						continue
					}
					t := info.TypeOf(sel.X)
					if t == nil {
						continue
					}
					if strings.HasSuffix(derefType(t).String(), load.Mod+".M") {
						bad = append(bad, fmt.Sprintf("%s in %s at %s", str(l), load.FuncName(fd), c.pos(z)))
					}
				}
				return true
			})
		}
		n++
		c.R.Check(len(bad) == 0, rule, rel+"/no write into the registry", "-", "no assignment to a field of minify.M",
			"the minifier writes into the registry it shares with every concurrent call ("+strings.Join(bad, "; ")+"): other calls read the changed value while this one runs, and the write races with them")
	}
	c.R.Floor(rule, "format packages examined", n, 6)
}

// R13.11: no minifier writes into the params map it was called with.
func (c *Ctx) r1311() {
	const rule = "R13.11"
	c.R.Rule(rule, "the params map a minifier receives belongs to its caller: M.Match hands out the map it parsed, and a caller may pass one map to many (concurrent) calls of MinifyMimetype. In the format packages and the root package no function stores into, or deletes from, a parameter of type map[string]string (`params[\"nesting\"] = …` written into the caller's map carried the nesting level from call to call, and raced); a minifier that needs other parameters for an embedded call builds its own map")
	n := 0
	for _, rel := range append([]string{""}, formatPkgs...) {
		pk := c.P.Pkg(rel)
		if pk == nil {
			continue
		}
		info := pk.TypesInfo
		var bad []string
		params := 0
		for _, fd := range load.FuncDecls(pk) {
			if fd.Body == nil || fd.Type.Params == nil {
				continue
			}
			objs := map[types.Object]bool{}
			for _, f := range fd.Type.Params.List {
				if t := info.TypeOf(f.Type); t != nil && types.TypeString(t, nil) == "map[string]string" {
					for _, nm := range f.Names {
						if o := info.Defs[nm]; o != nil {
							objs[o] = true
							params++
						}
					}
				}
			}
			if len(objs) == 0 {
				continue
			}
			isParam := func(e ast.Expr) bool {
				id, ok := ast.Unparen(e).(*ast.Ident)
				return ok && objs[info.Uses[id]]
			}
			ast.Inspect(fd.Body, func(z ast.Node) bool {
				switch v := z.(type) {
				case *ast.AssignStmt:
					for _, l := range v.Lhs {
						if ie, ok := ast.Unparen(l).(*ast.IndexExpr); ok && isParam(ie.X) {
							bad = append(bad, fmt.Sprintf("%s in %s at %s", str(l), load.FuncName(fd), c.pos(v)))
						}
					}
				case *ast.IncDecStmt:
					if ie, ok := ast.Unparen(v.X).(*ast.IndexExpr); ok && isParam(ie.X) {
						bad = append(bad, fmt.Sprintf("%s in %s at %s", str(v.X), load.FuncName(fd), c.pos(v)))
					}
				case *ast.CallExpr:
					if id, ok := v.Fun.(*ast.Ident); ok && (id.Name == "delete" || id.Name == "clear") && len(v.Args) >= 1 && isParam(v.Args[0]) {
						if _, isBuiltin := info.Uses[id].(*types.Builtin); isBuiltin {
							bad = append(bad, fmt.Sprintf("%s in %s at %s", str(v), load.FuncName(fd), c.pos(v)))
						}
					}
				}
				return true
			})
		}
		if params == 0 {
			continue
		}
		n++
		name := rel
		if rel == "" {
			name = "minify"
		}
		c.R.Check(len(bad) == 0, rule, name+"/no store into a params map parameter", "-", fmt.Sprintf("%d map[string]string parameters, none is stored into", params),
			"a function writes into the params map of its caller ("+strings.Join(bad, "; ")+"): the map M.Match returned, or one map passed to many calls, changes under the caller, concurrent calls race on it, and what was written (the nesting level) carries over to the next call")
	}
	c.R.Floor(rule, "packages with params parameters", n, 7)
}
