package rules

import (
	"fmt"
	"strings"

	"golang.org/x/tools/go/ssa"

	"verif/checker/internal/load"
)

// R12.8 (= R10.16): the buffer a minifier writes into is not the memory it reads from.
func (c *Ctx) r128(rule string) {
	c.R.Rule(rule, "the byte-slice entry points hand the minifier a reader over a private copy of the input and a writer over an output buffer. The minifiers do not write in source order (the JS printer emits hoisted declarations early, from slices that point into the input), so the two must not share memory: SSA — in every function of the root package that passes both a buffer.NewWriter(x) and a buffer.NewReader(y) on, no allocation is a base of both x and y (`buffer.NewWriter(in[:0])` over the copy that is being read gives `a();var d,d=d;d(),d=2` for `a();var b=1;c();var d=2`)")
	sp := c.P.SSAPkg("")
	if sp == nil {
		c.R.Unres(rule, "package/root SSA", "-", "SSA of the root package missing")
		return
	}
	n := 0
	for _, fn := range allFuncs(sp) {
		var writers, readers []*ssa.Call
		for _, b := range fn.Blocks {
			for _, ins := range b.Instrs {
				call, ok := ins.(*ssa.Call)
				if !ok {
					continue
				}
				if callee := call.Call.StaticCallee(); callee != nil && callee.Pkg != nil && callee.Pkg.Pkg.Path() == load.ParseMod+"/buffer" && len(call.Call.Args) == 1 {
					switch callee.Name() {
					case "NewWriter":
						writers = append(writers, call)
					case "NewReader":
						readers = append(readers, call)
					}
				}
			}
		}
		if len(writers) == 0 || len(readers) == 0 {
			continue
		}
		n++
		shared := ""
		for _, w := range writers {
			wb := map[ssa.Value]bool{}
			for _, b := range basesOf(w.Call.Args[0]) {
				wb[b] = true
			}
			for _, r := range readers {
				for _, b := range basesOf(r.Call.Args[0]) {
					if wb[b] {
						shared = b.String()
					}
				}
			}
		}
		c.R.Check(shared == "", rule, fmt.Sprintf("minify.%s/output buffer and input copy are different memory", strings.TrimPrefix(fnName(fn), "minify.")), c.P.Pos(fn.Pos()), "no common base allocation", "the writer's buffer and the reader's bytes derive from the same allocation ("+shared+"): the minifier overwrites input it has not emitted yet — output that is emitted out of source order (hoisted `var` declarations in JavaScript) is corrupted, without an error")
	}
	c.R.Floor(rule, "functions pairing a buffer writer with a buffer reader", n, 1)
}

// R18.9: the encoded payload of a data URI is written into fresh memory.
func (c *Ctx) r189() {
	const rule = "R18.9"
	c.R.Rule(rule, "minify.DataURI decodes the payload in place: `data` is a view into the caller's buffer. base64 encoding reads three bytes and writes four, so encoding into that same buffer overtakes the bytes still to be read after a few groups; the result has the right length and alphabet and decodes to other bytes. SSA — the destination of every base64 Encode call in minify.DataURI has only fresh allocations (make) as bases, none of them the parameter or a value derived from it")
	sp := c.P.SSAPkg("")
	if sp == nil {
		c.R.Unres(rule, "package/root SSA", "-", "SSA of the root package missing")
		return
	}
	n := 0
	for _, fn := range allFuncs(sp) {
		if fn.Name() != "DataURI" || fn.Parent() != nil {
			continue
		}
		for _, b := range fn.Blocks {
			for _, ins := range b.Instrs {
				call, ok := ins.(*ssa.Call)
				if !ok {
					continue
				}
				callee := call.Call.StaticCallee()
				if callee == nil || callee.Name() != "Encode" || callee.Pkg == nil || callee.Pkg.Pkg.Path() != "encoding/base64" {
					continue
				}
				n++
				// args: receiver, dst, src
				dst := call.Call.Args[len(call.Call.Args)-2]
				bad := ""
				for _, bs := range basesOf(dst) {
					if !isFreshAlloc(bs) {
						bad = bs.String()
					}
				}
				c.R.Check(bad == "", rule, fmt.Sprintf("minify.DataURI/base64 destination#%d is fresh memory", n), c.P.Pos(call.Pos()), "allocated in the function", "the base64 text is written into memory that is not freshly allocated ("+bad+"): when it is the input buffer, from which the payload is still being read, the encoder overwrites bytes it has not read yet (a percent-encoded payload of a few hundred bytes without a registered minifier decodes to different bytes from about three times the prefix length on)")
			}
		}
	}
	c.R.Floor(rule, "base64 encodings in DataURI", n, 1)
}
