package rules

import (
	"fmt"
	"go/ast"
	"go/token"
	"go/types"
	"strings"

	"golang.org/x/tools/go/ssa"

	"verif/checker/internal/flow"
	"verif/checker/internal/load"
)

// R12.8 (= R10.16): the buffer a minifier writes into is not the memory it reads from.
func (c *Ctx) r128(rule string) {
	c.R.Rule(rule, "the byte-slice entry points hand the minifier a reader over a private copy of the input and a writer over an output buffer. The minifiers do not write in source order (the JS printer emits hoisted declarations early, from slices that point into the input), so the two must not share memory: SSA — in every function of the root package that passes both a buffer.NewWriter(x) and a buffer.NewReader(y) on, no allocation is a base of both x and y (`buffer.NewWriter(in[:0])` over the copy that is being read gives `a();var d,d=d;d(),d=2` for `a();var b=1;c();var d=2`)")
	sp := c.P.SSAPkg("")
	if sp == nil {
		c.R.Unres(rule, "package/root SSA", "-", "SSA of the root package missing")
		return
	}
	n := 0
	for _, fn := range allFuncs(sp) {
		var writers, readers []*ssa.Call
		for _, b := range fn.Blocks {
			for _, ins := range b.Instrs {
				call, ok := ins.(*ssa.Call)
				if !ok {
					continue
				}
				if callee := call.Call.StaticCallee(); callee != nil && callee.Pkg != nil && callee.Pkg.Pkg.Path() == load.ParseMod+"/buffer" && len(call.Call.Args) == 1 {
					switch callee.Name() {
					case "NewWriter":
						writers = append(writers, call)
					case "NewReader":
						readers = append(readers, call)
					}
				}
			}
		}
		if len(writers) == 0 || len(readers) == 0 {
			continue
		}
		n++
		shared := ""
		for _, w := range writers {
			wb := map[ssa.Value]bool{}
			for _, b := range basesOf(w.Call.Args[0]) {
				wb[b] = true
			}
			for _, r := range readers {
				for _, b := range basesOf(r.Call.Args[0]) {
					if wb[b] {
						shared = b.String()
					}
				}
			}
		}
		c.R.Check(shared == "", rule, fmt.Sprintf("minify.%s/output buffer and input copy are different memory", strings.TrimPrefix(fnName(fn), "minify.")), c.P.Pos(fn.Pos()), "no common base allocation", "the writer's buffer and the reader's bytes derive from the same allocation ("+shared+"): the minifier overwrites input it has not emitted yet — output that is emitted out of source order (hoisted `var` declarations in JavaScript) is corrupted, without an error")
	}
	c.R.Floor(rule, "functions pairing a buffer writer with a buffer reader", n, 1)
}

// R18.9: the encoded payload of a data URI is written into fresh memory.
func (c *Ctx) r189() {
	const rule = "R18.9"
	c.R.Rule(rule, "minify.DataURI decodes the payload in place: `data` is a view into the caller's buffer. base64 encoding reads three bytes and writes four, so encoding into that same buffer overtakes the bytes still to be read after a few groups; the result has the right length and alphabet and decodes to other bytes. SSA — the destination of every base64 Encode call in minify.DataURI has only fresh allocations (make) as bases, none of them the parameter or a value derived from it")
	sp := c.P.SSAPkg("")
	if sp == nil {
		c.R.Unres(rule, "package/root SSA", "-", "SSA of the root package missing")
		return
	}
	n := 0
	for _, fn := range allFuncs(sp) {
		if fn.Name() != "DataURI" || fn.Parent() != nil {
			continue
		}
		for _, b := range fn.Blocks {
			for _, ins := range b.Instrs {
				call, ok := ins.(*ssa.Call)
				if !ok {
					continue
				}
				callee := call.Call.StaticCallee()
				if callee == nil || callee.Name() != "Encode" || callee.Pkg == nil || callee.Pkg.Pkg.Path() != "encoding/base64" {
					continue
				}
				n++
				// args: receiver, dst, src
				dst := call.Call.Args[len(call.Call.Args)-2]
				bad := ""
				for _, bs := range basesOf(dst) {
					if !isFreshAlloc(bs) {
						bad = bs.String()
					}
				}
				c.R.Check(bad == "", rule, fmt.Sprintf("minify.DataURI/base64 destination#%d is fresh memory", n), c.P.Pos(call.Pos()), "allocated in the function", "the base64 text is written into memory that is not freshly allocated ("+bad+"): when it is the input buffer, from which the payload is still being read, the encoder overwrites bytes it has not read yet (a percent-encoded payload of a few hundred bytes without a registered minifier decodes to different bytes from about three times the prefix length on)")
			}
		}
	}
	c.R.Floor(rule, "base64 encodings in DataURI", n, 1)
}

// R11.11: what the payload's minifier returned is what gets encoded.
func (c *Ctx) r1111(rule string) {
	c.R.Rule(rule, "in minify.DataURI the payload variable that is measured and encoded afterwards is assigned the result of the registry call (m.Bytes / m.Minify…) on every path on which that call is not known to have failed: from the call no path reaches a later read of the payload variable that avoids the assignment, other than through an outcome that tests the call's error. A length comparison in between (`only when the payload got smaller`) keeps the unminified payload whenever the minifier changes it without shrinking it — `data:text/css,a{color:#FFF}` keeps `#FFF`")
	pk := c.pkg(rule, "")
	if pk == nil {
		return
	}
	info := pk.TypesInfo
	fd := c.fn(rule, pk, "DataURI")
	if fd == nil {
		return
	}
	g := c.graph(pk, fd)
	// the payload variable: second result of parse.DataURI
	var payload types.Object
	ast.Inspect(fd.Body, func(x ast.Node) bool {
		as, ok := x.(*ast.AssignStmt)
		if !ok || len(as.Rhs) != 1 || len(as.Lhs) < 2 {
			return true
		}
		if ce, ok := as.Rhs[0].(*ast.CallExpr); ok && calleeName(info, ce) == load.ParseMod+".DataURI" {
			if id, ok := as.Lhs[1].(*ast.Ident); ok {
				payload = info.Defs[id]
				if payload == nil {
					payload = info.Uses[id]
				}
			}
		}
		return true
	})
	if payload == nil {
		c.R.Unres(rule, "minify.DataURI/payload variable", c.pos(fd), "second result of parse.DataURI not bound to a variable")
		return
	}
	n := 0
	for _, y := range g.Nodes {
		a := y.Ast()
		if a == nil || y.Kind != flow.KStmt {
			continue
		}
		var call *ast.CallExpr
		for _, ce := range allCalls(a) {
			nm := calleeName(info, ce)
			if strings.HasPrefix(nm, load.Mod+".(M).") && len(ce.Args) >= 2 {
				// the payload is an argument
				for _, arg := range ce.Args {
					if id, ok := ast.Unparen(arg).(*ast.Ident); ok && info.Uses[id] == payload {
						call = ce
					}
				}
			}
		}
		if call == nil {
			continue
		}
		n++
		// result variable and error variable of the call
		var res, errv types.Object
		if as, ok := y.Stmt.(*ast.AssignStmt); ok {
			for _, l := range as.Lhs {
				id, ok := l.(*ast.Ident)
				if !ok || id.Name == "_" {
					continue
				}
				o := info.Defs[id]
				if o == nil {
					o = info.Uses[id]
				}
				if o == nil {
					continue
				}
				if isErrorType(o.Type()) {
					errv = o
				} else {
					res = o
				}
			}
		}
		construct := fmt.Sprintf("minify.DataURI/result of the payload minifier#%d is the payload that is encoded", n)
		if res == nil {
			c.R.Bad(rule, construct, c.pos(call), "the result of the registry call is not bound to a variable")
			continue
		}
		if res == payload {
			c.R.OK(rule, construct, c.pos(call), "assigned to the payload variable by the call statement itself")
			continue
		}
		assigns := func(q *flow.Node) bool {
			as, ok := q.Stmt.(*ast.AssignStmt)
			if !ok || q.Kind != flow.KStmt {
				return false
			}
			for i, l := range as.Lhs {
				if id, ok := l.(*ast.Ident); ok && info.Uses[id] == payload && i < len(as.Rhs) {
					if rid, ok := ast.Unparen(as.Rhs[i]).(*ast.Ident); ok && info.Uses[rid] == res {
						return true
					}
				}
			}
			return false
		}
		errOutcome := func(q *flow.Node) bool {
			if (q.Kind != flow.KTrue && q.Kind != flow.KFalse) || q.Of == nil || q.Of.Kind != flow.KCond || errv == nil {
				return false
			}
			be, ok := ast.Unparen(q.Of.Expr).(*ast.BinaryExpr)
			if !ok {
				return false
			}
			mentions := false
			ast.Inspect(be, func(z ast.Node) bool {
				if id, ok := z.(*ast.Ident); ok && info.Uses[id] == errv {
					mentions = true
				}
				return true
			})
			if !mentions {
				return false
			}
			// the outcome "err != nil"
			return be.Op == token.NEQ && q.Kind == flow.KTrue || be.Op == token.EQL && q.Kind == flow.KFalse
		}
		readsPayload := func(q *flow.Node) bool {
			if q == y || assigns(q) {
				return false
			}
			a := q.Ast()
			if a == nil {
				return false
			}
			hit := false
			ast.Inspect(a, func(z ast.Node) bool {
				if id, ok := z.(*ast.Ident); ok && info.Uses[id] == payload {
					hit = true
				}
				return true
			})
			// a comparison of the two lengths is the thing being judged, not a use
			if q.Kind == flow.KCond {
				return false
			}
			return hit
		}
		p := g.Path(flow.Search{From: []*flow.Node{y}, Goal: readsPayload, Avoid: func(q *flow.Node) bool { return assigns(q) || errOutcome(q) }})
		c.R.Check(p == nil, rule, construct, c.pos(call), "assigned to the payload variable unless the call failed",
			"the payload can be measured and encoded without having been replaced by what its minifier returned although the call succeeded: "+pathStr(c, g, p))
	}
	c.R.Floor(rule, "registry calls on the payload in DataURI", n, 1)
}

// R18.10: the count of the percent-encoded length stops early only when the choice is already made.
func (c *Ctx) r1810() {
	const rule = "R18.10"
	c.R.Rule(rule, "minify.DataURI counts the length of the percent-encoded payload and leaves the loop early; afterwards base64 is chosen under a comparison of the two lengths. The count only grows, so leaving early is sound exactly when the comparison that selects base64 already holds: every break of the counting loop (the loop that adds to the variable compared afterwards) is taken under a condition identical, after normalisation, to the one that selects base64 after the loop. Leaving on a tie (`base64Len <= asciiLen` against `base64Len < asciiLen`) lets the selection see a tie where the full count is larger: `data:image/x-foo;base64,IyMjIyMjIw==` comes back two bytes longer, percent-encoded")
	pk := c.pkg(rule, "")
	if pk == nil {
		return
	}
	info := pk.TypesInfo
	fd := c.fn(rule, pk, "DataURI")
	if fd == nil {
		return
	}
	// the selection: the if whose body calls base64 Encode
	var sel *ast.IfStmt
	ast.Inspect(fd.Body, func(x ast.Node) bool {
		ifs, ok := x.(*ast.IfStmt)
		if !ok {
			return true
		}
		for _, ce := range allCalls(ifs.Body) {
			if strings.HasSuffix(calleeName(info, ce), ".Encode") && strings.Contains(calleeName(info, ce), "base64") {
				sel = ifs
			}
		}
		return true
	})
	if sel == nil {
		c.R.Unres(rule, "minify.DataURI/selection of base64", c.pos(fd), "no if statement whose body encodes with base64")
		return
	}
	norm := func(e ast.Expr) string {
		be, ok := ast.Unparen(e).(*ast.BinaryExpr)
		if !ok {
			return nospace(str(e))
		}
		x, y := nospace(str(be.X)), nospace(str(be.Y))
		switch be.Op {
		case token.GTR:
			return y + "<" + x
		case token.GEQ:
			return y + "<=" + x
		}
		return x + be.Op.String() + y
	}
	want := norm(sel.Cond)
	n := 0
	ast.Inspect(fd.Body, func(x ast.Node) bool {
		var body *ast.BlockStmt
		switch l := x.(type) {
		case *ast.RangeStmt:
			body = l.Body
		case *ast.ForStmt:
			body = l.Body
		default:
			return true
		}
		if x.End() > sel.Pos() {
			return true
		}
		// a counting loop: adds to a variable that the selection compares
		counts := false
		ast.Inspect(body, func(z ast.Node) bool {
			if as, ok := z.(*ast.AssignStmt); ok && as.Tok == token.ADD_ASSIGN && len(as.Lhs) == 1 && strings.Contains(want, nospace(str(as.Lhs[0]))) {
				counts = true
			}
			return true
		})
		if !counts {
			return true
		}
		ast.Inspect(body, func(z ast.Node) bool {
			ifs, ok := z.(*ast.IfStmt)
			if !ok {
				return true
			}
			for _, st := range ifs.Body.List {
				if br, ok := st.(*ast.BranchStmt); ok && br.Tok == token.BREAK {
					n++
					got := norm(ifs.Cond)
					c.R.Check(got == want, rule, fmt.Sprintf("minify.DataURI/early exit#%d of the length count is taken when base64 is already chosen", n), c.pos(ifs), "`"+got+"`, the selecting comparison",
						"the counting loop is left under `"+got+"`, the encoding is selected under `"+want+"`: where the two differ (a tie) the selection is made on an incomplete count and the longer encoding can be chosen")
				}
			}
			return true
		})
		return true
	})
	c.R.Floor(rule, "early exits of the length count", n, 1)
}

// allCalls lists the call expressions below a node (function literals included).
func allCalls(n ast.Node) []*ast.CallExpr {
	var out []*ast.CallExpr
	ast.Inspect(n, func(x ast.Node) bool {
		if ce, ok := x.(*ast.CallExpr); ok {
			out = append(out, ce)
		}
		return true
	})
	return out
}
