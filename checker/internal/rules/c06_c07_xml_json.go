package rules

import (
	"fmt"
	"go/ast"
	"go/token"
	"go/types"
	"strings"

	"verif/checker/internal/eval"
	"verif/checker/internal/flow"
	"verif/checker/internal/load"
)

func init() {
	mutant(&Mutant{Name: "c06-comment-resets-the-bracket-count", Property: "C06", File: "xml/xml.go",
		Old: "} else if t.TokenType != xml.TextToken && t.TokenType != xml.CommentToken {\n\t\t\tbrackets = 0", New: "} else if t.TokenType != xml.TextToken {\n\t\t\tbrackets = 0",
		Rule: "R06.9", Construct: "bracket count survives a comment that is dropped"})
	mutant(&Mutant{Name: "c06-bracket-count-reset-before-cdata", Property: "C06", File: "xml/xml.go",
		Old: "\t\tt := *tb.Shift()\n\t\tif t.TokenType == xml.CDATAToken {", New: "\t\tt := *tb.Shift()\n\t\tif t.TokenType != xml.TextToken && t.TokenType != xml.CommentToken {\n\t\t\tbrackets = 0\n\t\t}\n\t\tif t.TokenType == xml.CDATAToken {",
		Rule: "R06.9", Construct: "receives the bracket count of the preceding character data"})
	register(&Property{
		ID:    "C06",
		Level: "other",
		Explain: "Infoset equality is a runtime notion; decided are the structural clauses: (R06.1) the token switch of the XML minifier has a case for every token type of the lexer except comments, and every case writes the token on all paths (enumerated exceptions: the error return, the empty CDATA section); " +
			"(R06.2) with KeepWhitespace the trim next to a start/end tag is unreachable and `omitSpace = false` follows every start and end tag; (R06.3) with KeepWhitespace no whitespace-only text token is recognised for dropping (the empty-element collapse `<a> </a>` → `<a/>`). (R06.4) decoded character references are re-escaped where a parser would not read the bare character back; (R06.5) only character data is rewritten; (R06.6) omitSpace follows the data written last; (R06.7) no `=` for the value-less words of a processing instruction. Not covered: CDATA byte-level round trips, `]]>` produced from `]]&gt;`, white space inside PI content.",
		Run: runC06,
	})
	register(&Property{
		ID:    "C07",
		Level: "other",
		Explain: "Decided: (R07.1) the guard of the number-rewriting branch, evaluated as a pure byte predicate for all 256 values of the first byte, is true exactly for '-' and '0'..'9' (the bytes that can only start a number token in RFC 8259), and the token text is assigned nowhere else, so strings, literals and punctuation reach the writer byte-identical; " +
			"(R07.2) every number rewrite and zero repair is unreachable with KeepNumbers; (R07.3) the leading-zero repair: when the shortened number starts with '.' a \"0\" is written first, when it starts with \"-.\" a \"-0\" is written and the sign dropped, on every path to the write of the number. Not covered: numeric equality (C08), separator state machine (parser), `never longer`.",
		Run: runC07,
	})
	mutant(&Mutant{Name: "c06-processing-instruction-content-decoded", Property: "C06", File: "xml/xml.go",
		Old: "if inPI || len(t.AttrVal) < 2 ||", New: "if len(t.AttrVal) < 2 ||",
		Rule: "R06.10", Construct: "only outside a processing instruction"})
	mutant(&Mutant{Name: "c06-text-written-without-cdata-end-escape", Property: "C06", File: "xml/xml.go",
		Old: "\t\t\tt.Data, brackets = escapeCDATAEnd(t.Data, brackets)\n\t\t\tw.Write(t.Data)\n", New: "\t\t\tw.Write(t.Data)\n",
		Rule: "R06.9", Construct: "after the ]]> escaper"})
	mutant(&Mutant{Name: "c06-pi-dropped", Property: "C06", File: "xml/xml.go",
		Old: "\t\tcase xml.StartTagPIToken:\n\t\t\tw.Write(t.Data)\n", New: "\t\tcase xml.StartTagPIToken:\n",
		Rule: "R06.1", Construct: "case xml.StartTagPIToken"})
	mutant(&Mutant{Name: "c06-doctype-case-removed", Property: "C06", File: "xml/xml.go",
		Old: "\t\tcase xml.DOCTYPEToken:\n\t\t\tw.Write(t.Data)\n", New: "",
		Rule: "R06.1", Construct: "DOCTYPEToken"})
	mutant(&Mutant{Name: "c06-endtag-keeps-omitspace", Property: "C06", File: "xml/xml.go",
		Old: "\t\t\tw.Write(t.Data)\n\t\t\tif o.KeepWhitespace {\n\t\t\t\tomitSpace = false\n\t\t\t}\n\t\t}\n\t}\n}", New: "\t\t\tw.Write(t.Data)\n\t\t}\n\t}\n}",
		Rule: "R06.2", Construct: "case xml.EndTagToken"})
	mutant(&Mutant{Name: "c06-collapse-ignores-keepwhitespace", Property: "C06", File: "xml/xml.go",
		Old: "if !o.KeepWhitespace && next.TokenType == xml.TextToken && parse.IsAllWhitespace(next.Data) {", New: "if next.TokenType == xml.TextToken && parse.IsAllWhitespace(next.Data) {",
		Rule: "R06.3", Construct: "whitespace-only text"})
	mutant(&Mutant{Name: "c06-attr-entities-not-reescaped", Property: "C06", File: "xml/xml.go",
		Old: "val = parse.ReplaceEntities(val, EntitiesMap, AttrRevEntitiesMap)", New: "val = parse.ReplaceEntities(val, EntitiesMap, nil)",
		Rule: "R06.4", Construct: "ReplaceEntities(val)"})
	mutant(&Mutant{Name: "c06-doctype-collapsed", Property: "C06", File: "xml/xml.go",
		Old: "\t\tcase xml.DOCTYPEToken:\n\t\t\tw.Write(t.Data)\n", New: "\t\tcase xml.DOCTYPEToken:\n\t\t\tw.Write(parse.ReplaceMultipleWhitespace(t.Data))\n",
		Rule: "R06.5", Construct: "DOCTYPEToken"})
	mutant(&Mutant{Name: "c06-pi-data-trimmed", Property: "C06", File: "xml/xml.go",
		Old: "\t\tcase xml.StartTagPIToken:\n\t\t\tw.Write(t.Data)\n", New: "\t\tcase xml.StartTagPIToken:\n\t\t\tt.Data = parse.ToLower(t.Data)\n\t\t\tw.Write(t.Data)\n",
		Rule: "R06.5", Construct: "assignment to t.Data"})
	mutant(&Mutant{Name: "c06-cdata-leaves-omitspace", Property: "C06", File: "xml/xml.go",
		Old: "\t\t\tomitSpace = len(t.Text) > 0 && parse.IsWhitespace(t.Text[len(t.Text)-1]) // the next text follows this data, not the tag before it\n", New: "\t\t\tif len(t.Text) > 0 && parse.IsWhitespace(t.Text[len(t.Text)-1]) {\n\t\t\t\tomitSpace = true\n\t\t\t}\n",
		Rule: "R06.6", Construct: "case xml.CDATAToken"})
	mutant(&Mutant{Name: "c06-pi-words-get-equals", Property: "C06", File: "xml/xml.go",
		Old: "\t\t\tif inPI && len(t.AttrVal) == 0 {\n", New: "\t\t\tif inPI && len(t.AttrVal) == 0 && len(t.Text) == 0 {\n",
		Rule: "R06.7", Construct: "not written for a value-less word"})
	mutant(&Mutant{Name: "c06-pi-flag-never-cleared", Property: "C06", File: "xml/xml.go",
		Old: "\t\t\tw.Write(t.Data)\n\t\t\tinPI = false\n", New: "\t\t\tw.Write(t.Data)\n",
		Rule: "R06.7", Construct: "not written for a value-less word"})
	mutant(&Mutant{Name: "c06-attr-whitespace-refs-decoded", Property: "C06", File: "xml/xml.go",
		Old: "val = parse.ReplaceEntities(val, EntitiesMap, AttrRevEntitiesMap)", New: "val = parse.ReplaceEntities(val, EntitiesMap, TextRevEntitiesMap)",
		Rule: "R06.4", Construct: "ReplaceEntities(val)"})
	mutant(&Mutant{Name: "c06-peek-reuse-without-compaction", Property: "C06", File: "xml/buffer.go",
		Old: "\t\t} else {\n\t\t\tbuf = z.buf\n\t\t}\n\t\tcopy(buf[:d], z.buf[z.pos:])\n", New: "\t\t\tcopy(buf[:d], z.buf[z.pos:])\n\t\t} else {\n\t\t\tbuf = z.buf\n\t\t}\n",
		Rule: "R06.8", Construct: "unread tokens moved"})
	mutant(&Mutant{Name: "c07-saved-lexeme-aliases-token", Property: "C07", File: "json/json.go",
		Old: "orig = append(orig, text...) // minify.Number works in-place", New: "orig = text",
		Rule: "R07.12", Construct: "the saved lexeme is a copy"})
	mutant(&Mutant{Name: "c07-saved-lexeme-hoisted", Property: "C07", File: "json/json.go",
		Old: "\t\t\tvar orig []byte\n", New: "",
		Old2: "\tskipComma := true\n", New2: "\tskipComma := true\n\tvar orig []byte\n",
		Rule: "R07.12", Construct: "belongs to the current token"})
	mutant(&Mutant{Name: "c07-zero-restored-blindly", Property: "C07", File: "json/json.go",
		Old: "\t\t\t\tif orig != nil && len(orig) <= len(text) {\n\t\t\t\t\ttext = orig // the leading zero", New: "\t\t\t\tif false {\n\t\t\t\t\ttext = orig // the leading zero",
		Rule: "R07.11", Construct: "byte added#1"})
	mutant(&Mutant{Name: "c07-guard-includes-plus", Property: "C07", File: "json/json.go",
		Old: "('0' <= text[0] && text[0] <= '9' || text[0] == '-')", New: "('+' <= text[0] && text[0] <= '9' || text[0] == '-')",
		Rule: "R07.1", Construct: "number guard"})
	mutant(&Mutant{Name: "c07-strings-trimmed", Property: "C07", File: "json/json.go",
		Old: "\t\tw.Write(text)\n\t}\n}", New: "\t\tif 2 < len(text) && text[1] == ' ' {\n\t\t\ttext = append(text[:1], text[2:]...)\n\t\t}\n\t\tw.Write(text)\n\t}\n}",
		Rule: "R07.1", Construct: "text assigned"})
	mutant(&Mutant{Name: "c07-no-leading-zero", Property: "C07", File: "json/json.go",
		Old: "\t\t\tif text[0] == '.' {\n\t\t\t\tif orig != nil", New: "\t\t\tif text[0] == '.' && len(text) > 8 {\n\t\t\t\tif orig != nil",
		Rule: "R07.3", Construct: "leading zero"})
	mutant(&Mutant{Name: "c07-minus-zero-keeps-sign", Property: "C07", File: "json/json.go",
		Old: "\t\t\t\t\ttext = text[1:]\n\t\t\t\t\tw.Write(minusZeroBytes)\n", New: "\t\t\t\t\tw.Write(minusZeroBytes)\n",
		Rule: "R07.3", Construct: "minus"})
}

// ---------------------------------------------------------------------------
// C06

func runC06(c *Ctx) {
	defer c.tokenBuffer("R06.8", "xml")
	defer c.r069("R06.9", "xml")
	// no state of the minifier survives a call: the output of one document does not depend on the others
	defer c.alsoUnder(map[string]string{"R13.1": "R06.11"}, func(construct string) bool { return strings.Contains(construct, "xml.") || strings.HasPrefix(construct, "floor/") }, func() { c.r131() })
	defer c.r0610()
	const r1, r2, r3 = "R06.1", "R06.2", "R06.3"
	c.R.Rule(r1, "the `switch t.TokenType` of xml.(*Minifier).Minify has a case for every constant of parse/v2/xml.TokenType except CommentToken (comments are the only nodes removed); in every case other than ErrorToken, every path from the case to the next token passes a w.Write(…) on the output writer; the only token skipped before the switch is the CDATA section with empty text")
	c.R.Rule(r2, "assuming o.KeepWhitespace: the trim of the last space of a text token before a start/end tag is unreachable, and in the StartTagToken and EndTagToken cases every path passes `omitSpace = false` (the next text keeps its leading space)")
	c.R.Rule(r3, "assuming o.KeepWhitespace: no test parse.IsAllWhitespace(<peeked token>.Data) can succeed, i.e. no whitespace-only text token is singled out for dropping (the `<a> </a>` → `<a/>` collapse)")
	pk := c.pkg(r1, "xml")
	if pk == nil {
		return
	}
	info := pk.TypesInfo
	fd := c.fn(r1, pk, "Minifier.Minify")
	if fd == nil {
		return
	}
	g := c.graph(pk, fd)
	wObj := paramOfType(info, fd, "io.Writer")
	dep := c.P.Dep(load.ParseMod + "/xml")
	if dep == nil || wObj == nil {
		c.R.Unres(r1, "parse/xml", "-", "dependency package or writer parameter missing")
		return
	}
	// token constants
	tt := dep.Types.Scope().Lookup("TokenType")
	var consts []string
	for _, n := range dep.Types.Scope().Names() {
		if k, ok := dep.Types.Scope().Lookup(n).(*types.Const); ok && tt != nil && types.Identical(k.Type(), tt.Type()) {
			consts = append(consts, n)
		}
	}
	// case nodes of the switch over t.TokenType
	cases := map[string]*flow.Node{}
	for _, n := range g.Nodes {
		if n.Kind == flow.KCase && strings.HasSuffix(str(n.Tag), ".TokenType") {
			if sel, ok := ast.Unparen(n.Expr).(*ast.SelectorExpr); ok {
				cases[sel.Sel.Name] = n
			}
		}
	}
	writes := func(y *flow.Node) bool {
		a := y.Ast()
		if a == nil || y.Kind != flow.KStmt {
			return false
		}
		ok := false
		flowInspectCalls(a, func(call *ast.CallExpr) {
			if sel, isSel := call.Fun.(*ast.SelectorExpr); isSel && sel.Sel.Name == "Write" {
				if id, isId := ast.Unparen(sel.X).(*ast.Ident); isId && info.Uses[id] == wObj {
					ok = true
				}
			}
		})
		return ok
	}
	// "next token": the statement t := *tb.Shift() at the loop head
	var head *flow.Node
	for _, n := range g.Nodes {
		if n.Kind == flow.KStmt && n.Ast() != nil {
			if as, ok := n.Stmt.(*ast.AssignStmt); ok && as.Tok == token.DEFINE && strings.Contains(str(as.Rhs[0]), "tb.Shift()") {
				if head == nil {
					head = n
				}
			}
		}
	}
	if head == nil {
		c.R.Unres(r1, "xml.Minifier.Minify/token loop", c.pos(fd), "`t := *tb.Shift()` not found")
		return
	}
	for _, k := range consts {
		construct := "xml.Minifier.Minify/case xml." + k
		cn, ok := cases[k]
		switch {
		case k == "CommentToken":
			if ok {
				c.R.Exists(r1, construct, c.pos(cn.Expr), "comments may be handled; they are the only removable nodes")
			} else {
				c.R.Exists(r1, construct, "-", "no case: comments are dropped (documented)")
			}
			continue
		case !ok:
			c.R.Bad(r1, construct, c.pos(fd), "the lexer produces "+k+" but the minifier's switch has no case for it: such nodes vanish from the output")
			continue
		case k == "ErrorToken":
			c.R.Exists(r1, construct, c.pos(cn.Expr), "end of input / error (decided under C14)")
			continue
		}
		var tn *flow.Node
		for _, s := range cn.Succs {
			if s.Kind == flow.KTrue {
				tn = s
			}
		}
		p := g.Path(flow.Search{From: []*flow.Node{tn}, Goal: func(y *flow.Node) bool { return y == head || y.Kind == flow.KExit }, Avoid: writes})
		c.R.Check(p == nil, r1, construct, c.pos(cn.Expr), "written on every path", "a "+k+" can pass through the minifier without anything being written: the node is removed from the document: "+pathStr(c, g, p))
	}
	c.R.Floor(r1, "xml token types", len(consts), 10)
	// skips before the switch: continue statements not inside a case
	for _, n := range g.Nodes {
		if b, ok := n.Stmt.(*ast.BranchStmt); n.Kind == flow.KStmt && ok && b.Tok == token.CONTINUE {
			if c.caseLabel(b) != "" {
				continue
			}
			okSkip := false
			for _, f := range g.DomFacts(n) {
				if f.Value && f.Test.Kind == flow.KCond && nospace(str(f.Test.Expr)) == "len(t.Text)==0" {
					okSkip = true
				}
			}
			c.R.Check(okSkip, r1, "xml.Minifier.Minify/skip before the switch", c.pos(b), "only the empty CDATA section", "a token is skipped before the switch other than the empty CDATA section")
		}
	}
	// R06.2
	for _, k := range []string{"StartTagToken", "EndTagToken"} {
		cn := cases[k]
		if cn == nil {
			continue
		}
		var tn *flow.Node
		for _, s := range cn.Succs {
			if s.Kind == flow.KTrue {
				tn = s
			}
		}
		reset := func(y *flow.Node) bool {
			rhs, ok := assignsTo(y, func(l ast.Expr) bool { return str(l) == "omitSpace" })
			return ok && str(rhs) == "false"
		}
		p := g.Path(flow.Search{From: []*flow.Node{tn}, Goal: func(y *flow.Node) bool { return y == head || y.Kind == flow.KExit }, Avoid: reset, Assume: map[string]bool{"o.KeepWhitespace": true}, TrackFields: true})
		c.R.Check(p == nil, r2, "xml.Minifier.Minify/case xml."+k+"/omitSpace=false when KeepWhitespace", c.pos(cn.Expr), "the space after the tag is kept", "with KeepWhitespace the space following a "+k+" can still be dropped entirely: "+pathStr(c, g, p))
	}
	trims := 0
	for _, y := range g.Nodes {
		rhs, ok := assignsTo(y, func(l ast.Expr) bool { return str(l) == "t.Data" })
		if !ok || !strings.HasPrefix(nospace(str(rhs)), "t.Data[:len(t.Data)-1]") {
			continue
		}
		uncond := false
		for _, f := range g.DomFacts(y) {
			if f.Value && f.Test.Kind == flow.KCond {
				s := str(f.Test.Expr)
				if s == "next.TokenType == xml.ErrorToken" || s == "next.TokenType == xml.TextToken" || s == "next.TokenType == xml.CDATAToken" {
					uncond = true
				}
			}
		}
		if uncond {
			continue
		}
		trims++
		p := unreachableWhen(g, y, "o.KeepWhitespace", true)
		c.R.Check(p == nil, r2, fmt.Sprintf("xml.Minifier.Minify/tag-adjacent trim#%d unreachable when KeepWhitespace", trims), c.pos(y.Stmt), "guarded", "with KeepWhitespace the only space before a tag is removed: "+pathStr(c, g, p))
	}
	c.R.Floor(r2, "tag-adjacent trims", trims, 1)
	// R06.3
	k := 0
	for _, y := range g.Nodes {
		if y.Kind != flow.KCond {
			continue
		}
		call := isCall(info, ast.Unparen(y.Expr), load.ParseMod+".IsAllWhitespace")
		if call == nil {
			continue
		}
		k++
		var tn *flow.Node
		for _, s := range y.Succs {
			if s.Kind == flow.KTrue {
				tn = s
			}
		}
		p := unreachableWhen(g, tn, "o.KeepWhitespace", true)
		c.R.Check(p == nil, r3, fmt.Sprintf("xml.Minifier.Minify/whitespace-only text recognised for dropping#%d", k), c.pos(y.Expr), "unreachable when KeepWhitespace", "with KeepWhitespace a whitespace-only text between tags is still dropped entirely (`<a> </a>` → `<a/>`): "+pathStr(c, g, p))
	}
	c.R.Floor(r3, "whitespace-only text tests", k, 1)
	c.entityReescape("R06.4", "xml", 2, true)

	// R06.6: omitSpace describes the last thing written
	const r6 = "R06.6"
	c.R.Rule(r6, "omitSpace (`the next text must not start with a space`) has to describe the token written last. In the cases that write character data — TextToken and CDATAToken — it is assigned on every path from the case to the next token: a value left over from an earlier tag makes the following text lose its leading space although the data just written ends in a non-space (`<a><![CDATA[x]]> y</a>` → `<a>xy</a>`: two words joined)")
	omitAssigned := func(y *flow.Node) bool {
		_, ok := assignsTo(y, func(l ast.Expr) bool { return str(l) == "omitSpace" })
		return ok
	}
	for _, k := range []string{"TextToken", "CDATAToken"} {
		cn := cases[k]
		if cn == nil {
			continue
		}
		var tn *flow.Node
		for _, s := range cn.Succs {
			if s.Kind == flow.KTrue {
				tn = s
			}
		}
		p := g.Path(flow.Search{From: []*flow.Node{tn}, Goal: func(y *flow.Node) bool { return y == head || y.Kind == flow.KExit }, Avoid: omitAssigned})
		c.R.Check(p == nil, r6, "xml.Minifier.Minify/case xml."+k+"/omitSpace follows the written data", c.pos(cn.Expr), "assigned on every path", "after a "+k+" is written omitSpace can keep the value it had before: "+pathStr(c, g, p))
	}

	// R06.7: `=` only in front of a value
	const r7 = "R06.7"
	c.R.Rule(r7, "the lexer delivers the words of a processing instruction (`<?pi some data?>`) as attribute tokens without a value. In the AttributeToken case, under the stipulation that the token has no value (t.AttrVal empty), the write of the `=` sign is reachable only through the false outcome of a flag that is set in the StartTagPIToken case and cleared in the StartTagClosePIToken case (i.e. outside <?…?>; the suite pins `<!doctype html>` → `<!doctype html=>`): otherwise the PI content comes out as `some= data=`")
	if cn := cases["AttributeToken"]; cn != nil {
		nEq := 0
		for _, y := range g.Nodes {
			a := y.Ast()
			if a == nil || y.Kind != flow.KStmt || c.caseLabel(a) != "case xml.AttributeToken" {
				continue
			}
			isEq := false
			flowInspectCalls(a, func(call *ast.CallExpr) {
				if sel, isSel := call.Fun.(*ast.SelectorExpr); isSel && sel.Sel.Name == "Write" && len(call.Args) == 1 {
					if v, err := c.Ev.Expr(pk, call.Args[0]); err == nil {
						if b, isB := v.([]byte); isB && string(b) == "=" {
							isEq = true
						}
					}
				}
			})
			if !isEq {
				continue
			}
			nEq++
			// boolean locals that are true exactly between <?target and ?>: assigned true in the
			// StartTagPIToken case and false in the StartTagClosePIToken case
			piVars := map[string]bool{}
			for _, z := range g.Nodes {
				if as, ok := z.Stmt.(*ast.AssignStmt); ok && z.Kind == flow.KStmt && len(as.Lhs) == 1 && len(as.Rhs) == 1 {
					lab := c.caseLabel(as)
					if lab == "case xml.StartTagPIToken" && str(as.Rhs[0]) == "true" {
						piVars[str(as.Lhs[0])] = true
					}
				}
			}
			for v := range piVars {
				cleared := false
				for _, z := range g.Nodes {
					if as, ok := z.Stmt.(*ast.AssignStmt); ok && z.Kind == flow.KStmt && len(as.Lhs) == 1 && len(as.Rhs) == 1 {
						if c.caseLabel(as) == "case xml.StartTagClosePIToken" && str(as.Lhs[0]) == v && str(as.Rhs[0]) == "false" {
							cleared = true
						}
					}
				}
				if !cleared {
					delete(piVars, v)
				}
			}
			var caseTrue *flow.Node
			for _, sc := range cn.Succs {
				if sc.Kind == flow.KTrue {
					caseTrue = sc
				}
			}
			notInPI := func(z *flow.Node) bool {
				if z.Kind != flow.KFalse || z.Of == nil || z.Of.Kind != flow.KCond {
					return false
				}
				return piVars[str(z.Of.Expr)]
			}
			valueless := map[string]bool{"len(t.AttrVal) == 0": true, "t.AttrVal == nil": true, "len(t.AttrVal) != 0": false, "t.AttrVal != nil": false, "0 < len(t.AttrVal)": false, "len(t.AttrVal) > 0": false}
			p := g.Path(flow.Search{From: []*flow.Node{caseTrue}, Goal: func(z *flow.Node) bool { return z == y }, Avoid: notInPI, AssumeRaw: valueless})
			c.R.Check(p == nil, r7, fmt.Sprintf("xml.Minifier.Minify/case xml.AttributeToken/`=`#%d not written for a value-less word of a PI", nEq), c.pos(a), "unreachable for a token without value inside <?…?>", "`=` is written for a value-less attribute token inside a processing instruction: `<?pi some data?>` becomes `<?pi some= data=?>`: "+pathStr(c, g, p))
		}
		c.R.Floor(r7, "writes of the equals sign", nEq, 1)
	}

	// R06.5: which token kinds may be rewritten at all
	const r5 = "R06.5"
	c.R.Rule(r5, "only character data may be rewritten: (a) every call in package xml of a whitespace-rewriting helper of parse/v2 (a function returning []byte whose name contains `Whitespace`) lies in the TextToken case; (b) every assignment to t.Data / t.Text / t.AttrVal or to one of their elements lies in the TextToken case, in the EndTagToken case as a reslice / element store of t.Data itself (`</a  >` → `</a>`), or under the test t.TokenType == xml.CDATAToken (CDATA → text conversion); (c) in the cases of the markup tokens that have no rewrite (DOCTYPE, start tag, PI open/close, void close) the only thing written is t.Data. A DOCTYPE, PI or tag passed through a collapsing/trimming helper changes literals of the internal subset, PI content or names")
	verbatim := map[string]bool{"DOCTYPEToken": true, "StartTagToken": true, "StartTagPIToken": true, "StartTagCloseVoidToken": true, "StartTagClosePIToken": true}
	nWS := 0
	for _, f := range load.FuncDecls(pk) {
		if f.Body == nil {
			continue
		}
		ast.Inspect(f.Body, func(n ast.Node) bool {
			call, ok := n.(*ast.CallExpr)
			if !ok {
				return true
			}
			fo, _ := callee(info, call).(*types.Func)
			if fo == nil || fo.Pkg() == nil || fo.Pkg().Path() != load.ParseMod || !strings.Contains(fo.Name(), "Whitespace") {
				return true
			}
			sig := fo.Type().(*types.Signature)
			if sig.Results().Len() != 1 || !isByteSlice(sig.Results().At(0).Type()) {
				return true
			}
			nWS++
			lab := ""
			if f == fd {
				lab = c.caseLabel(call)
			}
			c.R.Check(lab == "case xml.TextToken", r5, "xml."+load.FuncName(f)+"/"+fo.Name()+" only on character data", c.pos(call), "in the TextToken case", "parse."+fo.Name()+" is applied outside the TextToken case ("+lab+"): whitespace inside markup (DOCTYPE literals, PI content, attribute values) is significant and gets rewritten")
			return true
		})
	}
	c.R.Floor(r5, "whitespace helper calls", nWS, 1)
	tokField := func(e ast.Expr) bool {
		for {
			switch x := ast.Unparen(e).(type) {
			case *ast.IndexExpr:
				e = x.X
				continue
			case *ast.SliceExpr:
				e = x.X
				continue
			}
			break
		}
		s := str(e)
		return s == "t.Data" || s == "t.Text" || s == "t.AttrVal"
	}
	nAsg := 0
	for _, y := range g.Nodes {
		as, ok := y.Stmt.(*ast.AssignStmt)
		if !ok || y.Kind != flow.KStmt {
			continue
		}
		for i, l := range as.Lhs {
			if !tokField(l) {
				continue
			}
			nAsg++
			lab := c.caseLabel(as)
			okAsg, why := false, ""
			switch lab {
			case "case xml.TextToken":
				okAsg = true
			case "case xml.EndTagToken":
				if _, isIdx := ast.Unparen(l).(*ast.IndexExpr); isIdx && strings.HasPrefix(str(l), "t.Data[") {
					okAsg = true
				} else if i < len(as.Rhs) {
					if sl, isSl := ast.Unparen(as.Rhs[i]).(*ast.SliceExpr); isSl && str(sl.X) == "t.Data" && str(l) == "t.Data" {
						okAsg = true
					}
				}
				why = "in the end tag only the space before `>` may be cut (reslice of t.Data)"
			case "":
				for _, f := range g.DomFacts(y) {
					if f.Value && f.Test.Kind == flow.KCond && nospace(str(f.Test.Expr)) == "t.TokenType==xml.CDATAToken" {
						okAsg = true
					}
				}
				why = "before the switch only a CDATA section is converted"
			default:
				why = "this token kind has no licensed rewrite"
			}
			c.R.Check(okAsg, r5, "xml.Minifier.Minify/assignment to "+str(l)+" ("+lab+")", c.pos(as), "character data, end-tag trim or CDATA conversion", "the token's bytes are replaced in "+lab+": "+why)
		}
	}
	c.R.Floor(r5, "token data assignments", nAsg, 5)
	for k := range verbatim {
		cn := cases[k]
		if cn == nil {
			continue
		}
		cc, _ := c.P.Parent(cn.Expr).(*ast.CaseClause)
		if cc == nil {
			c.R.Unres(r5, "xml.Minifier.Minify/case xml."+k+"/verbatim", c.pos(cn.Expr), "case clause not found")
			continue
		}
		var bad []string
		nw := 0
		for _, st := range cc.Body {
			flowInspectCalls(st, func(call *ast.CallExpr) {
				if sel, isSel := call.Fun.(*ast.SelectorExpr); isSel && sel.Sel.Name == "Write" {
					if id, isId := ast.Unparen(sel.X).(*ast.Ident); isId && info.Uses[id] == wObj && len(call.Args) == 1 {
						nw++
						if str(call.Args[0]) != "t.Data" {
							bad = append(bad, "writes "+str(call.Args[0])+" at "+c.pos(call))
						}
					}
				}
			})
		}
		c.R.Check(len(bad) == 0 && nw > 0, r5, "xml.Minifier.Minify/case xml."+k+"/verbatim", c.pos(cn.Expr), "t.Data written as is", "a "+k+" is not written verbatim: "+strings.Join(bad, "; "))
	}
}

// entityReescape (R06.4 / R05.4): decoded character references never leave a bare markup character.
func (c *Ctx) entityReescape(rule, rel string, floor int, whitespace bool) {
	c.R.Rule(rule, "package "+rel+": parse.ReplaceEntities / ReplaceMultipleWhitespaceAndEntities decode numeric character references (&#60; &#38;) to the bare character; in XML both text and attribute values must not contain a bare `<` or `&`; a literal CR does not survive end-of-line handling, and a literal TAB/LF/CR in an attribute value does not survive attribute-value normalisation. Every call therefore passes, as its reverse-entities argument, a table that evaluates to a map with entries for '<', '&', CR — and TAB, LF when the argument is an attribute value — whose values decode back to those characters — otherwise `a=\"&#60;\"` becomes `a=\"<\"` (ill-formed) and `x &#60;b&#62; y` becomes markup")
	pk := c.pkg(rule, rel)
	if pk == nil {
		return
	}
	info := pk.TypesInfo
	n := 0
	for _, fd := range load.FuncDecls(pk) {
		for _, call := range findCalls(info, fd.Body, true, load.ParseMod+".ReplaceEntities", load.ParseMod+".ReplaceMultipleWhitespaceAndEntities") {
			n++
			construct := fmt.Sprintf("%s.%s/%s(%s) re-escapes markup characters", pk.Name, load.FuncName(fd), str(call.Fun), str(call.Args[0]))
			// context: attribute value or character data
			need := []byte{'<', '&', '\r'}
			ctx := "text"
			isAttr := strings.Contains(str(call.Args[0]), "AttrVal")
			if id, ok := ast.Unparen(call.Args[0]).(*ast.Ident); ok && !isAttr {
				ast.Inspect(fd.Body, func(x ast.Node) bool {
					if as, ok := x.(*ast.AssignStmt); ok && len(as.Lhs) == 1 && len(as.Rhs) == 1 {
						if l, isId := as.Lhs[0].(*ast.Ident); isId && (info.Defs[l] != nil && info.Defs[l] == info.Uses[id]) && strings.Contains(str(as.Rhs[0]), "AttrVal") {
							isAttr = true
						}
					}
					return true
				})
			}
			if isAttr {
				need, ctx = []byte{'<', '&', '\t', '\n', '\r'}, "attribute value"
			}
			if !whitespace {
				// SVG: the minifier treats white space in attribute values and text as collapsible throughout
				need = []byte{'<', '&'}
			}
			var missing []string
			if isNilExpr(call.Args[2]) {
				for _, ch := range need {
					missing = append(missing, fmt.Sprintf("%q", ch))
				}
			} else if v, err := c.Ev.Expr(pk, call.Args[2]); err != nil {
				c.R.Unres(rule, construct, c.pos(call), "reverse-entities argument cannot be evaluated: "+err.Error())
				continue
			} else if m, ok := v.(*eval.Map); ok {
				for _, ch := range need {
					val, has := m.Get(int64(ch))
					b, _ := val.([]byte)
					if !has || xmlUnescape(string(b)) != string(ch) {
						missing = append(missing, fmt.Sprintf("%q", ch))
					}
				}
			} else {
				for _, ch := range need {
					missing = append(missing, fmt.Sprintf("%q", ch))
				}
			}
			c.R.Check(len(missing) == 0, rule, construct, c.pos(call), "reverse map covers what a "+ctx+" must keep escaped",
				"a numeric character reference for "+strings.Join(missing, " / ")+" in a "+ctx+" is decoded and the bare character is written into the document: a bare `<`/`&` is ill-formed or becomes markup; a literal tab/newline in an attribute value is normalised to a space and a literal CR to LF by every XML parser (XML 1.0 §3.3.3, §2.11), so only the reference keeps the character")
		}
	}
	c.R.Floor(rule, rel+" entity replacement calls", n, floor)
}

// ---------------------------------------------------------------------------
// C07

// evalBytePred evaluates a boolean expression over the single byte expression `v` (e.g. text[0]).
func evalBytePred(info *types.Info, e ast.Expr, v string, b int64) (bool, bool) {
	e = ast.Unparen(e)
	switch x := e.(type) {
	case *ast.UnaryExpr:
		if x.Op == token.NOT {
			r, ok := evalBytePred(info, x.X, v, b)
			return !r, ok
		}
	case *ast.BinaryExpr:
		switch x.Op {
		case token.LAND:
			l, ok1 := evalBytePred(info, x.X, v, b)
			r, ok2 := evalBytePred(info, x.Y, v, b)
			return l && r, ok1 && ok2
		case token.LOR:
			l, ok1 := evalBytePred(info, x.X, v, b)
			r, ok2 := evalBytePred(info, x.Y, v, b)
			return l || r, ok1 && ok2
		case token.EQL, token.NEQ, token.LSS, token.LEQ, token.GTR, token.GEQ:
			val := func(e ast.Expr) (int64, bool) {
				if str(e) == v {
					return b, true
				}
				return intConst(info, e)
			}
			l, ok1 := val(x.X)
			r, ok2 := val(x.Y)
			if !ok1 || !ok2 {
				return false, false
			}
			switch x.Op {
			case token.EQL:
				return l == r, true
			case token.NEQ:
				return l != r, true
			case token.LSS:
				return l < r, true
			case token.LEQ:
				return l <= r, true
			case token.GTR:
				return l > r, true
			case token.GEQ:
				return l >= r, true
			}
		}
	}
	return false, false
}

func runC07(c *Ctx) {
	runC07own(c)
	c.alsoUnder(map[string]string{"R13.1": "R07.14"}, func(construct string) bool { return strings.Contains(construct, "json.") || strings.HasPrefix(construct, "floor/") }, func() { c.r131() })
	// JSON numbers are rewritten by minify.Number: its value-level shape rules are necessary for `numerically equal`
	c.alsoUnder(map[string]string{"R08.3": "R07.4", "R08.4": "R07.5", "R08.5": "R07.6", "R08.6": "R07.7", "R08.7": "R07.8", "R08.8": "R07.9", "R08.9": "R07.10", "R08.10": "R07.13", "R08.14": "R07.15"}, func(construct string) bool {
		return strings.Contains(construct, "minify.Number") || strings.HasPrefix(construct, "floor/")
	}, func() { runC08(c) })
}

func runC07own(c *Ctx) {
	const r1, r2, r3 = "R07.1", "R07.2", "R07.3"
	c.R.Rule(r1, "in json.(*Minifier).Minify the condition of the branch that calls minify.Number, restricted to its conjuncts over text[0], holds exactly for the bytes '-' and '0'..'9' (evaluated for all 256 byte values); the variable holding the token text is assigned only inside that branch (besides its definition from the parser), so every other token is written unchanged")
	c.R.Rule(r2, "assuming o.KeepNumbers: the call of minify.Number and the writes of the zero-repair bytes are unreachable")
	c.R.Rule(r3, "on every path from the minify.Number call to the write of the number: if text[0] == '.' then \"0\" is written before it; if text[0] == '-' and text[1] == '.' then \"-0\" is written before it and text is advanced past the sign (or a copy of the token taken before the call is written instead); the repair constants evaluate to \"0\" and \"-0\"")
	pk := c.pkg(r1, "json")
	if pk == nil {
		return
	}
	info := pk.TypesInfo
	fd := c.fn(r1, pk, "Minifier.Minify")
	if fd == nil {
		return
	}
	g := c.graph(pk, fd)
	var numN *flow.Node
	for _, n := range g.Nodes {
		if a := n.Ast(); a != nil && n.Kind == flow.KStmt && len(findCalls(info, a, false, load.Mod+".Number")) > 0 {
			numN = n
		}
	}
	if numN == nil {
		c.R.Unres(r1, "json.Minifier.Minify/number branch", c.pos(fd), "call of minify.Number not found")
		return
	}
	call := findCalls(info, numN.Ast(), false, load.Mod+".Number")[0]
	textName := str(call.Args[0])
	// enclosing if
	var ifs *ast.IfStmt
	for x := c.P.Parent(call); x != nil; x = c.P.Parent(x) {
		if i, ok := x.(*ast.IfStmt); ok {
			ifs = i
			break
		}
	}
	if ifs == nil {
		c.R.Bad(r1, "json.Minifier.Minify/number guard", c.pos(call), "minify.Number is applied unconditionally: strings and literals would be rewritten as numbers")
	} else {
		// conjuncts mentioning text[0]
		var conj []ast.Expr
		var flat func(e ast.Expr)
		flat = func(e ast.Expr) {
			e = ast.Unparen(e)
			if b, ok := e.(*ast.BinaryExpr); ok && b.Op == token.LAND {
				flat(b.X)
				flat(b.Y)
				return
			}
			conj = append(conj, e)
		}
		flat(ifs.Cond)
		v := textName + "[0]"
		var pred []ast.Expr
		for _, e := range conj {
			if strings.Contains(str(e), v) {
				pred = append(pred, e)
			}
		}
		var wrong []string
		undecided := len(pred) == 0
		for b := int64(0); b < 256 && !undecided; b++ {
			res := true
			for _, e := range pred {
				r, ok := evalBytePred(info, e, v, b)
				if !ok {
					undecided = true
				}
				res = res && r
			}
			want := b == '-' || b >= '0' && b <= '9'
			if res != want {
				wrong = append(wrong, fmt.Sprintf("%q→%v", rune(b), res))
			}
		}
		construct := "json.Minifier.Minify/number guard over " + v
		switch {
		case undecided:
			c.R.Unres(r1, construct, c.pos(ifs.Cond), "the guard is not a pure byte predicate over "+v)
		case len(wrong) > 0:
			c.R.Bad(r1, construct, c.pos(ifs.Cond), "the number branch is entered for bytes that do not start a JSON number, or skipped for some that do: "+strings.Join(wrong, " "))
		default:
			c.R.OK(r1, construct, c.pos(ifs.Cond), "true exactly for '-' and '0'..'9' (256 values evaluated)")
		}
		// non-empty guard precedes the index
		nonEmpty := false
		for _, e := range conj {
			s := nospace(str(e))
			if s == "0<len("+textName+")" || s == "len("+textName+")>0" || s == "len("+textName+")!=0" {
				nonEmpty = true
			}
		}
		c.R.Check(nonEmpty, r1, "json.Minifier.Minify/number guard non-empty", c.pos(ifs.Cond), "0 < len(text) precedes text[0]", "text[0] is read without a length test")
	}
	// assignments to text
	defs := 0
	for _, n := range g.Nodes {
		if _, ok := assignsTo(n, func(l ast.Expr) bool { return str(l) == textName }); !ok {
			continue
		}
		as := n.Stmt.(*ast.AssignStmt)
		if as.Tok == token.DEFINE {
			defs++
			continue
		}
		inBranch := ifs != nil && ifs.Body.Pos() <= as.Pos() && as.End() <= ifs.Body.End()
		c.R.Check(inBranch, r1, "json.Minifier.Minify/text assigned "+str0(as), c.pos(as), "inside the number branch", "the token text is modified outside the number branch: strings, literals or punctuation are no longer byte-identical")
	}
	c.R.Check(defs == 1, r1, "json.Minifier.Minify/text single definition", c.pos(fd), "defined once from the parser", fmt.Sprintf("%d definitions of the token text", defs))
	// final write
	var writeN *flow.Node
	for _, n := range g.Nodes {
		a := n.Ast()
		if a == nil || n.Kind != flow.KStmt {
			continue
		}
		flowInspectCalls(a, func(cl *ast.CallExpr) {
			if sel, ok := cl.Fun.(*ast.SelectorExpr); ok && sel.Sel.Name == "Write" && len(cl.Args) == 1 && str(cl.Args[0]) == textName {
				writeN = n
			}
		})
	}
	if writeN == nil {
		c.R.Bad(r1, "json.Minifier.Minify/token written", c.pos(fd), "w.Write(text) not found")
		return
	}
	// R07.2
	for i, n := range append([]*flow.Node{numN}, zeroWriteNodes(c, pk, g)...) {
		p := unreachableWhen(g, n, "o.KeepNumbers", true)
		c.R.Check(p == nil, r2, fmt.Sprintf("json.Minifier.Minify/number rewrite site#%d unreachable when KeepNumbers", i+1), c.pos(n.Ast()), "guarded", "with KeepNumbers a number lexeme is still rewritten: "+pathStr(c, g, p))
	}
	witness := map[types.Object]bool{}
	for _, n := range g.Nodes {
		if n.Kind != flow.KStmt || n == numN || n.Ast() == nil || ifs == nil || n.Ast().Pos() < ifs.Body.Pos() || n.Ast().End() > numN.Ast().Pos() {
			continue
		}
		as, ok := n.Stmt.(*ast.AssignStmt)
		if !ok {
			continue
		}
		mentionsText := false
		for _, r := range as.Rhs {
			ast.Inspect(r, func(q ast.Node) bool {
				if id, ok := q.(*ast.Ident); ok && id.Name == textName {
					mentionsText = true
				}
				return true
			})
		}
		if !mentionsText {
			continue
		}
		for _, l := range as.Lhs {
			if id, ok := l.(*ast.Ident); ok && id.Name != textName {
				if o := info.ObjectOf(id); o != nil {
					witness[o] = true
				}
			}
		}
	}
	// an assignment of a pre-call copy back to text: the original lexeme is written instead of the rewritten one
	restores := func(y *flow.Node) bool {
		rhs, ok := assignsTo(y, func(l ast.Expr) bool { return str(l) == textName })
		if !ok {
			return false
		}
		id, isId := ast.Unparen(rhs).(*ast.Ident)
		return isId && witness[info.Uses[id]]
	}
	// R07.3
	zeroV, _, _ := c.Ev.PackageVar(pk, "zeroBytes")
	minusV, _, _ := c.Ev.PackageVar(pk, "minusZeroBytes")
	zb, _ := zeroV.([]byte)
	mb, _ := minusV.([]byte)
	c.R.Check(string(zb) == "0" && string(mb) == "-0", r3, "json/leading zero constants", "-", "\"0\" and \"-0\"", fmt.Sprintf("repair constants are %q and %q", zb, mb))
	writesVar := func(name string) func(*flow.Node) bool {
		return func(y *flow.Node) bool {
			a := y.Ast()
			return a != nil && y.Kind == flow.KStmt && mentionsObj(info, a, load.Mod+"/json."+name) && strings.Contains(str0(a), "Write")
		}
	}
	v0, v1 := textName+"[0]", textName+"[1]"
	raw := func(m map[string]bool) flow.Search {
		return flow.Search{From: []*flow.Node{numN}, Goal: func(y *flow.Node) bool { return y == writeN }, AssumeRaw: m}
	}
	q := raw(map[string]bool{v0 + " == '.'": true})
	q.Avoid = func(y *flow.Node) bool { return writesVar("zeroBytes")(y) || restores(y) }
	p := g.Path(q)
	c.R.Check(p == nil, r3, "json.Minifier.Minify/leading zero restored for .5", c.pos(numN.Ast()), "\"0\" written before a number starting with '.'", "minify.Number may return `.5`; it can reach the output without the leading 0 that JSON requires: "+pathStr(c, g, p))
	// text[1] == '.' presupposes a second byte: the length tests are stipulated accordingly
	q = raw(map[string]bool{v0 + " == '.'": false, v0 + " == '-'": true, v1 + " == '.'": true,
		"1 < len(" + textName + ")": true, "len(" + textName + ") > 1": true, "2 <= len(" + textName + ")": true, "len(" + textName + ") >= 2": true})
	q.Avoid = func(y *flow.Node) bool { return writesVar("minusZeroBytes")(y) || restores(y) }
	p = g.Path(q)
	c.R.Check(p == nil, r3, "json.Minifier.Minify/leading zero restored for minus .5", c.pos(numN.Ast()), "\"-0\" written before a number starting with \"-.\"", "`-.5` can reach the output without the leading 0 that JSON requires: "+pathStr(c, g, p))
	// after writing "-0" the sign is dropped from text
	for _, n := range g.Nodes {
		if !writesVar("minusZeroBytes")(n) {
			continue
		}
		adv := func(y *flow.Node) bool {
			rhs, ok := assignsTo(y, func(l ast.Expr) bool { return str(l) == textName })
			return ok && nospace(str(rhs)) == textName+"[1:]"
		}
		before := g.MustPassBefore(n, adv, flow.Search{From: nil}) == nil && g.Dominates(numN, n)
		after := g.Path(flow.Search{From: []*flow.Node{n}, Goal: func(y *flow.Node) bool { return y == writeN }, Avoid: adv}) == nil
		// "before" must be after the Number call: check an advance node between numN and n
		betw := false
		for _, y := range g.Nodes {
			if adv(y) && g.Dominates(numN, y) && g.Dominates(y, n) {
				betw = true
			}
		}
		_ = before
		c.R.Check(betw || after, r3, "json.Minifier.Minify/minus sign dropped after writing -0", c.pos(n.Ast()), "text = text[1:] accompanies the \"-0\" write", "\"-0\" is written but the sign stays in the number: `-.5` becomes `-0-.5`")
	}
	// R07.11: a byte is added only after looking at what the input was
	const r11 = "R07.11"
	c.R.Rule(r11, "minify.Number returns the shortest form, dropping the zero before the dot; JSON needs that zero back, and for an input that was already shortest in exponent form (`1e-3` → `.001`) the repaired number `0.001` is longer than the input. The output is never longer than the input only if the decision to add a byte consults the input: every path from the minify.Number call to a write of a repair constant passes a test of a variable that was set from the token before the call (its length or a copy — the call overwrites the token in place)")
	consults := func(y *flow.Node) bool {
		if y.Kind != flow.KCond {
			return false
		}
		found := false
		ast.Inspect(y.Expr, func(q ast.Node) bool {
			if id, ok := q.(*ast.Ident); ok && witness[info.Uses[id]] {
				found = true
			}
			return true
		})
		return found
	}
	// R07.12: what is consulted, and written instead, is this token's own lexeme
	const r12 = "R07.12"
	c.R.Rule(r12, "the saved input of R07.11 must be the lexeme of the token at hand, unharmed: (a) it is a copy — every assignment to a witness slice is a copying construct (append(<itself, itself[:0] or nil>, text...), bytes.Clone / parse.Copy, a conversion through string), because minify.Number rewrites its argument in place (`orig = text` keeps the rewritten bytes: `[1e-3]` → `[.001]`); (b) it is this token's — on every path from the fetch of a token (the assignment of text from the parser) to a read of a witness, the witness is assigned: a buffer hoisted out of the loop still holds the previous number (`[1e2, 0.25]` → `[100,1e2]`)")
	var fetch *flow.Node
	for _, n := range g.Nodes {
		if as, ok := n.Stmt.(*ast.AssignStmt); ok && n.Kind == flow.KStmt && as.Tok == token.DEFINE {
			for _, l := range as.Lhs {
				if id, ok := l.(*ast.Ident); ok && id.Name == textName {
					fetch = n
				}
			}
		}
	}
	nW := 0
	for o := range witness {
		o := o
		nW++
		assigns := func(y *flow.Node) bool {
			if y.Kind != flow.KStmt {
				return false
			}
			if y.Spec != nil {
				for _, nm := range y.Spec.Names {
					if info.Defs[nm] == o {
						return true
					}
				}
			}
			if as, ok := y.Stmt.(*ast.AssignStmt); ok {
				for _, l := range as.Lhs {
					if id, ok := l.(*ast.Ident); ok && info.ObjectOf(id) == o {
						return true
					}
				}
			}
			return false
		}
		reads := func(y *flow.Node) bool {
			a := y.Ast()
			if a == nil || y.Kind == flow.KRange {
				return false
			}
			var root ast.Node = a
			if y.Kind == flow.KCond || y.Kind == flow.KCase {
				root = y.Expr
			}
			hit := false
			ast.Inspect(root, func(q ast.Node) bool {
				if as, ok := q.(*ast.AssignStmt); ok {
					// only the right-hand sides read
					for _, r := range as.Rhs {
						ast.Inspect(r, func(q2 ast.Node) bool {
							if id, ok := q2.(*ast.Ident); ok && info.Uses[id] == o {
								hit = true
							}
							return true
						})
					}
					return false
				}
				if id, ok := q.(*ast.Ident); ok && info.Uses[id] == o {
					hit = true
				}
				return true
			})
			return hit
		}
		if fetch == nil {
			c.R.Unres(r12, "json.Minifier.Minify/token fetch", c.pos(fd), "the assignment of the token text from the parser was not found")
			break
		}
		// a read that is itself part of an assignment to the witness (append(orig[:0], …)) counts as a read of the old value
		p := g.Path(flow.Search{From: []*flow.Node{fetch}, Goal: reads, Avoid: func(y *flow.Node) bool { return assigns(y) && !reads(y) }})
		c.R.Check(p == nil, r12, "json.Minifier.Minify/"+c.P.NameOf(o)+" belongs to the current token", c.pos(fetch.Ast()), "assigned after every fetch before it is read", "the saved lexeme can be read for a token for which it was not assigned: it still holds an earlier number, which is then written in place of this one: "+pathStr(c, g, p))
	}
	c.R.Floor(r12, "witness variables", nW, 1)
	// (a) the witness slices are copies
	{
		aliased := ""
		for _, y := range g.Nodes {
			as, ok := y.Stmt.(*ast.AssignStmt)
			if !ok || y.Kind != flow.KStmt {
				continue
			}
			for i, l := range as.Lhs {
				id, ok := l.(*ast.Ident)
				if !ok || !witness[info.ObjectOf(id)] || len(as.Rhs) != len(as.Lhs) {
					continue
				}
				if !isByteSlice(info.TypeOf(id)) {
					continue
				}
				// the assigned expression must be a copying construct: append(<nil or witness[:0]>, text...), or a conversion through string
				r := ast.Unparen(as.Rhs[i])
				ok2 := false
				if call, isC := r.(*ast.CallExpr); isC {
					if fid, isId := call.Fun.(*ast.Ident); isId && fid.Name == "append" && len(call.Args) == 2 && call.Ellipsis.IsValid() {
						first := nospace(str(call.Args[0]))
						if first == id.Name || first == id.Name+"[:0]" || first == "[]byte(nil)" || first == "[]byte{}" || first == "nil" {
							ok2 = true
						}
					}
					if tv, isT := info.Types[call.Fun]; isT && tv.IsType() {
						if inner, isC2 := ast.Unparen(call.Args[0]).(*ast.CallExpr); isC2 {
							if tv2, isT2 := info.Types[inner.Fun]; isT2 && tv2.IsType() {
								ok2 = true // []byte(string(text))
							}
						}
					}
					if cn := calleeName(info, call); cn == "bytes.Clone" || cn == load.ParseMod+".Copy" || cn == "slices.Clone" {
						ok2 = true
					}
				}
				if !ok2 {
					aliased = str0(as)
				}
			}
		}
		c.R.Check(aliased == "", r12, "json.Minifier.Minify/the saved lexeme is a copy", c.pos(numN.Ast()), "assigned from a copying construct (append to itself/nil, Clone, conversion)", "the saved lexeme is assigned by `"+aliased+"`, which shares the token's array: minify.Number rewrites that array in place, so the `original` written later is the rewritten number without its leading zero")
	}
	for i, n := range zeroWriteNodes(c, pk, g) {
		n := n
		p := g.Path(flow.Search{From: []*flow.Node{numN}, Goal: func(y *flow.Node) bool { return y == n }, Avoid: consults})
		c.R.Check(p == nil, r11, fmt.Sprintf("json.Minifier.Minify/byte added#%d only after consulting the input", i+1), c.pos(n.Ast()), "behind a test of the saved input", "a byte is added to the number without looking at the length of the input: `[1e-3]` becomes `[0.001]`, one byte longer than the input")
	}
}

func zeroWriteNodes(c *Ctx, pk interface{}, g *flow.Graph) []*flow.Node {
	var out []*flow.Node
	for _, n := range g.Nodes {
		a := n.Ast()
		if a == nil || n.Kind != flow.KStmt {
			continue
		}
		s := str0(a)
		if strings.Contains(s, "Write(zeroBytes)") || strings.Contains(s, "Write(minusZeroBytes)") {
			out = append(out, n)
		}
	}
	return out
}

// R06.9 (= R09.16): character data never contains `]]>`.
func (c *Ctx) r069(rule, rel string) {
	c.R.Rule(rule, "XML 1.0 §2.4: the string `]]>` must not occur in character data, so the `>` after `]]` has to stay `&gt;`. The minifier decodes `&gt;` in text, turns short CDATA sections into text (the usual way to write `]]>` inside CDATA is to split it over two sections: `<![CDATA[x]]]]><![CDATA[>y]]>`) and drops comments between texts — each of which can put a `>` behind `]]` in the output. In "+rel+".(*Minifier).Minify the data written for a text token, and the text that replaces a CDATA section, are results of a function of the package that writes `&gt;` (the escaper, which is told how many `]` ended the character data written before); no other assignment to the data lies between that call and the write; the escaper itself is a single pass over the data with one counter of consecutive `]` — the carried count, incremented on `]`, compared once with 2 in front of `>`, reset to 0 otherwise — any other shape (searching with bytes.Index, a second counter) is reported as undecided")
	pk := c.pkg(rule, rel)
	if pk == nil {
		return
	}
	info := pk.TypesInfo
	fd := c.fn(rule, pk, "Minifier.Minify")
	if fd == nil {
		return
	}
	g := c.graph(pk, fd)
	isEscaper := func(e ast.Expr) bool {
		call, ok := ast.Unparen(e).(*ast.CallExpr)
		if !ok {
			return false
		}
		fo, _ := callee(info, call).(*types.Func)
		if fo == nil || fo.Pkg() != pk.Types {
			return false
		}
		d := load.Func(pk, fo.Name())
		if d == nil || d.Body == nil {
			return false
		}
		hit := false
		ast.Inspect(d.Body, func(z ast.Node) bool {
			if bl, ok := z.(*ast.BasicLit); ok && bl.Kind == token.STRING && strings.Contains(bl.Value, "&gt;") {
				hit = true
			}
			return true
		})
		return hit
	}
	assignsData := func(q *flow.Node) (ast.Expr, bool) {
		as, ok := q.Stmt.(*ast.AssignStmt)
		if !ok || q.Kind != flow.KStmt {
			return nil, false
		}
		for i, l := range as.Lhs {
			if s := nospace(str(l)); s == "t.Data" || s == "t.Text" {
				if len(as.Rhs) == len(as.Lhs) {
					return as.Rhs[i], true
				}
				return as.Rhs[0], true
			}
		}
		return nil, false
	}
	n := 0
	// (a) writes of text token data
	for _, y := range g.Nodes {
		a := y.Ast()
		if a == nil || y.Kind != flow.KStmt {
			continue
		}
		s := nospace(str0(a))
		if s != "w.Write(t.Data)" && s != "w.Write(t.Text)" {
			continue
		}
		inText := false
		for _, f := range g.DomFacts(y) {
			if f.Test.Kind == flow.KCase && f.Value && nospace(str(f.Test.Expr)) == "xml.TextToken" {
				inText = true
			}
		}
		if !inText {
			continue
		}
		n++
		// the last assignment to the data on every path to the write is the escaper
		caseHead := func(q *flow.Node) bool {
			return q.Kind == flow.KTrue && q.Of != nil && q.Of.Kind == flow.KCase && nospace(str(q.Of.Expr)) == "xml.TextToken"
		}
		var starts []*flow.Node
		for _, q := range g.Nodes {
			if caseHead(q) {
				starts = append(starts, q)
			}
		}
		y := y
		p := g.Path(flow.Search{From: starts, Goal: func(q *flow.Node) bool { return q == y }, Avoid: func(q *flow.Node) bool {
			rhs, ok := assignsData(q)
			return ok && isEscaper(rhs)
		}})
		ok := p == nil
		if ok {
			// and nothing reassigns the data after the escaper
			for _, q := range g.Nodes {
				rhs, isAs := assignsData(q)
				if !isAs || !isEscaper(rhs) || !g.Dominates(q, y) {
					continue
				}
				q := q
				if p2 := g.Path(flow.Search{From: []*flow.Node{q}, Goal: func(z *flow.Node) bool {
					r2, ok2 := assignsData(z)
					return ok2 && !isEscaper(r2)
				}, Avoid: func(z *flow.Node) bool { return z == y }}); p2 != nil {
					ok = false
				}
			}
		}
		c.R.Check(ok, rule, fmt.Sprintf("%s.Minifier.Minify/text written#%d after the ]]> escaper", rel, n), c.pos(a), "the data is the escaper's result", "the data of a text token is written without passing the function that keeps the `>` of `]]>` escaped: `<a>]]&gt;</a>` → `<a>]]></a>`, which is not well-formed")
	}
	// (a') nothing else writes character data: inside the text case the output writer is handed to no other function (an
	// embedded minifier that writes the style sheet of an SVG style element straight into the output goes around the escaper)
	var wobj types.Object
	for _, f := range fd.Type.Params.List {
		for _, nm := range f.Names {
			if types.TypeString(info.TypeOf(f.Type), nil) == "io.Writer" {
				wobj = info.Defs[nm]
			}
		}
	}
	if wobj != nil {
		k := 0
		for _, y := range g.Nodes {
			a := y.Ast()
			if a == nil || (y.Kind != flow.KStmt && y.Kind != flow.KCond) {
				continue
			}
			inText := false
			for _, f := range g.DomFacts(y) {
				if f.Test.Kind == flow.KCase && f.Value && nospace(str(f.Test.Expr)) == "xml.TextToken" {
					inText = true
				}
			}
			if !inText {
				continue
			}
			flowInspectCalls(a, func(call *ast.CallExpr) {
				for _, arg := range call.Args {
					if id, ok := ast.Unparen(arg).(*ast.Ident); ok && info.Uses[id] == wobj {
						k++
						c.R.Bad(rule, fmt.Sprintf("%s.Minifier.Minify/text case hands the output to %s#%d", rel, calleeShort(info, call), k), c.pos(call), "the output writer is passed to "+str(call.Fun)+" inside the text case: what that function writes is character data that does not pass the function that keeps the `>` of `]]>` escaped — `<svg><style>b{content:\"]]&gt;\"}</style></svg>` → `b{content:\"]]>\"}`, which is not well-formed")
					}
				}
			})
		}
	}
	// (b) CDATA converted to text
	m := 0
	for _, y := range g.Nodes {
		rhs, ok := assignsData(y)
		if !ok {
			continue
		}
		under := false
		for _, f := range g.DomFacts(y) {
			if f.Value && f.Test.Kind == flow.KCond && nospace(str(f.Test.Expr)) == "useText" {
				under = true
			}
		}
		if !under {
			continue
		}
		// the assignment that takes over the converted text (mentions the converted value, not a white space helper)
		if len(findCalls(info, rhs, false, load.ParseMod+".ReplaceMultipleWhitespace", load.ParseMod+".TrimWhitespace")) > 0 {
			continue
		}
		m++
		c.R.Check(isEscaper(rhs), rule, fmt.Sprintf("%s.Minifier.Minify/CDATA converted to text#%d through the ]]> escaper", rel, m), c.pos(y.Ast()), "the text is the escaper's result", "a CDATA section is replaced by plain text without keeping a `>` behind `]]` escaped: `<![CDATA[x]]]]><![CDATA[>y]]>` → `x]]>y`, which is not well-formed")
	}
	c.R.Floor(rule, "writes of text token data", n, 1)
	c.R.Floor(rule, "CDATA sections converted to text", m, 1)
	// (d) the count handed to the escaper is the one left by the character data written before: it is not reset between
	// the fetch of the token and the call
	k := 0
	for _, y := range g.Nodes {
		a := y.Ast()
		if a == nil || y.Kind != flow.KStmt {
			continue
		}
		var cntArg types.Object
		ast.Inspect(a, func(z ast.Node) bool {
			ce, ok := z.(*ast.CallExpr)
			if !ok || !isEscaper(ce) {
				return true
			}
			for _, arg := range ce.Args {
				if id, ok := ast.Unparen(arg).(*ast.Ident); ok && isIntType(info.TypeOf(id)) {
					cntArg = info.Uses[id]
				}
			}
			return true
		})
		if cntArg == nil {
			continue
		}
		k++
		isHead := func(q *flow.Node) bool {
			qa := q.Ast()
			return qa != nil && q.Kind == flow.KStmt && strings.Contains(nospace(str0(qa)), ".Shift()")
		}
		var bad []string
		for _, z := range g.Nodes {
			as, ok := z.Stmt.(*ast.AssignStmt)
			if !ok || z.Kind != flow.KStmt || len(as.Lhs) != 1 || len(as.Rhs) != 1 || z == y {
				continue
			}
			id, ok := as.Lhs[0].(*ast.Ident)
			if !ok || info.Uses[id] != cntArg {
				continue
			}
			if v, isK := intConst(info, as.Rhs[0]); !isK || v != 0 {
				continue
			}
			y := y
			if p := g.Path(flow.Search{From: []*flow.Node{z}, Goal: func(q *flow.Node) bool { return q == y }, Avoid: isHead, Track: true, TrackFields: true, Init: g.InitFacts(z, true)}); p != nil {
				bad = append(bad, c.pos(as))
			}
		}
		c.R.Check(len(bad) == 0, rule, fmt.Sprintf("%s.Minifier.Minify/escaper call#%d receives the bracket count of the preceding character data", rel, k), c.pos(a), "no reset between the fetch of the token and the call",
			"the count of `]` that ended the character data written before is set to 0 ("+strings.Join(bad, ", ")+") for the same token for which it is then handed to the escaper: `x]]` followed by a CDATA section that becomes the text `>y` gives `x]]>y`, which is not well-formed")
	}
	c.R.Floor(rule, "escaper calls that carry the bracket count", k, 1)
	// (e) a token that leaves no trace in the output does not end the run of character data: the count is not reset for
	// a comment unless something is written for it
	{
		var tokVar, cntVar types.Object
		tokName := ""
		var heads []*flow.Node
		for _, q := range g.Nodes {
			as, ok := q.Stmt.(*ast.AssignStmt)
			if !ok || q.Kind != flow.KStmt || len(as.Lhs) != 1 || len(as.Rhs) != 1 {
				continue
			}
			if strings.Contains(nospace(str(as.Rhs[0])), ".Shift()") {
				if id, ok := as.Lhs[0].(*ast.Ident); ok && c.enclosingLoopDepth(as) == 1 {
					tokName = id.Name
					tokVar = info.Defs[id]
					if tokVar == nil {
						tokVar = info.Uses[id]
					}
					heads = append(heads, q)
				}
			}
		}
		// the counter: the int variable handed to the escaper
		for _, q := range g.Nodes {
			a := q.Ast()
			if a == nil || q.Kind != flow.KStmt {
				continue
			}
			ast.Inspect(a, func(z ast.Node) bool {
				ce, ok := z.(*ast.CallExpr)
				if !ok || !isEscaper(ce) {
					return true
				}
				for _, arg := range ce.Args {
					if id, ok := ast.Unparen(arg).(*ast.Ident); ok && isIntType(info.TypeOf(id)) {
						cntVar = info.Uses[id]
					}
				}
				return true
			})
		}
		writes := func(q *flow.Node) bool {
			a := q.Ast()
			if a == nil || (q.Kind != flow.KStmt && q.Kind != flow.KCond) {
				return false
			}
			hit := false
			ast.Inspect(a, func(z ast.Node) bool {
				if ce, ok := z.(*ast.CallExpr); ok {
					nm := calleeName(info, ce)
					if strings.HasSuffix(nm, ".Write") || strings.HasSuffix(nm, ".MinifyMimetype") || strings.HasSuffix(nm, ".Minify") {
						hit = true
					}
				}
				return true
			})
			return hit
		}
		if tokVar != nil && cntVar != nil && len(heads) > 0 {
			for _, kind := range []struct{ tok, what, sample string }{{"CommentToken", "comment", "]]<!--c-->&gt;"}, {"StartTagPIToken", "processing instruction", "]]<?pi x?>&gt;"}, {"StartTagToken", "whole element", "]]<metadata>x</metadata>&gt;"}} {
				key := tokName + ".TokenType == xml." + kind.tok
				nz := 0
				var bad []string
				for _, z := range g.Nodes {
					as, ok := z.Stmt.(*ast.AssignStmt)
					if !ok || z.Kind != flow.KStmt || len(as.Lhs) != 1 || len(as.Rhs) != 1 {
						continue
					}
					id, ok := as.Lhs[0].(*ast.Ident)
					if !ok || info.Uses[id] != cntVar {
						continue
					}
					if v, isK := intConst(info, as.Rhs[0]); !isK || v != 0 {
						continue
					}
					nz++
					z := z
					p1 := g.Path(flow.Search{From: heads, Goal: func(q *flow.Node) bool { return q == z }, Assume: map[string]bool{key: true}, Track: true, TrackFields: true,
						Avoid: func(q *flow.Node) bool {
							for _, h := range heads {
								if h == q {
									return true
								}
							}
							return false
						}})
					if p1 == nil {
						continue
					}
					// the valuation at z along that path, plus the stipulation
					init := g.ValuationAlong(p1, true)
					init[key] = true
					p2 := g.Path(flow.Search{From: []*flow.Node{z}, Goal: func(q *flow.Node) bool {
						for _, h := range heads {
							if h == q {
								return true
							}
						}
						return q.Kind == flow.KExit
					}, Init: init, Track: true, TrackFields: true, Avoid: writes})
					if p2 != nil {
						bad = append(bad, c.pos(as))
					}
				}
				c.R.Check(len(bad) == 0, rule, fmt.Sprintf("%s.Minifier.Minify/bracket count survives a %s that is dropped", rel, kind.what), c.pos(fd), fmt.Sprintf("%d resets examined", nz),
					"the count of `]` that ended the character data written before is set to 0 ("+strings.Join(bad, ", ")+") for a "+kind.what+" for which nothing is written: the text in front of it and the text behind it become one run in the output, and `"+kind.sample+"` is written as `]]>`, which is not well-formed")
			}
		}
	}
	// (c) the escaper itself is the one-pass counter automaton
	for _, efd := range load.FuncDecls(pk) {
		if efd.Body == nil || efd.Recv != nil || efd.Type.Params == nil {
			continue
		}
		writesGt := false
		ast.Inspect(efd.Body, func(z ast.Node) bool {
			if bl, ok := z.(*ast.BasicLit); ok && bl.Kind == token.STRING && strings.Contains(bl.Value, "&gt;") {
				writesGt = true
			}
			return true
		})
		if !writesGt {
			continue
		}
		// parameters: a byte slice and an int counter
		var data, cnt types.Object
		for _, f := range efd.Type.Params.List {
			for _, nm := range f.Names {
				o := info.Defs[nm]
				if isByteSlice(o.Type()) && data == nil {
					data = o
				} else if isIntType(o.Type()) && cnt == nil {
					cnt = o
				}
			}
		}
		construct := rel + "." + load.FuncName(efd) + "/one pass with one bracket counter"
		if data == nil || cnt == nil {
			c.R.Unres(rule, construct, c.pos(efd), "the escaper does not take the data and the count of `]` that ended the previous run")
			continue
		}
		var problems []string
		ranges, incs, resets, guards := 0, 0, 0, 0
		ast.Inspect(efd.Body, func(z ast.Node) bool {
			switch e := z.(type) {
			case *ast.RangeStmt:
				if id, ok := ast.Unparen(e.X).(*ast.Ident); ok && info.Uses[id] == data {
					ranges++
				}
			case *ast.IncDecStmt:
				if id, ok := e.X.(*ast.Ident); ok && info.Uses[id] == cnt && e.Tok == token.INC {
					incs++
				}
			case *ast.AssignStmt:
				for i, l := range e.Lhs {
					if id, ok := l.(*ast.Ident); ok && info.Uses[id] == cnt && i < len(e.Rhs) {
						if k, isK := intConst(info, e.Rhs[i]); isK && k == 0 {
							resets++
						} else {
							problems = append(problems, "the counter is assigned "+str(e.Rhs[i]))
						}
					}
				}
			case *ast.BinaryExpr:
				// 2 <= cnt  /  cnt >= 2  /  1 < cnt  /  cnt > 1
				for _, pr := range [][2]ast.Expr{{e.X, e.Y}, {e.Y, e.X}} {
					id, ok := ast.Unparen(pr[0]).(*ast.Ident)
					if !ok || info.Uses[id] != cnt {
						continue
					}
					if k, isK := intConst(info, pr[1]); isK {
						flip := pr[0] == e.Y
						op := e.Op
						if flip {
							switch op {
							case token.LSS:
								op = token.GTR
							case token.LEQ:
								op = token.GEQ
							case token.GTR:
								op = token.LSS
							case token.GEQ:
								op = token.LEQ
							}
						}
						if op == token.GEQ && k == 2 || op == token.GTR && k == 1 {
							guards++
						} else {
							problems = append(problems, "the counter is compared by "+str(e))
						}
					}
				}
			case *ast.CallExpr:
				if cn := calleeName(info, e); strings.HasPrefix(cn, "bytes.Index") || strings.HasPrefix(cn, "bytes.Contains") || strings.HasPrefix(cn, "bytes.HasPrefix") || strings.HasPrefix(cn, "bytes.Count") {
					problems = append(problems, "the data is searched with "+cn[strings.LastIndex(cn, ".")+1:]+" next to the counter")
				}
			}
			return true
		})
		if ranges != 1 {
			problems = append(problems, fmt.Sprintf("%d range loops over the data", ranges))
		}
		if incs != 1 || resets != 1 || guards != 1 {
			problems = append(problems, fmt.Sprintf("%d increments, %d resets, %d comparisons `2 <= counter`", incs, resets, guards))
		}
		if len(problems) == 0 {
			c.R.OK(rule, construct, c.pos(efd), "one range loop; the counter is incremented on `]`, compared once with 2, reset otherwise")
		} else {
			c.R.Unres(rule, construct, c.pos(efd), "the escaper is not the one-pass automaton this rule can judge ("+strings.Join(problems, "; ")+"): a `]]>` that straddles two runs of character data — one `]` at the end of the previous run, `]>` at the start of this one — is the case such rewrites get wrong, and it cannot be decided here")
		}
	}
}

// R06.10: the content of a processing instruction is not entity-decoded.
func (c *Ctx) r0610() {
	const rule = "R06.10"
	c.R.Rule(rule, "XML 1.0 §2.6: a processing instruction's content is character data for the target application; references are not recognised in it. The lexer hands that content out as attribute tokens (the minifier tracks this with its in-PI flag). In xml.(*Minifier).Minify the entity replacement and re-quoting of attribute values (parse.ReplaceEntities / xml.EscapeAttrVal in case AttributeToken) cannot be reached while that flag is set: `<?pi x=\"&quot;\"?>` must not become `<?pi x='\"'?>`")
	pk := c.pkg(rule, "xml")
	if pk == nil {
		return
	}
	info := pk.TypesInfo
	fd := c.fn(rule, pk, "Minifier.Minify")
	if fd == nil {
		return
	}
	g := c.graph(pk, fd)
	// the in-PI flag: a bool local assigned true in the StartTagPIToken case
	flag := ""
	for _, y := range g.Nodes {
		as, ok := y.Stmt.(*ast.AssignStmt)
		if !ok || y.Kind != flow.KStmt || len(as.Lhs) != 1 || len(as.Rhs) != 1 || nospace(str(as.Rhs[0])) != "true" {
			continue
		}
		for _, f := range g.DomFacts(y) {
			if f.Test.Kind == flow.KCase && f.Value && nospace(str(f.Test.Expr)) == "xml.StartTagPIToken" {
				flag = nospace(str(as.Lhs[0]))
			}
		}
	}
	if flag == "" {
		c.R.Unres(rule, "xml.Minifier.Minify/in-PI flag", c.pos(fd), "no boolean set in the StartTagPIToken case")
		return
	}
	n := 0
	for _, y := range g.Nodes {
		a := y.Ast()
		if a == nil || y.Kind != flow.KStmt {
			continue
		}
		if len(findCalls(info, a, false, load.ParseMod+".ReplaceEntities", load.ParseMod+".ReplaceMultipleWhitespaceAndEntities", load.ParseMod+"/xml.EscapeAttrVal")) == 0 {
			continue
		}
		inAttr := false
		var head *flow.Node
		for _, f := range g.DomFacts(y) {
			if f.Test.Kind == flow.KCase && f.Value && nospace(str(f.Test.Expr)) == "xml.AttributeToken" {
				inAttr = true
			}
		}
		if !inAttr {
			continue
		}
		for _, q := range g.Nodes {
			if q.Kind == flow.KTrue && q.Of != nil && q.Of.Kind == flow.KCase && nospace(str(q.Of.Expr)) == "xml.AttributeToken" {
				head = q
			}
		}
		n++
		y := y
		p := g.Path(flow.Search{From: []*flow.Node{head}, IncludeFrom: true, Goal: func(q *flow.Node) bool { return q == y }, Assume: map[string]bool{flag: true}, Avoid: func(q *flow.Node) bool { return !g.Dominates(head, q) }})
		c.R.Check(p == nil, rule, fmt.Sprintf("xml.Minifier.Minify/case xml.AttributeToken/value rewritten#%d only outside a processing instruction", n), c.pos(a), "unreachable while "+flag+" is set", "the value of a pseudo-attribute of a processing instruction is entity-decoded and re-quoted like an element's attribute: `<?pi x=\"&quot;\"?>` → `<?pi x='\"'?>` — references are not recognised in a PI, so its data changed")
	}
	c.R.Floor(rule, "rewrites of attribute values", n, 1)
}

// enclosingLoopDepth counts the for / range statements around a node inside its function.
func (c *Ctx) enclosingLoopDepth(n ast.Node) int {
	d := 0
	for x := c.P.Parent(n); x != nil; x = c.P.Parent(x) {
		switch x.(type) {
		case *ast.ForStmt, *ast.RangeStmt:
			d++
		case *ast.FuncDecl, *ast.FuncLit:
			return d
		}
	}
	return d
}
