package rules

// Self-test overlays for the rules of the fourteenth pass: each one takes a repair back (or applies the seeded change the rule
// was written for) and names the rule and construct that has to report it.
func init() {
	mutant(&Mutant{Name: "c03-document-tag-dropped-before-kept-comment", Property: "C03", File: "html/html.go",
		Old: "keepTag = next.TokenType == html.CommentToken", New: "keepTag = false",
		Rule: "R03.20", Construct: "only where no kept comment follows"})
	mutant(&Mutant{Name: "c16-input-value-removed-despite-keep-default", Property: "C16", File: "html/html.go",
		Old: "} else if t.Hash == Input && !o.KeepDefaultAttrVals {", New: "} else if t.Hash == Input {",
		Rule: "R16.3", Construct: "no default attribute value comparison"})
	mutant(&Mutant{Name: "c13-js-input-not-restored", Property: "C13", File: "js/js.go",
		Old: "\tz := parse.NewInput(r)\n\tdefer z.Restore()\n", New: "\tz := parse.NewInput(r)\n",
		Rule: "R13.9", Construct: "input z is restored"})
	mutant(&Mutant{Name: "c01-class-operand-negated", Property: "C01", File: "js/js.go",
		Old: "\tcase *js.ClassDecl:\n\t\tgrouped := m.expectExpr == expectExprStmt && prec != js.OpExpr\n", New: "\tcase *js.ClassDecl:\n\t\tgrouped := false && prec != js.OpExpr\n",
		Rule: "R01.45", Construct: "case *js.ClassDecl"})
	mutant(&Mutant{Name: "c01-let-index-operand-negated", Property: "C01", File: "js/js.go",
		Old: "\t\t\t\tif prec != js.OpExpr {\n\t\t\t\t\tm.write(openParenBytes)\n\t\t\t\t\tm.groupedStmt = true\n\t\t\t\t} else {\n\t\t\t\t\tm.write(notBytes)\n\t\t\t\t}\n", New: "\t\t\t\tm.write(notBytes)\n",
		Rule: "R01.45", Construct: "case *js.IndexExpr"})
	mutant(&Mutant{Name: "c01-else-block-dissolved-whatever-it-declares", Property: "C01", File: "js/stmtlist.go",
		Old: "ok && !declaresUsedName(blockStmt.Scope) {", New: "ok {",
		Rule: "R01.46", Construct: "(a) no declaration has the name of an outer variable"})
	mutant(&Mutant{Name: "c02-else-block-dissolved-whatever-it-declares", Property: "C02", File: "js/stmtlist.go",
		Old: "ok && !declaresUsedName(blockStmt.Scope) {", New: "ok {",
		Rule: "R02.10", Construct: "only where no name can clash"})
	mutant(&Mutant{Name: "c01-unscope-ignores-global-declarations", Property: "C01", File: "js/stmtlist.go",
		Old: "\t\t\tfor _, v := range scope.Parent.Declared {", New: "\t\t\tfor _, v := range scope.Parent.Undeclared {",
		Rule: "R01.46", Construct: "(b) no declaration has the name of a declaration"})
	mutant(&Mutant{Name: "c01-unscope-ignores-outer-references", Property: "C01", File: "js/stmtlist.go",
		Old: "\t\tfor _, v := range scope.Parent.Undeclared {", New: "\t\tfor _, v := range scope.Parent.Declared[:0] {",
		Rule: "R01.46", Construct: "(a) no declaration has the name of an outer variable"})
	mutant(&Mutant{Name: "c01-labelled-continue-removed", Property: "C01", File: "js/stmtlist.go",
		Old: "branchStmt.Type == js.ContinueToken && branchStmt.Label == nil {", New: "branchStmt.Type == js.ContinueToken {",
		Rule: "R01.47", Construct: "has no label"})
	mutant(&Mutant{Name: "c09-octal-escape-decoded-into-end-tag", Property: "C09", File: "js/util.go",
		Old: "\t\t\t\tif num == '<' && isScriptMarkup(b[i+n:]) {\n\t\t\t\t\t// keep the escape, </script would end a script element in HTML and <!-- changes how it is tokenized\n\t\t\t\t\ti += n - 1\n\t\t\t\t\tcontinue\n\t\t\t\t}\n", New: "",
		Rule: "R09.20", Construct: "octal escape not decoded into the `<` of an end tag"})
	mutant(&Mutant{Name: "c03-octal-escape-decoded-into-end-tag", Property: "C03", File: "js/util.go",
		Old: "\t\t\t\tif num == '<' && isScriptMarkup(b[i+n:]) {\n\t\t\t\t\t// keep the escape, </script would end a script element in HTML and <!-- changes how it is tokenized\n\t\t\t\t\ti += n - 1\n\t\t\t\t\tcontinue\n\t\t\t\t}\n", New: "",
		Rule: "R03.18", Construct: "octal escape not decoded into the `<` of an end tag"})
	mutant(&Mutant{Name: "c09-regexp-class-slash-unescaped-in-end-tag", Property: "C09", File: "js/util.go",
		Old: "\t\t\tif c == '/' && b[i-1] == '<' && isScriptEndTag(b[i+1:]) {\n\t\t\t\tescape = true // </script would end a script element in HTML\n\t\t\t}\n", New: "",
		Rule: "R09.20", Construct: "js.minifyRegExp/escaped slash of an end tag kept"})
	mutant(&Mutant{Name: "c09-escape-decoded-into-comment-start", Property: "C09", File: "js/util.go",
		Old: "return isScriptEndTag(b) || 3 <= len(b) && b[0] == '!' && b[1] == '-' && b[2] == '-'", New: "return isScriptEndTag(b)",
		Rule: "R09.20", Construct: "escape not decoded into the `<` of `<!--`"})
	mutant(&Mutant{Name: "c05-processing-instruction-resets-bracket-count", Property: "C05", File: "svg/svg.go",
		Old: " && t.TokenType != xml.StartTagPIToken && (t.TokenType != xml.CommentToken", New: " && (t.TokenType != xml.CommentToken",
		Rule: "R05.21", Construct: "survives a processing instruction that is dropped"})
	mutant(&Mutant{Name: "c09-processing-instruction-resets-bracket-count", Property: "C09", File: "svg/svg.go",
		Old: " && t.TokenType != xml.StartTagPIToken && (t.TokenType != xml.CommentToken", New: " && (t.TokenType != xml.CommentToken",
		Rule: "R09.17", Construct: "survives a processing instruction that is dropped"})
	mutant(&Mutant{Name: "c05-doctype-subset-not-seen-behind-space", Property: "C05", File: "svg/svg.go",
		Old: "if text := parse.TrimWhitespace(t.Text); len(text) > 0", New: "if text := t.Text; len(text) > 0",
		Rule: "R05.24", Construct: "internal subset recognised behind white space"})
	mutant(&Mutant{Name: "c05-dropped-line-keeps-its-reset", Property: "C05", File: "svg/pathdata.go",
		Old: "\t\t\t\tp.cx, p.cy, p.qx, p.qy = prevCx, prevCy, prevQx, prevQy // what is written next follows what was written before\n", New: "\t\t\t\t_, _, _, _ = prevCx, prevCy, prevQx, prevQy\n",
		Rule: "R05.25", Construct: "leaves the control point state as it was"})
	mutant(&Mutant{Name: "c05-zero-length-line-dropped-before-smooth-curve", Property: "C05", File: "svg/pathdata.go",
		Old: "if ax == p.x && ay == p.y && !smoothCubicNext && !smoothQuadNext {", New: "if ax == p.x && ay == p.y {",
		Rule: "R05.25", Construct: "not in front of a smooth curve"})
	mutant(&Mutant{Name: "c05-degenerate-cubic-to-line-before-smooth-curve", Property: "C05", File: "svg/pathdata.go",
		Old: "cp2x == p.x && cp2y == p.y && !smoothCubicNext ||", New: "cp2x == p.x && cp2y == p.y ||",
		Rule: "R05.10", Construct: "cx,cy: curve replaced by a line"})
	mutant(&Mutant{Name: "c05-degenerate-quadratic-to-line-before-smooth-curve", Property: "C05", File: "svg/pathdata.go",
		Old: "cpx == p.x && cpy == p.y && !smoothQuadNext ||", New: "cpx == p.x && cpy == p.y ||",
		Rule: "R05.25", Construct: "curve to line#2 looks at the command that follows"})
	mutant(&Mutant{Name: "c05-next-command-not-handed-over", Property: "C05", File: "svg/pathdata.go",
		Old: "\t\t\t\tp.next = c\n", New: "",
		Rule: "R05.25", Construct: "the command that follows is handed to copyInstruction"})
	mutant(&Mutant{Name: "c12-flush-deferred-behind-the-wait-group", Property: "C12", File: "minify.go",
		Old:  "\t\tdefer z.wg.Done()\n\t\tdefer pr.Close()\n\t\tif err := m.Minify(mediatype, w, pr); err != nil {",
		New:  "\t\tbw := bufio.NewWriter(w)\n\t\tdefer bw.Flush()\n\t\tdefer z.wg.Done()\n\t\tdefer pr.Close()\n\t\tif err := m.Minify(mediatype, bw, pr); err != nil {",
		More: [][2]string{{"import (\n\t\"bytes\"\n", "import (\n\t\"bufio\"\n\t\"bytes\"\n"}},
		Rule: "R12.9", Construct: "releases the wait group last"})
	mutant(&Mutant{Name: "c13-style-type-appended-into-the-shared-default", Property: "C13", File: "svg/svg.go",
		Old: "\t\t\t\tdefaultStyleType = val\n", New: "\t\t\t\tdefaultStyleType = append(defaultStyleType[:0], val...)\n",
		Rule: "R13.2", Construct: "cssMimeBytes appended into"})
	mutant(&Mutant{Name: "c18-base64-length-of-the-unminified-payload", Property: "C18", File: "common.go",
		Old: "\tdata, _ = m.Bytes(string(mediatype), data)\n\tbase64Len := len(\";base64\") + base64.StdEncoding.EncodedLen(len(data))\n",
		New: "\tbase64Len := len(\";base64\") + base64.StdEncoding.EncodedLen(len(data))\n\tdata, _ = m.Bytes(string(mediatype), data)\n",
		Rule: "R18.12", Construct: "is the length of the payload it is compared for"})
}
