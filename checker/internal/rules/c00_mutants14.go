package rules

// Self-test overlays for the rules of the fourteenth pass: each one takes a repair back (or applies the seeded change the rule
// was written for) and names the rule and construct that has to report it.
func init() {
	mutant(&Mutant{Name: "c03-document-tag-dropped-before-kept-comment", Property: "C03", File: "html/html.go",
		Old: "keepTag = next.TokenType == html.CommentToken", New: "keepTag = false",
		Rule: "R03.20", Construct: "only where no kept comment follows"})
	mutant(&Mutant{Name: "c16-input-value-removed-despite-keep-default", Property: "C16", File: "html/html.go",
		Old: "} else if t.Hash == Input && !o.KeepDefaultAttrVals {", New: "} else if t.Hash == Input {",
		Rule: "R16.3", Construct: "no default attribute value comparison"})
	mutant(&Mutant{Name: "c13-js-input-not-restored", Property: "C13", File: "js/js.go",
		Old: "\tz := parse.NewInput(r)\n\tdefer z.Restore()\n", New: "\tz := parse.NewInput(r)\n",
		Rule: "R13.9", Construct: "input z is restored"})
	mutant(&Mutant{Name: "c01-class-operand-negated", Property: "C01", File: "js/js.go",
		Old: "\tcase *js.ClassDecl:\n\t\tgrouped := m.expectExpr == expectExprStmt && prec != js.OpExpr\n", New: "\tcase *js.ClassDecl:\n\t\tgrouped := false && prec != js.OpExpr\n",
		Rule: "R01.45", Construct: "case *js.ClassDecl"})
	mutant(&Mutant{Name: "c01-let-index-operand-negated", Property: "C01", File: "js/js.go",
		Old: "\t\t\t\tif prec != js.OpExpr {\n\t\t\t\t\tm.write(openParenBytes)\n\t\t\t\t\tm.groupedStmt = true\n\t\t\t\t} else {\n\t\t\t\t\tm.write(notBytes)\n\t\t\t\t}\n", New: "\t\t\t\tm.write(notBytes)\n",
		Rule: "R01.45", Construct: "case *js.IndexExpr"})
	mutant(&Mutant{Name: "c01-else-block-dissolved-whatever-it-declares", Property: "C01", File: "js/stmtlist.go",
		Old: "ok && !declaresUsedName(blockStmt.Scope) {", New: "ok {",
		Rule: "R01.46", Construct: "(a) no declaration has the name of an outer variable"})
	mutant(&Mutant{Name: "c02-else-block-dissolved-whatever-it-declares", Property: "C02", File: "js/stmtlist.go",
		Old: "ok && !declaresUsedName(blockStmt.Scope) {", New: "ok {",
		Rule: "R02.10", Construct: "only where no name can clash"})
	mutant(&Mutant{Name: "c01-unscope-ignores-global-declarations", Property: "C01", File: "js/stmtlist.go",
		Old: "\t\t\tfor _, v := range scope.Parent.Declared {", New: "\t\t\tfor _, v := range scope.Parent.Undeclared {",
		Rule: "R01.46", Construct: "(b) no declaration has the name of a declaration"})
	mutant(&Mutant{Name: "c01-unscope-ignores-outer-references", Property: "C01", File: "js/stmtlist.go",
		Old: "\t\tfor _, v := range scope.Parent.Undeclared {", New: "\t\tfor _, v := range scope.Parent.Declared[:0] {",
		Rule: "R01.46", Construct: "(a) no declaration has the name of an outer variable"})
	mutant(&Mutant{Name: "c01-labelled-continue-removed", Property: "C01", File: "js/stmtlist.go",
		Old: "branchStmt.Type == js.ContinueToken && branchStmt.Label == nil {", New: "branchStmt.Type == js.ContinueToken {",
		Rule: "R01.47", Construct: "has no label"})
	mutant(&Mutant{Name: "c09-octal-escape-decoded-into-end-tag", Property: "C09", File: "js/util.go",
		Old: "\t\t\t\tif num == '<' && isScriptMarkup(b[i+n:]) {\n\t\t\t\t\t// keep the escape, </script would end a script element in HTML and <!-- changes how it is tokenized\n\t\t\t\t\ti += n - 1\n\t\t\t\t\tcontinue\n\t\t\t\t}\n", New: "",
		Rule: "R09.20", Construct: "octal escape not decoded into the `<` of an end tag"})
	mutant(&Mutant{Name: "c03-octal-escape-decoded-into-end-tag", Property: "C03", File: "js/util.go",
		Old: "\t\t\t\tif num == '<' && isScriptMarkup(b[i+n:]) {\n\t\t\t\t\t// keep the escape, </script would end a script element in HTML and <!-- changes how it is tokenized\n\t\t\t\t\ti += n - 1\n\t\t\t\t\tcontinue\n\t\t\t\t}\n", New: "",
		Rule: "R03.18", Construct: "octal escape not decoded into the `<` of an end tag"})
	mutant(&Mutant{Name: "c09-regexp-class-slash-unescaped-in-end-tag", Property: "C09", File: "js/util.go",
		Old: "\t\t\tif c == '/' && b[i-1] == '<' && isScriptEndTag(b[i+1:]) {\n\t\t\t\tescape = true // </script would end a script element in HTML\n\t\t\t}\n", New: "",
		Rule: "R09.20", Construct: "js.minifyRegExp/escaped slash of an end tag kept"})
	mutant(&Mutant{Name: "c09-escape-decoded-into-comment-start", Property: "C09", File: "js/util.go",
		Old: "return isScriptEndTag(b) || 3 <= len(b) && b[0] == '!' && b[1] == '-' && b[2] == '-'", New: "return isScriptEndTag(b)",
		Rule: "R09.20", Construct: "escape not decoded into the `<` of `<!--`"})
	mutant(&Mutant{Name: "c05-processing-instruction-resets-bracket-count", Property: "C05", File: "svg/svg.go",
		Old: " && t.TokenType != xml.StartTagPIToken && (t.TokenType != xml.CommentToken", New: " && (t.TokenType != xml.CommentToken",
		Rule: "R05.21", Construct: "survives a processing instruction that is dropped"})
	mutant(&Mutant{Name: "c09-processing-instruction-resets-bracket-count", Property: "C09", File: "svg/svg.go",
		Old: " && t.TokenType != xml.StartTagPIToken && (t.TokenType != xml.CommentToken", New: " && (t.TokenType != xml.CommentToken",
		Rule: "R09.17", Construct: "survives a processing instruction that is dropped"})
	mutant(&Mutant{Name: "c05-doctype-subset-not-seen-behind-space", Property: "C05", File: "svg/svg.go",
		Old: "if text := parse.TrimWhitespace(t.Text); len(text) > 0", New: "if text := t.Text; len(text) > 0",
		Rule: "R05.24", Construct: "internal subset recognised behind white space"})
	mutant(&Mutant{Name: "c05-dropped-line-keeps-its-reset", Property: "C05", File: "svg/pathdata.go",
		Old: "\t\t\t\tp.cx, p.cy, p.qx, p.qy = prevCx, prevCy, prevQx, prevQy // what is written next follows what was written before\n", New: "\t\t\t\t_, _, _, _ = prevCx, prevCy, prevQx, prevQy\n",
		Rule: "R05.25", Construct: "leaves the control point state as it was"})
	mutant(&Mutant{Name: "c05-zero-length-line-dropped-before-smooth-curve", Property: "C05", File: "svg/pathdata.go",
		Old: "if ax == p.x && ay == p.y && !smoothCubicNext && !smoothQuadNext {", New: "if ax == p.x && ay == p.y {",
		Rule: "R05.25", Construct: "not in front of a smooth curve"})
	mutant(&Mutant{Name: "c05-degenerate-cubic-to-line-before-smooth-curve", Property: "C05", File: "svg/pathdata.go",
		Old: "cp2x == p.x && cp2y == p.y && !smoothCubicNext ||", New: "cp2x == p.x && cp2y == p.y ||",
		Rule: "R05.10", Construct: "cx,cy: curve replaced by a line"})
	mutant(&Mutant{Name: "c05-degenerate-quadratic-to-line-before-smooth-curve", Property: "C05", File: "svg/pathdata.go",
		Old: "cpx == p.x && cpy == p.y && !smoothQuadNext ||", New: "cpx == p.x && cpy == p.y ||",
		Rule: "R05.25", Construct: "curve to line#2 looks at the command that follows"})
	mutant(&Mutant{Name: "c05-next-command-not-handed-over", Property: "C05", File: "svg/pathdata.go",
		Old: "\t\t\t\tp.next = c\n", New: "",
		Rule: "R05.25", Construct: "the command that follows is handed to copyInstruction"})
	mutant(&Mutant{Name: "c12-flush-deferred-behind-the-wait-group", Property: "C12", File: "minify.go",
		Old:  "\t\tdefer z.wg.Done()\n\t\tdefer pr.Close()\n\t\tif err := m.Minify(mediatype, w, pr); err != nil {",
		New:  "\t\tbw := bufio.NewWriter(w)\n\t\tdefer bw.Flush()\n\t\tdefer z.wg.Done()\n\t\tdefer pr.Close()\n\t\tif err := m.Minify(mediatype, bw, pr); err != nil {",
		More: [][2]string{{"import (\n\t\"bytes\"\n", "import (\n\t\"bufio\"\n\t\"bytes\"\n"}},
		Rule: "R12.9", Construct: "releases the wait group last"})
	mutant(&Mutant{Name: "c13-style-type-appended-into-the-shared-default", Property: "C13", File: "svg/svg.go",
		Old: "\t\t\t\tdefaultStyleType = val\n", New: "\t\t\t\tdefaultStyleType = append(defaultStyleType[:0], val...)\n",
		Rule: "R13.2", Construct: "cssMimeBytes appended into"})
	mutant(&Mutant{Name: "c18-base64-length-of-the-unminified-payload", Property: "C18", File: "common.go",
		Old: "\tdata, _ = m.Bytes(string(mediatype), data)\n\tbase64Len := len(\";base64\") + base64.StdEncoding.EncodedLen(len(data))\n",
		New: "\tbase64Len := len(\";base64\") + base64.StdEncoding.EncodedLen(len(data))\n\tdata, _ = m.Bytes(string(mediatype), data)\n",
		Rule: "R18.12", Construct: "is the length of the payload it is compared for"})
	mutant(&Mutant{Name: "c20-backup-name-not-compared-with-other-inputs", Property: "C20", File: "cmd/minify/main.go",
		Old: "\t\t\t\tif _, ok := srcs[backup]; ok {", New: "\t\t\t\tif _, ok := srcs[task.dst]; ok && i != j {",
		Rule: "R20.12", Construct: "looked up among the recorded srcs"})
	mutant(&Mutant{Name: "c20-backup-name-compared-as-spelled", Property: "C20", File: "cmd/minify/main.go",
		Old: "backup := abs(task.dst + \".bak\")", New: "backup := task.dst + \".bak\"",
		Rule: "R20.12", Construct: "looked up among the recorded dsts"})
	mutant(&Mutant{Name: "c04-box-shadow-with-var-counted-by-position", Property: "C04", File: "css/css.go",
		Old: "(values[i].Fun == Var || values[i].Fun == Attr || values[i].Fun == Env) {\n\t\t\t\t\t\t// may stand for the colour or for several lengths, the position of the zeros is unknown\n\t\t\t\t\t\tnumbers = numbers[:0]\n", New: "(values[i].Fun == Var || values[i].Fun == Attr || values[i].Fun == Env) {\n",
		Rule: "R04.26", Construct: "only from a shadow without substitution functions"})
	mutant(&Mutant{Name: "c01-rewritten-optional-chain-loses-its-parentheses", Property: "C01", File: "js/js.go",
		Old: "\t\t\tif js.OpCall <= prec && isOptionalChain(expr.X) {", New: "\t\t\tif js.OpCall <= prec && false {",
		Rule: "R01.48", Construct: "content printed without parentheses#1"})
	mutant(&Mutant{Name: "c09-rewritten-optional-chain-loses-its-parentheses", Property: "C09", File: "js/js.go",
		Old: "\t\t\tif js.OpCall <= prec && isOptionalChain(expr.X) {", New: "\t\t\tif js.OpCall <= prec && false {",
		Rule: "R09.26", Construct: "content printed without parentheses#1"})
	mutant(&Mutant{Name: "c01-parenthesised-string-statement-becomes-directive", Property: "C01", File: "js/js.go",
		Old: "\t\t\tif lit, ok := innerExpr(group).(*js.LiteralExpr); ok && lit.TokenType == js.StringToken {\n\t\t\t\t// (\"use strict\") is not a directive, without its parentheses it would be\n\t\t\t\tm.write(openParenBytes)\n\t\t\t\tm.groupedStmt = true\n\t\t\t}\n", New: "\t\t\t_ = group\n",
		Rule: "R01.49", Construct: "(a) a parenthesised string keeps its parentheses"})
	mutant(&Mutant{Name: "c01-destructuring-declaration-dropped-with-its-block", Property: "C01", File: "js/stmtlist.go",
		Old: "\t\t\t\t\tif _, ok := item.Binding.(*js.Var); !ok && item.Default != nil {\n\t\t\t\t\t\t// destructuring throws for null and undefined, and runs getters and iterators\n\t\t\t\t\t\treturn blockStmt\n\t\t\t\t\t}\n", New: "",
		Rule: "R01.50", Construct: "replaced by its initialisers only for plain names"})
	mutant(&Mutant{Name: "c01-regexp-comma-unescaped", Property: "C01", File: "js/util.go",
		Old: "\ttrue, true, true, true, true, false, true, true, // (, ), *, +, \",\", ., /\n", New: "\ttrue, true, true, true, false, false, true, true, // (, ), *, +, ., /\n",
		Rule: "R01.7", Construct: "regexpEscapeTable[',']"})
	mutant(&Mutant{Name: "c03-rtc-end-tag-omitted-before-rt", Property: "C03", File: "html/html.go",
		Old: "(next.Hash == Rb || next.Hash == Rtc || t.Hash != Rtc && (next.Hash == Rt || next.Hash == Rp))", New: "(next.Hash == Rb || next.Hash == Rtc || next.Hash == Rt || next.Hash == Rp)",
		Rule: "R03.21", Construct: "ruby end tag omitted only in front of a start tag that closes the element"})
	mutant(&Mutant{Name: "c16-tag-pairs-removed-despite-keep-end-tags", Property: "C16", File: "html/html.go",
		Old: "if !hasAttributes && !o.KeepEndTags && (!o.KeepDocumentTags", New: "if !hasAttributes && (!o.KeepDocumentTags",
		Rule: "R16.3", Construct: "html.KeepEndTags ⇒ no removal of a start and end tag pair"})
	mutant(&Mutant{Name: "c02-top-level-renamer-ignores-with", Property: "C02", File: "js/js.go",
		Old: "newRenamer(!ast.Scope.HasWith && !o.KeepVarNames, !o.useAlphabetVarNames)", New: "newRenamer(!o.KeepVarNames, !o.useAlphabetVarNames)",
		Rule: "R02.14", Construct: "starts with the switch of its scope"})
	mutant(&Mutant{Name: "c05-infinite-coordinate-formatted", Property: "C05", File: "svg/pathdata.go",
		Old: "\t\tif math.IsInf(f, 0) || math.IsNaN(f) {\n", New: "\t\tif math.IsNaN(f) {\n",
		Rule: "R05.26", Construct: "formatted coordinate#1 is finite"})
	mutant(&Mutant{Name: "c09-kept-octal-escape-in-a-template-literal", Property: "C09", File: "js/util.go",
		Old: "\t\t\t} else if b[i+1] == '7' && i+2 < len(b) && b[i+2] == '4' && isScriptMarkup(b[i+3:]) || b[i+1] == '0' && i+3 < len(b) && b[i+2] == '7' && b[i+3] == '4' && isScriptMarkup(b[i+4:]) {\n\t\t\t\tallowTemplate = false // the octal escape of < is kept in front of /script and !--, which a template literal does not allow\n", New: "",
		Rule: "R09.20", Construct: "kept octal escape excludes a template literal"})
	mutant(&Mutant{Name: "c04-escaped-space-trimmed-from-import-url", Property: "C04", File: "css/css.go",
		Old: "\t\t\t\t\tif n%2 == 1 {\n\t\t\t\t\t\tbreak // an escaped space is part of the URL\n\t\t\t\t\t}\n", New: "",
		More: [][2]string{{"\t\t\t\t\tn := 0\n\t\t\t\t\tfor a <= b-1-n && url[b-1-n] == '\\\\' {\n\t\t\t\t\t\tn++\n\t\t\t\t\t}\n", ""}},
		Rule: "R04.27", Construct: "backward trim#1 stops at an escaped space"})
	mutant(&Mutant{Name: "c04-exponent-number-sent-to-decimal", Property: "C04", File: "css/css.go",
		Old: "\tif bytes.IndexByte(num, 'e') != -1 || bytes.IndexByte(num, 'E') != -1 {\n\t\treturn num\n\t}\n\treturn minify.Decimal(num, c.o.Precision)", New: "\tif bytes.IndexByte(num, 'E') != -1 {\n\t\treturn num\n\t}\n\treturn minify.Decimal(num, c.o.Precision)",
		Rule: "R04.28", Construct: "only for a number without an exponent"})
	mutant(&Mutant{Name: "c16-exponent-number-sent-to-decimal", Property: "C16", File: "css/css.go",
		Old: "\tif bytes.IndexByte(num, 'e') != -1 || bytes.IndexByte(num, 'E') != -1 {\n\t\treturn num\n\t}\n\treturn minify.Decimal(num, c.o.Precision)", New: "\treturn minify.Decimal(num, c.o.Precision)",
		Rule: "R16.8", Construct: "only for a number without an exponent"})
	mutant(&Mutant{Name: "c05-dropped-element-resets-bracket-count", Property: "C05", File: "svg/svg.go",
		Old: " && t.TokenType != xml.StartTagToken && (t.TokenType != xml.CommentToken", New: " && (t.TokenType != xml.CommentToken",
		Rule: "R05.21", Construct: "survives a whole element that is dropped"})
	mutant(&Mutant{Name: "c18-length-counted-with-another-table", Property: "C18", File: "common.go",
		Old: "\t\tif parse.DataURIEncodingTable[c] {", New: "\t\tif parse.URLEncodingTable[c] {",
		Rule: "R18.13", Construct: "is the encoder's"})
	mutant(&Mutant{Name: "c04-negative-hue-not-wrapped", Property: "C04", File: "css/css.go",
		Old: "\t\t\t\t\t\tif vals[0] < 0.0 {\n\t\t\t\t\t\t\tvals[0] = 1.0 + vals[0]\n\t\t\t\t\t\t}\n", New: "",
		Rule: "R04.29", Construct: "wrapped into [0,1) before the conversion"})
	mutant(&Mutant{Name: "c01-sixteen-digit-keys-become-numbers", Property: "C01", File: "js/util.go",
		Old: "\tif 15 < len(b) {", New: "\tif 16 < len(b) {",
		Rule: "R01.30", Construct: "only for canonical numeric strings"})
	mutant(&Mutant{Name: "c05-first-set-of-a-smooth-run-becomes-a-line", Property: "C05", File: "svg/pathdata.go",
		Old: "if (cmd == 'C' || cmd == 'c' || i == 0 && i+di >= n) && (cp1x == p.x", New: "if (cmd == 'C' || cmd == 'c' || i == 0 || i+di >= n) && (cp1x == p.x",
		Rule: "R05.10", Construct: "cx,cy: curve replaced by a line (sets of a smooth command)"})
	mutant(&Mutant{Name: "c09-arrow-function-printed-with-the-for-flag-cleared", Property: "C09", File: "js/js.go",
		Old: "\tcase *js.ArrowFunc:\n\t\tparentGroupedStmt := m.groupedStmt\n\t\tm.groupedStmt = false\n\t\tm.minifyArrowFunc(expr)\n\t\tm.groupedStmt = parentGroupedStmt\n", New: "\tcase *js.ArrowFunc:\n\t\tparentInFor, parentGroupedStmt := m.inFor, m.groupedStmt\n\t\tm.inFor, m.groupedStmt = false, false\n\t\tm.minifyArrowFunc(expr)\n\t\tm.inFor, m.groupedStmt = parentInFor, parentGroupedStmt\n",
		Rule: "R09.6", Construct: "js.jsMinifier.minifyExpr/cleared region"})
	mutant(&Mutant{Name: "c03-table-part-state-in-one-boolean", Property: "C03", File: "html/html.go",
		Old: "\t\t\t} else if t.Hash == Colgroup {\n\t\t\t\tinColgroup = t.TokenType == html.StartTagToken", New: "\t\t\t} else if t.Hash == Colgroup || t.Hash == Tbody {\n\t\t\t\tinColgroup = t.TokenType == html.StartTagToken",
		Rule: "R03.22", Construct: "state of an open table part is not a single boolean"})
	mutant(&Mutant{Name: "c04-exponent-number-handed-back-unminified", Property: "C04", File: "css/css.go",
		Old: "\tif i := bytes.IndexByte(num, 'e'); i != -1 {\n\t\treturn c.decimalExponent(num, i)\n", New: "\tif i := bytes.IndexByte(num, 'e'); i != -1 {\n\t\treturn num\n",
		Rule: "R04.28", Construct: "no number is handed back unminified"})
	mutant(&Mutant{Name: "c16-line-separator-escape-decoded", Property: "C16", File: "js/util.go",
		Old: "\t\t\t\tif (num == 0x2028 || num == 0x2029) && quote != '`' {\n\t\t\t\t\t// keep the escape, a line or paragraph separator ends a string literal before ES2019\n\t\t\t\t\ti++\n\t\t\t\t\tcontinue\n\t\t\t\t}\n", New: "",
		Rule: "R16.9", Construct: "not decoded into a raw line or paragraph separator"})
	mutant(&Mutant{Name: "c09-raw-comment-start-before-script-left-alone", Property: "C09", File: "js/util.go",
		Old: "} else if isScriptEndTag(b[i+1:]) || isScriptMarkup(b[i+1:]) && bytes.Contains(bytes.ToLower(b[i+4:]), []byte(\"<script\")) {", New: "} else if isScriptEndTag(b[i+1:]) {",
		More: [][2]string{{"\t\t\tif b[i+1] == '\\\\' && isScriptMarkup(b[i+2:]) {\n\t\t\t\ti++ // keep the escape", "\t\t\tif b[i+1] == '\\\\' && isScriptEndTag(b[i+2:]) {\n\t\t\t\ti++ // keep the escape"}},
		Rule: "R09.20", Construct: "raw < escape not decoded into the `<` of `<!--`"})
	mutant(&Mutant{Name: "c01-builtin-test-on-the-unresolved-use", Property: "C01", File: "js/js.go",
		Old: "if v, ok := expr.X.(*js.Var); ok && unlinkVar(v).Decl == js.NoDecl && !spread {", New: "if v, ok := expr.X.(*js.Var); ok && v.Decl == js.NoDecl && !spread {",
		Rule: "R01.51", Construct: "on the linked variable"})
	mutant(&Mutant{Name: "c02-builtin-test-on-the-unresolved-use", Property: "C02", File: "js/js.go",
		Old: "if v, ok := dot.X.(*js.Var); ok && unlinkVar(v).Decl == js.NoDecl && bytes.Equal(v.Data, MathBytes) {", New: "if v, ok := dot.X.(*js.Var); ok && v.Decl == js.NoDecl && bytes.Equal(v.Data, MathBytes) {",
		Rule: "R02.15", Construct: "on the linked variable"})
	mutant(&Mutant{Name: "c01-used-lone-let-dropped", Property: "C01", File: "js/stmtlist.go",
		Old: "if v, ok := item.Binding.(*js.Var); !ok && item.Default != nil || ok && 1 < v.Uses {", New: "if _, ok := item.Binding.(*js.Var); !ok && item.Default != nil {",
		Rule: "R01.50", Construct: "only when the variable is unused"})
	mutant(&Mutant{Name: "c03-colgroup-end-tag-dropped-before-col", Property: "C03", File: "html/html.go",
		Old: "keepTag = next.TokenType == html.StartTagToken && (next.Hash == Colgroup || next.Hash == Col || next.Hash == Template)", New: "keepTag = next.TokenType == html.StartTagToken && next.Hash == Colgroup",
		Rule: "R03.23", Construct: "in front of colgroup and col"})
	mutant(&Mutant{Name: "c03-colgroup-end-tag-dropped-before-template", Property: "C03", File: "html/html.go",
		Old: "keepTag = next.TokenType == html.StartTagToken && (next.Hash == Colgroup || next.Hash == Col || next.Hash == Template)", New: "keepTag = next.TokenType == html.StartTagToken && (next.Hash == Colgroup || next.Hash == Col)",
		Rule: "R03.23", Construct: "in front of colgroup and col"})
	mutant(&Mutant{Name: "c02-switch-saved-after-it-is-set", Property: "C02", File: "js/js.go",
		Old: "func (m *jsMinifier) minifyMethodDecl(decl *js.MethodDecl) {\n\tparentRename := m.renamer.rename\n\tm.renamer.rename = !decl.Body.Scope.HasWith && !m.o.KeepVarNames\n",
		New: "func (m *jsMinifier) minifyMethodDecl(decl *js.MethodDecl) {\n\tm.renamer.rename = !decl.Body.Scope.HasWith && !m.o.KeepVarNames\n\tparentRename := m.renamer.rename\n",
		Rule: "R02.2", Construct: "is saved before the switch is set"})
	mutant(&Mutant{Name: "c01-upper-case-exponent-not-looked-for", Property: "C01", File: "js/util.go",
		Old: "if !hasPrefix && (bytes.Contains(d, []byte(\"e-\")) || bytes.Contains(d, []byte(\"E-\"))) {", New: "if !hasPrefix && bytes.Contains(d, []byte(\"e-\")) {",
		Rule: "R01.33", Construct: "written E-"})
	mutant(&Mutant{Name: "c03-carriage-return-behind-dropped-comment", Property: "C03", File: "html/html.go",
		Old: "0 < len(next.Data) && (next.Data[0] == '\\n' || next.Data[0] == '\\r') {", New: "0 < len(next.Data) && next.Data[0] == '\\n' {",
		Rule: "R03.28", Construct: "a carriage return is treated alike"})
	mutant(&Mutant{Name: "c04-second-alpha-digit-not-examined", Property: "C04", File: "css/css.go",
		Old: "\t\tif len(data) == 9 && data[7] == data[8] {\n\t\t\tif data[7] == 'f' {\n", New: "\t\tif len(data) == 9 {\n\t\t\tif data[7] == 'f' && data[8] == 'f' {\n",
		Rule: "R04.34", Construct: "examines both alpha digits"})
	mutant(&Mutant{Name: "c19-named-hidden-directory-skipped", Property: "C19", File: "cmd/minify/main.go",
		Old: "!hidden && d.Name()[0] == '.' && input != dir {", New: "!hidden && d.Name()[0] == '.' {",
		More: [][2]string{{"\t\t\tdir := input // named on the command line, minified also when its name is hidden\n", ""}},
		Rule: "R19.25", Construct: "spares the directory that was named"})
	mutant(&Mutant{Name: "c01-var-initialiser-undefined-dropped", Property: "C01", File: "js/js.go",
		Old: "\t\t\tm.minifyBindingElement(item)\n\t\t}\n\t}\n", New: "\t\t\tif _, ok := item.Binding.(*js.Var); ok && decl.TokenType != js.ConstToken && isUndefined(item.Default) {\n\t\t\t\titem.Default = nil\n\t\t\t}\n\t\t\tm.minifyBindingElement(item)\n\t\t}\n\t}\n",
		Rule: "R01.53", Construct: "initialiser discarded"})
	mutant(&Mutant{Name: "c12-read-error-tested-before-the-data", Property: "C12", File: "minify.go",
		Old: "// Writer wraps a Writer interface and minifies the stream.\n", New: "// ReadFrom copies r into the minifier.\nfunc (z *writer) ReadFrom(r io.Reader) (int64, error) {\n\tbuf := make([]byte, 32*1024)\n\tvar total int64\n\tfor {\n\t\tn, err := r.Read(buf)\n\t\tif err == io.EOF {\n\t\t\treturn total, nil\n\t\t} else if err != nil {\n\t\t\treturn total, err\n\t\t}\n\t\tn, err = z.WriteCloser.Write(buf[:n])\n\t\ttotal += int64(n)\n\t\tif err != nil {\n\t\t\treturn total, err\n\t\t}\n\t}\n}\n\n// Writer wraps a Writer interface and minifies the stream.\n",
		Rule: "R12.10", Construct: "the byte count is used before the error decides"})
	mutant(&Mutant{Name: "c13-pooled-buffer-returned-by-bytes", Property: "C13", File: "minify.go",
		Old: "\tout := buffer.NewWriter(make([]byte, 0, len(v)))\n\tif err := m.Minify(mediatype, out, buffer.NewReader(in)); err != nil {", New: "\tout := bytesPool.Get().(*buffer.Writer)\n\tdefer bytesPool.Put(out)\n\tout.Reset()\n\tif err := m.Minify(mediatype, out, buffer.NewReader(in)); err != nil {",
		More: [][2]string{{"// Bytes minifies an array of bytes (safe for concurrent use).", "var bytesPool = sync.Pool{New: func() interface{} { return buffer.NewWriter(make([]byte, 0, 1024)) }}\n\n// Bytes minifies an array of bytes (safe for concurrent use)."}},
		Rule: "R13.6", Construct: "pooled object does not escape"})
	mutant(&Mutant{Name: "c06-scratch-buffer-kept-in-the-minifier", Property: "C06", File: "xml/xml.go",
		Old: "\tattrByteBuffer := make([]byte, 0, 64)\n", New: "\tif o.scratch == nil {\n\t\to.scratch = make([]byte, 0, 64)\n\t}\n\tattrByteBuffer := o.scratch\n",
		More: [][2]string{{"\tKeepWhitespace bool\n}", "\tKeepWhitespace bool\n\tscratch        []byte\n}"}},
		Rule: "R06.11", Construct: "stores to Minifier fields in xml."})
	mutant(&Mutant{Name: "c09-nullish-alternate-unwrapped-into-or", Property: "C09", File: "js/util.go",
		Old: "&& (exprPrec(expr.Y) < js.OpAssign || binaryRightPrecMap[js.OrToken] <= exprPrec(expr.Y)) {", New: "&& exprPrec(expr.Y) != js.OpAssign {",
		Rule: "R09.29", Construct: "expr.Y goes unwrapped into js.OrToken"})
	mutant(&Mutant{Name: "c10-script-searched-for-every-comment-start", Property: "C10", File: "js/util.go",
		Old: "isScriptMarkup(b[i+1:]) && i < lastScriptStart(b, &lastScript) {", New: "isScriptMarkup(b[i+1:]) && bytes.Contains(bytes.ToLower(b[i+4:]), []byte(\"<script\")) {",
		Rule: "R10.21", Construct: "js.replaceEscapes/search from the cursor"})
	mutant(&Mutant{Name: "c19-ext-mappings-resolved-in-map-order", Property: "C19", File: "cmd/minify/main.go",
		Old: "\t\tmimetypes[ext] = filetype\n", New: "\t\tmimetypes[ext] = filetype\n\t\textMap[ext] = filetype\n",
		Rule: "R19.26", Construct: "does not read what it writes"})
	mutant(&Mutant{Name: "c01-empty-statement-removed-before-string", Property: "C01", File: "js/stmtlist.go",
		Old: "\t\t\t\t\tif lit, ok := exprStmt.Value.(*js.LiteralExpr); ok && lit.TokenType == js.StringToken {\n\t\t\t\t\t\t// a string statement behind an empty statement is not a directive, at the start of the list it would be\n\t\t\t\t\t\texprStmt.Value = &js.GroupExpr{X: lit}\n\t\t\t\t\t}\n", New: "\t\t\t\t\t_ = exprStmt\n",
		Rule: "R01.49", Construct: "(c) empty statements removed"})
	mutant(&Mutant{Name: "c14-command-minifier-without-probe", Property: "C14", File: "minify.go",
		Old: "\t\t_, err = w.Write(nil)\n", New: "\t\t_, _ = w.Write(nil)\n",
		Rule: "R14.9", Construct: "the writer is probed before success is reported"})
	mutant(&Mutant{Name: "c01-else-dissolved-behind-a-try", Property: "C01", File: "js/stmtlist.go",
		Old: "\t\t\tif isFlowStmt(lastStmt(ifStmt.Body)) {", New: "\t\t\tif endsInJump(ifStmt.Body) {",
		More: [][2]string{{"func optimizeStmtList(list []js.IStmt, blockType blockType) []js.IStmt {", "func endsInJump(stmt js.IStmt) bool {\n\tstmt = lastStmt(stmt)\n\tif tryStmt, ok := stmt.(*js.TryStmt); ok && tryStmt.Body != nil {\n\t\treturn endsInJump(tryStmt.Body)\n\t}\n\treturn isFlowStmt(stmt)\n}\n\nfunc optimizeStmtList(list []js.IStmt, blockType blockType) []js.IStmt {"}},
		Rule: "R01.17", Construct: "else dissolved#1 only behind an unconditional jump"})
	mutant(&Mutant{Name: "c04-axis-positions-share-the-position-case", Property: "C04", File: "css/css.go",
		Old: "\tcase Background_Position:\n", New: "\tcase Background_Position, Background_Position_X, Background_Position_Y:\n",
		Rule: "R04.31", Construct: "lists properties of one value shape"})
	mutant(&Mutant{Name: "c13-base-url-written-into-the-registry", Property: "C13", File: "svg/svg.go",
		Old: "\tp := NewPathData(o)\n", New: "\tif m != nil && m.URL != nil && o.Inline {\n\t\tu := *m.URL\n\t\tdefer func() { m.URL = &u }()\n\t\tm.URL = nil\n\t}\n\tp := NewPathData(o)\n",
		Rule: "R13.10", Construct: "svg/no write into the registry"})
	mutant(&Mutant{Name: "c04-prefixed-flex-looked-up-with-its-prefix", Property: "C04", File: "css/css.go",
		Old: "\t\t\ttokensProp = ToHash(property[i+2:])\n", New: "\t\t\ttokensProp = ToHash(property[:i+2])\n",
		Rule: "R04.32", Construct: "see the name behind a vendor prefix"})
	mutant(&Mutant{Name: "c09-parentheses-of-let-dropped", Property: "C09", File: "js/js.go",
		Old: "\t\tif prec <= precInside && !keepGroup {\n", New: "\t\t_ = keepGroup\n\t\tif prec <= precInside {\n",
		More: [][2]string{{"(bytes.Equal(v.Name(), letBytes) || bytes.Equal(v.Name(), asyncBytes)) {", "bytes.Equal(v.Name(), asyncBytes) {"}},
		Rule: "R09.30", Construct: "only after a look at the identifiers let and async"})
	mutant(&Mutant{Name: "c03-carriage-return-reference-decoded-in-attributes", Property: "C03", File: "html/html.go",
		Old: "val = parse.ReplaceEntities(val, EntitiesMap, AttrRevEntitiesMap)", New: "val = parse.ReplaceEntities(val, EntitiesMap, nil)",
		Rule: "R03.25", Construct: "hands over a reverse map for the bytes the parser normalises"})
	mutant(&Mutant{Name: "c03-carriage-return-missing-from-the-text-escapes", Property: "C03", File: "html/table.go",
		Old: "var TextRevEntitiesMap = map[byte][]byte{\n\t'<':  []byte(\"&lt;\"),\n\t'\\r': []byte(\"&#13;\"), // a literal carriage return is turned into a line feed by the parser\n}", New: "var TextRevEntitiesMap = map[byte][]byte{\n\t'<': []byte(\"&lt;\"),\n}",
		Rule: "R03.25", Construct: "hands over a reverse map for the bytes the parser normalises"})
	mutant(&Mutant{Name: "c02-hoisted-name-skips-scopes-without-declarations", Property: "C02", File: "js/vars.go",
		Old: "\t\t\t\t\t\t\ts.AddUndeclared(ref)\n", New: "\t\t\t\t\t\t\tif 0 < len(s.Declared) {\n\t\t\t\t\t\t\t\ts.AddUndeclared(ref)\n\t\t\t\t\t\t\t}\n",
		Rule: "R02.5", Construct: "registered in every scope of the walk"})
	mutant(&Mutant{Name: "c11-event-handler-escaped-only-when-the-source-had-an-ampersand", Property: "C11", File: "html/html.go",
		Old: "buffer.NewReader(decodeAttrVal(parse.Copy(val))), inlineParams); err == nil {\n\t\t\t\t\t\t\t\tval = escapeAttrAmp(attrMinifyBuffer.Bytes())\n\t\t\t\t\t\t\t} else if err != minify.ErrNotExist {\n\t\t\t\t\t\t\t\treturn minify.UpdateErrorPosition(err, z, attr.Offset)\n\t\t\t\t\t\t\t}\n\t\t\t\t\t\t\tif len(val) == 0 {\n\t\t\t\t\t\t\t\tcontinue\n\t\t\t\t\t\t\t}\n\t\t\t\t\t\t} else if 2 < len(attr.Text)",
		New: "buffer.NewReader(decodeAttrVal(parse.Copy(val))), inlineParams); err == nil {\n\t\t\t\t\t\t\t\thadAmp := bytes.IndexByte(val, '&') != -1\n\t\t\t\t\t\t\t\tval = attrMinifyBuffer.Bytes()\n\t\t\t\t\t\t\t\tif hadAmp {\n\t\t\t\t\t\t\t\t\tval = escapeAttrAmp(val)\n\t\t\t\t\t\t\t\t}\n\t\t\t\t\t\t\t} else if err != minify.ErrNotExist {\n\t\t\t\t\t\t\t\treturn minify.UpdateErrorPosition(err, z, attr.Offset)\n\t\t\t\t\t\t\t}\n\t\t\t\t\t\t\tif len(val) == 0 {\n\t\t\t\t\t\t\t\tcontinue\n\t\t\t\t\t\t\t}\n\t\t\t\t\t\t} else if 2 < len(attr.Text)",
		Rule: "R11.9", Construct: "result has its ampersands escaped on every path"})
	mutant(&Mutant{Name: "c01-expression-merged-into-the-object-of-for-in", Property: "C01", File: "js/stmtlist.go",
		Old: "\t\t\t\t} else if ifStmt, ok := list[i].(*js.IfStmt); ok {\n\t\t\t\t\tifStmt.Cond = commaExpr(left.Value, ifStmt.Cond)\n\t\t\t\t\tj--\n",
		New: "\t\t\t\t} else if ifStmt, ok := list[i].(*js.IfStmt); ok {\n\t\t\t\t\tifStmt.Cond = commaExpr(left.Value, ifStmt.Cond)\n\t\t\t\t\tj--\n\t\t\t\t} else if forInStmt, ok := list[i].(*js.ForInStmt); ok {\n\t\t\t\t\tforInStmt.Value = commaExpr(left.Value, forInStmt.Value)\n\t\t\t\t\tj--\n",
		Rule: "R01.54", Construct: "preceding expression moved into ForInStmt.Value"})
	mutant(&Mutant{Name: "c05-colour-attribute-lower-cased-in-place", Property: "C05", File: "svg/svg.go",
		Old: "\t\t\t\t//parse.ToLower(val)\n", New: "\t\t\t\tparse.ToLower(val)\n",
		Rule: "R05.27", Construct: "folded as a whole"})
	mutant(&Mutant{Name: "c16-nullish-assignment-behind-the-gate-of-nullish", Property: "C16", File: "js/js.go",
		Old: "\t\tprecLeft := binaryLeftPrecMap[expr.Op]\n\t\tprecRight := binaryRightPrecMap[expr.Op]\n",
		New: "\t\tif v, ok := expr.X.(*js.Var); ok && expr.Op == js.NullishToken && m.o.minVersion(2020) {\n\t\t\tif assign, ok := expr.Y.(*js.GroupExpr); ok {\n\t\t\t\tif b, ok := assign.X.(*js.BinaryExpr); ok && b.Op == js.EqToken && b.X == js.IExpr(v) {\n\t\t\t\t\tm.minifyExpr(&js.GroupExpr{X: &js.BinaryExpr{Op: js.NullishEqToken, X: v, Y: b.Y}}, prec)\n\t\t\t\t\tbreak\n\t\t\t\t}\n\t\t\t}\n\t\t}\n\t\tprecLeft := binaryLeftPrecMap[expr.Op]\n\t\tprecRight := binaryRightPrecMap[expr.Op]\n",
		Rule: "R16.1", Construct: "operator js.NullishEqToken"})
	mutant(&Mutant{Name: "c01-negated-number-judged-by-its-digits", Property: "C01", File: "js/js.go",
		Old: "\t\t\t\t\tif falsy, ok := isFalsy(lit); ok {\n\t\t\t\t\t\tif falsy {\n", New: "\t\t\t\t\tif falsy, ok := len(lit.Data) == 1 && lit.Data[0] == '0', true; ok {\n\t\t\t\t\t\tif falsy {\n",
		Rule: "R01.55", Construct: "written for a negated number"})
	mutant(&Mutant{Name: "c03-comment-behind-pre-dropped-without-a-look", Property: "C03", File: "html/html.go",
		Old: "\t\t\tif dropped && afterPreStart {\n", New: "\t\t\tif dropped && false {\n",
		More: [][2]string{{"\t\tafterPreStart := preStart\n", "\t\tafterPreStart := preStart\n\t\t_ = afterPreStart\n"}},
		Rule: "R03.26", Construct: "a dropped comment asks whether it follows the pre start tag"})
	mutant(&Mutant{Name: "c13-nesting-written-into-the-callers-params", Property: "C13", File: "html/html.go",
		Old: "\t\t\t\t\tvar params map[string]string\n", New: "",
		Rule: "R13.11", Construct: "html/no store into a params map parameter"})
	mutant(&Mutant{Name: "c07-copy-destination-one-byte-short", Property: "C07", File: "common.go",
		Old: "\t\t\t\tcopy(num[start+1:], num[start:dot])\n\t\t\t\tstart++\n\t\t\t} else {\n\t\t\t\tcopy(num[dot:], num[dot+1:end])\n\t\t\t\tend--\n", New: "\t\t\t\tcopy(num[start+1:dot], num[start:dot])\n\t\t\t\tstart++\n\t\t\t} else {\n\t\t\t\tcopy(num[dot:], num[dot+1:end])\n\t\t\t\tend--\n",
		Rule: "R07.15", Construct: "has room for its source"})
	mutant(&Mutant{Name: "c11-escaper-waits-for-the-semicolon", Property: "C11", File: "html/html.go",
		Old: "\t\tif c == '&' && i+1 < len(b) && isRefStart(b[i+1]) {", New: "\t\tif c == '&' && i+1 < len(b) && isRefStart(b[i+1]) && bytes.IndexByte(b[i+1:], ';') != -1 {",
		Rule: "R11.9", Construct: "does not wait for a semicolon"})
	mutant(&Mutant{Name: "c01-declarators-sorted-with-an-unstable-sort", Property: "C01", File: "js/js.go",
		Old: "\t\t\tsort.SliceStable(decl.List, func(i, j int) bool {", New: "\t\t\tsort.Slice(decl.List, func(i, j int) bool {",
		Rule: "R01.56", Construct: "sort of decl.List"})
	mutant(&Mutant{Name: "c09-regexp-end-tag-matched-by-a-fixed-string", Property: "C09", File: "js/js.go",
		Old: "m.prev[len(m.prev)-1] == '<' && isScriptEndTag(expr.Data) {", New: "m.prev[len(m.prev)-1] == '<' && bytes.HasPrefix(expr.Data, []byte(\"/script>\")) {",
		Rule: "R09.20", Construct: "js.jsMinifier.minifyExpr/end tag recognised whatever its case and tail"})
	mutant(&Mutant{Name: "c01-negated-chain-operand-not-grouped", Property: "C01", File: "js/util.go",
		Old: "if !isEqX && binaryLeftPrecMap[binary.Op] <= exprPrec(binary.X) && exprPrec(binary.X) < js.OpUnary {", New: "if !isEqX && binaryLeftPrecMap[binary.Op] < exprPrec(binary.X) && exprPrec(binary.X) < js.OpUnary {",
		Rule: "R01.57", Construct: "negated operand binary.X grouped below the unary level"})
	mutant(&Mutant{Name: "c03-formmethod-dropped-as-a-default", Property: "C03", File: "html/html.go",
		Old: "attr.Hash == Method && parse.EqualFold(val, getBytes) ||", New: "(attr.Hash == Method || attr.Hash == Formmethod) && parse.EqualFold(val, getBytes) ||",
		Rule: "R03.27", Construct: "default value of formmethod may be dropped"})
	mutant(&Mutant{Name: "c10-pi-skipped-by-a-loop-condition-without-the-error-exit", Property: "C10", File: "svg/svg.go",
		Old: "\t\t\tfor {\n\t\t\t\tif t := *tb.Shift(); t.TokenType == xml.StartTagClosePIToken || t.TokenType == xml.ErrorToken {\n\t\t\t\t\tbreak\n\t\t\t\t}\n\t\t\t}\n", New: "\t\t\tfor tb.Shift().TokenType != xml.StartTagClosePIToken {\n\t\t\t}\n",
		Rule: "R10.8", Construct: "leaves on ErrorToken"})
	mutant(&Mutant{Name: "c15-pattern-results-cached-in-front-of-the-literals", Property: "C15", File: "minify.go",
		Old: "\tif minifier, ok := m.literal[string(mimetype)]; ok { // string conversion is optimized away\n\t\treturn minifier.Minify(m, w, r, params)\n\t}\n\tfor _, minifier := range m.pattern {\n\t\tif minifier.pattern.Match(mimetype) {\n",
		New: "\tif minifier, ok := m.matched.Load(string(mimetype)); ok {\n\t\treturn minifier.(Minifier).Minify(m, w, r, params)\n\t}\n\tif minifier, ok := m.literal[string(mimetype)]; ok { // string conversion is optimized away\n\t\treturn minifier.Minify(m, w, r, params)\n\t}\n\tfor _, minifier := range m.pattern {\n\t\tif minifier.pattern.Match(mimetype) {\n\t\t\tm.matched.Store(string(mimetype), minifier.Minifier)\n",
		More: [][2]string{{"\tpattern []patternMinifier\n", "\tpattern []patternMinifier\n\tmatched sync.Map\n"}, {"\t\t[]patternMinifier{},\n", "\t\t[]patternMinifier{},\n\t\tsync.Map{},\n"}},
		Rule: "R15.1", Construct: "M.MinifyMimetype/plan"})
	mutant(&Mutant{Name: "c09-svg-style-sheet-written-around-the-escaper", Property: "C09", File: "svg/svg.go",
		Old: "\t\t\t\tminifyBuffer.Reset()\n\t\t\t\tif err := m.MinifyMimetype(defaultStyleType, minifyBuffer, buffer.NewReader(t.Data), defaultStyleParams); err == nil {\n\t\t\t\t\tt.Data = minifyBuffer.Bytes()\n\t\t\t\t} else if err != minify.ErrNotExist {\n\t\t\t\t\treturn minify.UpdateErrorPosition(err, z, t.Offset)\n\t\t\t\t}\n\t\t\t\t// the style sheet is character data like any other: a ]]> in it, in a string for instance, must stay escaped\n\t\t\t\tt.Data, _ = escapeCDATAEnd(t.Data, brackets)\n\t\t\t\tw.Write(t.Data)\n",
		New: "\t\t\t\tif err := m.MinifyMimetype(defaultStyleType, w, buffer.NewReader(t.Data), defaultStyleParams); err != nil {\n\t\t\t\t\tif err != minify.ErrNotExist {\n\t\t\t\t\t\treturn minify.UpdateErrorPosition(err, z, t.Offset)\n\t\t\t\t\t}\n\t\t\t\t\tt.Data, _ = escapeCDATAEnd(t.Data, brackets)\n\t\t\t\t\tw.Write(t.Data)\n\t\t\t\t}\n",
		Rule: "R09.17", Construct: "text case hands the output to MinifyMimetype"})
	mutant(&Mutant{Name: "c09-hoisted-async-bare-in-the-for-of-head", Property: "C09", File: "js/js.go",
		Old: "\t\t\tif bare != nil && (bytes.Equal(bare.Name(), letBytes) || bytes.Equal(bare.Name(), asyncBytes)) {\n", New: "\t\t\tif bare != nil && bytes.Equal(bare.Name(), letBytes) {\n",
		Rule: "R09.30", Construct: "case *js.ForOfStmt/declaration printed"})
}
