package rules

import (
	"fmt"
	"go/ast"
	"go/types"
	"strings"

	"golang.org/x/tools/go/packages"

	"verif/checker/internal/flow"
	"verif/checker/internal/load"
)

const rwT = load.Mod + ".responseWriter"

func init() {
	register(&Property{
		ID:    "C12",
		Level: "other",
		Explain: "The set of chunkings is a runtime quantity, but the reason chunking cannot matter is structural: every minifier hands its io.Reader, whole, to parse.NewInput (which reads it only through Bytes() or io.ReadAll) and uses it nowhere else, so the parse is a function of the concatenated stream (R12.1); " +
			"all convenience entry points route to the same M.Minify call with the caller's media type, and the response writer calls exactly what Match returns (R12.2); the pipe protocol delivers all output and the error by Close (R12.3, shared with C14); " +
			"every path that hands the wrapped http.ResponseWriter to output first deletes Content-Length (R12.4); the media type comes from the request path extension and is overridden by a non-empty Content-Type before matching, and the middlewares always Close (R12.5). " +
			"Not covered: actual goroutine schedules (io.Pipe and sync.WaitGroup semantics are trusted).",
		Run: runC12,
	})
	mutant(&Mutant{Name: "c12-output-written-over-the-input-copy", Property: "C12", File: "minify.go",
		Old: "\tcopy(in, v)\n\tout := buffer.NewWriter(make([]byte, 0, len(v)))", New: "\tcopy(in, v)\n\tout := buffer.NewWriter(in[:0])",
		Rule: "R12.8", Construct: "output buffer and input copy are different memory"})
	mutant(&Mutant{Name: "c12-minifier-sniffed-from-first-chunk", Property: "C12", File: "minify.go",
		Old: "\t\tif mediatype := w.ResponseWriter.Header().Get(\"Content-Type\"); mediatype != \"\" {\n\t\t\tw.mediatype = mediatype\n\t\t}\n", New: "\t\tif mediatype := w.ResponseWriter.Header().Get(\"Content-Type\"); mediatype != \"\" {\n\t\t\tw.mediatype = mediatype\n\t\t} else if w.mediatype == \"\" {\n\t\t\tw.mediatype = http.DetectContentType(b)\n\t\t}\n",
		Rule: "R12.7", Construct: "independent of the chunk"})
	mutant(&Mutant{Name: "c12-gathering-writer-lets-large-chunks-overtake", Property: "C12", File: "minify.go",
		Old: "type writer struct {\n\tio.WriteCloser\n", New: "type writer struct {\n\tio.WriteCloser\n\tbuf    []byte\n",
		Old2: "// Close must be called when writing has finished. It returns the error from the minifier.\nfunc (z *writer) Close() error {\n", New2: "func (z *writer) Write(b []byte) (int, error) {\n\tif 4096 <= len(b) {\n\t\treturn z.WriteCloser.Write(b)\n\t}\n\tif cap(z.buf) < len(z.buf)+len(b) {\n\t\tif _, err := z.WriteCloser.Write(z.buf); err != nil {\n\t\t\treturn 0, err\n\t\t}\n\t\tz.buf = z.buf[:0]\n\t}\n\tz.buf = append(z.buf, b...)\n\treturn len(b), nil\n}\n\n// Close must be called when writing has finished. It returns the error from the minifier.\nfunc (z *writer) Close() error {\n",
		More: [][2]string{{"\tz := &writer{pw, sync.WaitGroup{}, false, nil}\n\tz.wg.Add(1)\n\tgo func() {\n\t\tdefer z.wg.Done()\n\t\tdefer pr.Close()\n\t\tif err := m.Minify(", "\tz := &writer{pw, nil, sync.WaitGroup{}, false, nil}\n\tz.wg.Add(1)\n\tgo func() {\n\t\tdefer z.wg.Done()\n\t\tdefer pr.Close()\n\t\tif err := m.Minify("}, {"\t\t\tz := &writer{pw, sync.WaitGroup{}, false, nil}\n", "\t\t\tz := &writer{pw, nil, sync.WaitGroup{}, false, nil}\n"}},
		Rule: "R12.6", Construct: "writer.Write/pass-through"})
	mutant(&Mutant{Name: "c12-extension-from-request-uri", Property: "C12", File: "minify.go",
		Old: "\tmediatype := mime.TypeByExtension(path.Ext(uri))\n", New: "\tmediatype := mime.TypeByExtension(path.Ext(r.RequestURI))\n\t_ = uri\n",
		Rule: "R12.5", Construct: "extension fallback"})
	mutant(&Mutant{Name: "c12-extension-query-not-cut", Property: "C12", File: "minify.go",
		Old: "\tif i := strings.IndexByte(uri, '?'); i != -1 {\n\t\turi = uri[:i] // the extension is that of the path, not of the query\n\t}\n", New: "",
		Rule: "R12.5", Construct: "extension fallback"})
	mutant(&Mutant{Name: "c12-json-peeks-reader", Property: "C12", File: "json/json.go",
		Old: "\tz := parse.NewInput(r)\n", New: "\tvar first [1]byte\n\tr.Read(first[:])\n\tz := parse.NewInput(r)\n",
		Rule: "R12.1", Construct: "json.Minifier.Minify"})
	mutant(&Mutant{Name: "c12-string-other-type", Property: "C12", File: "minify.go",
		Old: "\tif err := m.Minify(mediatype, out, buffer.NewReader([]byte(v))); err != nil {", New: "\tif err := m.Minify(strings.ToLower(mediatype), out, buffer.NewReader([]byte(v))); err != nil {",
		Rule: "R12.2", Construct: "M.String"})
	mutant(&Mutant{Name: "c12-writeheader-keeps-length", Property: "C12", File: "minify.go",
		Old: "\tw.ResponseWriter.Header().Del(\"Content-Length\")\n\tw.ResponseWriter.WriteHeader(status)\n", New: "\tw.ResponseWriter.WriteHeader(status)\n",
		Rule: "R12.4", Construct: "responseWriter.WriteHeader"})
	mutant(&Mutant{Name: "c12-content-type-after-match", Property: "C12", File: "minify.go",
		Old: "\t\tif mediatype := w.ResponseWriter.Header().Get(\"Content-Type\"); mediatype != \"\" {\n\t\t\tw.mediatype = mediatype\n\t\t}\n", New: "",
		Rule: "R12.5", Construct: "responseWriter.Write/Content-Type"})
	mutant(&Mutant{Name: "c12-middleware-no-close", Property: "C12", File: "minify.go",
		Old: "\t\tnext.ServeHTTP(mw, r)\n\t\tmw.Close()\n", New: "\t\tnext.ServeHTTP(mw, r)\n",
		Rule: "R12.5", Construct: "M.Middleware"})
	mutant(&Mutant{Name: "c12-writer-no-add", Property: "C12", File: "minify.go",
		Old:  "\tz := &writer{pw, sync.WaitGroup{}, false, nil}\n\tz.wg.Add(1)\n\tgo func() {\n\t\tdefer z.wg.Done()\n\t\tdefer pr.Close()\n\t\tif err := m.Minify(mediatype, w, pr); err != nil {",
		New:  "\tz := &writer{pw, sync.WaitGroup{}, false, nil}\n\tgo func() {\n\t\tz.wg.Add(1)\n\t\tdefer z.wg.Done()\n\t\tdefer pr.Close()\n\t\tif err := m.Minify(mediatype, w, pr); err != nil {",
		Rule: "R12.3", Construct: "M.Writer/goroutine"})
}

func runC12(c *Ctx) {
	pk := c.pkg("R12", "")
	if pk == nil {
		return
	}
	c.r121(pk)
	c.r122(pk)
	c.pipeProtocol("R12.3")
	c.r124(pk)
	c.r125(pk)
	c.r126(pk)
	c.r127(pk)
	c.r128("R12.8")
	c.r129(pk)
	c.r1210(pk)
}

// R12.1
func (c *Ctx) r121(root *packages.Package) {
	const rule = "R12.1"
	c.R.Rule(rule, "in every (*Minifier).Minify, package-level Minify wrapper, MinifierFunc.Minify and cmdMinifier.Minify the io.Reader parameter is used only (a) as the argument of parse.NewInput, (b) passed on as the reader argument of another minifier entry (Minify / MinifyMimetype / a MinifierFunc value), or (c) in cmdMinifier as exec.Cmd.Stdin / the source of io.Copy; in the dependency, parse.NewInput uses its reader only in a nil test, the Bytes() interface assertion and io.ReadAll")
	type target struct {
		pk *packages.Package
		fd *ast.FuncDecl
	}
	var ts []target
	for _, rel := range formatPkgs {
		pk := c.pkg(rule, rel)
		if pk == nil {
			continue
		}
		for _, n := range []string{"Minifier.Minify", "Minify"} {
			if fd := c.fn(rule, pk, n); fd != nil {
				ts = append(ts, target{pk, fd})
			}
		}
	}
	for _, n := range []string{"MinifierFunc.Minify", "cmdMinifier.Minify", "M.Minify", "M.MinifyMimetype"} {
		if fd := c.fn(rule, root, n); fd != nil {
			ts = append(ts, target{root, fd})
		}
	}
	readers := 0
	for _, t := range ts {
		info := t.pk.TypesInfo
		r := paramOfType(info, t.fd, "io.Reader")
		fname := t.pk.Name + "." + load.FuncName(t.fd)
		if r == nil {
			c.R.Unres(rule, fname+"/reader param", c.pos(t.fd), "no named io.Reader parameter")
			continue
		}
		readers++
		var bad []string
		uses := 0
		ast.Inspect(t.fd.Body, func(x ast.Node) bool {
			id, ok := x.(*ast.Ident)
			if !ok || info.Uses[id] != r {
				return true
			}
			uses++
			par := c.P.Parent(id)
			switch p := par.(type) {
			case *ast.CallExpr:
				isArg := false
				for _, a := range p.Args {
					if a == ast.Expr(id) {
						isArg = true
					}
				}
				cn := calleeName(info, p)
				switch {
				case !isArg:
					bad = append(bad, c.pos(id)+": used as "+str(p))
				case cn == load.ParseMod+".NewInput":
				case cn == "io.Copy" && fname == "minify.cmdMinifier.Minify" && len(p.Args) == 2 && p.Args[1] == ast.Expr(id):
				case strings.HasSuffix(cn, ".Minify") || strings.HasSuffix(cn, ".MinifyMimetype"):
				case namedTypeName(info.TypeOf(p.Fun)) == load.Mod+".MinifierFunc": // calling a MinifierFunc value
				default:
					bad = append(bad, c.pos(id)+": passed to "+cn+" "+str(p.Fun))
				}
			case *ast.AssignStmt:
				okAssign := false
				for i, rhs := range p.Rhs {
					if rhs == ast.Expr(id) && i < len(p.Lhs) && isField(info, p.Lhs[i], "os/exec.Cmd", "Stdin") && fname == "minify.cmdMinifier.Minify" {
						okAssign = true
					}
				}
				if !okAssign {
					bad = append(bad, c.pos(id)+": stored in "+str(p.Lhs[0]))
				}
			default:
				bad = append(bad, c.pos(id)+": "+fmt.Sprintf("%T", par))
			}
			return true
		})
		c.R.Check(len(bad) == 0 && uses > 0, rule, fname+"/reader "+r.Name(), c.pos(t.fd), fmt.Sprintf("%d use(s), all whole-stream hand-offs", uses),
			"the input reader is used other than by handing the whole stream to parse.NewInput / the next minifier; the result may depend on how the input is chunked: "+strings.Join(bad, "; "))
	}
	c.R.Floor(rule, "reader parameters", readers, 14)
	// dependency: parse.NewInput
	dep := c.P.Dep(load.ParseMod)
	if dep == nil {
		c.R.Unres(rule, "parse.NewInput", "-", "dependency not loaded")
		return
	}
	fd := load.Func(dep, "NewInput")
	if fd == nil {
		c.R.Unres(rule, "parse.NewInput", "-", "function not found")
		return
	}
	info := dep.TypesInfo
	r := paramOfType(info, fd, "io.Reader")
	var bad []string
	readAll := false
	ast.Inspect(fd.Body, func(x ast.Node) bool {
		id, ok := x.(*ast.Ident)
		if !ok || info.Uses[id] != r {
			return true
		}
		switch p := c.parentIn(dep, id).(type) {
		case *ast.BinaryExpr:
			if !isNilExpr(p.X) && !isNilExpr(p.Y) {
				bad = append(bad, str(p))
			}
		case *ast.TypeAssertExpr:
			it, ok := info.TypeOf(p.Type).Underlying().(*types.Interface)
			if !ok || it.NumMethods() != 1 || it.Method(0).Name() != "Bytes" {
				bad = append(bad, str(p))
			}
		case *ast.CallExpr:
			if calleeName(info, p) == "io.ReadAll" {
				readAll = true
			} else {
				bad = append(bad, str(p))
			}
		default:
			bad = append(bad, fmt.Sprintf("%T", p))
		}
		return true
	})
	c.R.Check(len(bad) == 0 && readAll, rule, "parse.NewInput/reader", c.pos(fd), "nil test, Bytes() assertion, io.ReadAll", "parse.NewInput reads its reader in another way: "+strings.Join(bad, "; "))
}

// parentIn finds the syntactic parent of n inside a dependency package (not covered by Program.Parent).
func (c *Ctx) parentIn(pk *packages.Package, n ast.Node) ast.Node {
	var parent ast.Node
	for _, f := range pk.Syntax {
		if f.Pos() <= n.Pos() && n.End() <= f.End() {
			var stack []ast.Node
			ast.Inspect(f, func(x ast.Node) bool {
				if x == nil {
					stack = stack[:len(stack)-1]
					return true
				}
				if x == n && len(stack) > 0 {
					parent = stack[len(stack)-1]
				}
				stack = append(stack, x)
				return parent == nil
			})
		}
	}
	return parent
}

// R12.2
func (c *Ctx) r122(pk *packages.Package) {
	const rule = "R12.2"
	c.R.Rule(rule, "M.Bytes, M.String, M.Reader and M.Writer each contain exactly one minifier invocation, m.Minify(mediatype, …), whose first argument is their own unmodified mediatype parameter; responseWriter.Write invokes exactly the function value returned by w.m.Match(w.mediatype) with the params returned by that same Match call")
	info := pk.TypesInfo
	for _, name := range []string{"M.Bytes", "M.String", "M.Reader", "M.Writer"} {
		fd := c.fn(rule, pk, name)
		if fd == nil {
			continue
		}
		media := fd.Type.Params.List[0].Names[0]
		mobj := info.Defs[media]
		calls := findCalls(info, fd.Body, true, load.Mod+".(M).Minify", load.Mod+".(M).MinifyMimetype")
		ok := len(calls) == 1 && calleeName(info, calls[0]) == load.Mod+".(M).Minify"
		if ok {
			id, isId := ast.Unparen(calls[0].Args[0]).(*ast.Ident)
			ok = isId && info.Uses[id] == mobj
		}
		// parameter never reassigned
		reassigned := flow.Contains(fd.Body, func(x ast.Node) bool {
			as, isAs := x.(*ast.AssignStmt)
			if !isAs {
				return false
			}
			for _, l := range as.Lhs {
				if id, isId := l.(*ast.Ident); isId && info.Uses[id] == mobj {
					return true
				}
			}
			return false
		})
		c.R.Check(ok && !reassigned, rule, "minify."+name, c.pos(fd), "one call m.Minify(mediatype, …)", "does not route to m.Minify with the caller's media type unchanged: this entry point can pick a different minifier or parameters than the plain call")
	}
	if fd := c.fn(rule, pk, "responseWriter.Write"); fd != nil {
		// _, params, minifier := w.m.Match(w.mediatype) ; go func(){ minifier(w.m, w.ResponseWriter, pr, params) }
		var matchAs *ast.AssignStmt
		ast.Inspect(fd.Body, func(x ast.Node) bool {
			if as, ok := x.(*ast.AssignStmt); ok && len(as.Rhs) == 1 && isCall(info, as.Rhs[0], load.Mod+".(M).Match") != nil && len(as.Lhs) == 3 {
				matchAs = as
			}
			return true
		})
		ok := false
		detail := "no call of M.Match with three results"
		if matchAs != nil {
			call := matchAs.Rhs[0].(*ast.CallExpr)
			pid, _ := matchAs.Lhs[1].(*ast.Ident)
			fid, _ := matchAs.Lhs[2].(*ast.Ident)
			detail = "the matched function is not invoked with the matched params"
			if pid != nil && fid != nil && isField(info, call.Args[0], rwT, "mediatype") {
				n := 0
				ast.Inspect(fd.Body, func(x ast.Node) bool {
					if ce, isCE := x.(*ast.CallExpr); isCE {
						if id, isId := ce.Fun.(*ast.Ident); isId && info.Uses[id] == info.Defs[fid] {
							n++
							if len(ce.Args) == 4 {
								if aid, isA := ce.Args[3].(*ast.Ident); isA && info.Uses[aid] == info.Defs[pid] && isField(info, ce.Args[1], rwT, "ResponseWriter") {
									ok = true
								}
							}
						}
					}
					return true
				})
				if n != 1 {
					ok = false
				}
			}
		}
		c.R.Check(ok, rule, "minify.responseWriter.Write/match", c.pos(fd), "minifier(w.m, w.ResponseWriter, pr, params) from the same Match", detail)
	}
}

// R12.4
func (c *Ctx) r124(pk *packages.Package) {
	const rule = "R12.4"
	c.R.Rule(rule, "in every method of responseWriter, each point that lets output reach the wrapped http.ResponseWriter with a changed body — a call of its WriteHeader, and the start of the minifying goroutine that is given w.ResponseWriter as its writer — is preceded on every path by w.ResponseWriter.Header().Del(\"Content-Length\") (the pass-through branch, which forwards the body unchanged, is exempt)")
	info := pk.TypesInfo
	sites := 0
	for _, fd := range load.FuncDecls(pk) {
		if load.RecvName(fd) != "responseWriter" {
			continue
		}
		g := c.graph(pk, fd)
		isDel := func(y *flow.Node) bool {
			a := y.Ast()
			if a == nil || y.Kind == flow.KSelect {
				return false
			}
			for _, call := range findCalls(info, a, false, "net/http.(Header).Del") {
				if v, err := c.Ev.Expr(pk, call.Args[0]); err == nil && strings.EqualFold(fmt.Sprint(v), "Content-Length") {
					// on the wrapped writer's header
					if hc, ok := ast.Unparen(call.Fun.(*ast.SelectorExpr).X).(*ast.CallExpr); ok {
						if sel, ok := hc.Fun.(*ast.SelectorExpr); ok && sel.Sel.Name == "Header" && isField(info, sel.X, rwT, "ResponseWriter") {
							return true
						}
					}
				}
			}
			return false
		}
		for _, n := range g.Nodes {
			a := n.Ast()
			if a == nil || n.Kind != flow.KStmt {
				continue
			}
			what := ""
			flowInspectCalls(a, func(call *ast.CallExpr) {
				if sel, ok := call.Fun.(*ast.SelectorExpr); ok && sel.Sel.Name == "WriteHeader" && isField(info, sel.X, rwT, "ResponseWriter") {
					what = "WriteHeader"
				}
			})
			if gs, ok := n.Stmt.(*ast.GoStmt); ok {
				if lit, ok := gs.Call.Fun.(*ast.FuncLit); ok {
					if flow.Contains(lit.Body, func(x ast.Node) bool {
						e, ok := x.(ast.Expr)
						return ok && isField(info, e, rwT, "ResponseWriter")
					}) {
						what = "minifying goroutine"
					}
				}
			}
			if what == "" {
				continue
			}
			sites++
			construct := "minify." + load.FuncName(fd) + "/" + what
			p := g.MustPassBefore(n, isDel, flow.Search{})
			c.R.Check(p == nil, rule, construct, c.pos(a), "Content-Length deleted before", "the minified (shorter) body is sent while a Content-Length set by the handler is still in the header: clients truncate or hang: "+pathStr(c, g, p))
		}
	}
	c.R.Floor(rule, "output hand-over points", sites, 2)
}

// R12.5
func (c *Ctx) r125(pk *packages.Package) {
	const rule = "R12.5"
	c.R.Rule(rule, "M.ResponseWriter initialises responseWriter.mediatype from mime.TypeByExtension(path.Ext(P)) where P is the path component of the request — r.URL.Path / r.URL.EscapedPath(), or a string taken from r.RequestURI and cut at the first `?` (RequestURI carries the query: `/index.html?v=1` has no extension `.html?v=1`, and `/page?file=a.css` is not a style sheet); in responseWriter.Write a non-empty Content-Type header of the wrapped writer is stored into w.mediatype on every path before M.Match(w.mediatype); M.Middleware and M.MiddlewareWithError call mw.Close() after next.ServeHTTP on every path")
	info := pk.TypesInfo
	if fd := c.fn(rule, pk, "M.ResponseWriter"); fd != nil {
		ok, why := false, "the response writer's initial media type is not mime.TypeByExtension(path.Ext(…))"
		// the composite literal's mediatype field value flows from mime.TypeByExtension(path.Ext(<request path>))
		ast.Inspect(fd.Body, func(x ast.Node) bool {
			cl, isCL := x.(*ast.CompositeLit)
			if !isCL || namedTypeName(info.TypeOf(cl)) != rwT {
				return true
			}
			st := deref(info.TypeOf(cl)).Underlying().(*types.Struct)
			for i, el := range cl.Elts {
				var val ast.Expr
				if kv, isKV := el.(*ast.KeyValueExpr); isKV {
					if str(kv.Key) == "mediatype" {
						val = kv.Value
					}
				} else if i < st.NumFields() && st.Field(i).Name() == "mediatype" {
					val = el
				}
				if val == nil {
					continue
				}
				if id, isId := ast.Unparen(val).(*ast.Ident); isId {
					if d := c.singleDef(pk, id); d != nil {
						val = d
					}
				}
				if call := isCall(info, ast.Unparen(val), "mime.TypeByExtension"); call != nil {
					if ext := isCall(info, ast.Unparen(call.Args[0]), "path.Ext"); ext != nil {
						ok, why = c.isRequestPath(pk, fd, ext.Args[0])
					}
				}
			}
			return true
		})
		c.R.Check(ok, rule, "minify.M.ResponseWriter/extension fallback", c.pos(fd), "mediatype = TypeByExtension(Ext(request path))", why)
	}
	if fd := c.fn(rule, pk, "responseWriter.Write"); fd != nil {
		g := c.graph(pk, fd)
		var matchN *flow.Node
		for _, n := range g.Nodes {
			if a := n.Ast(); a != nil && n.Kind == flow.KStmt && len(findCalls(info, a, false, load.Mod+".(M).Match")) > 0 {
				matchN = n
			}
		}
		construct := "minify.responseWriter.Write/Content-Type"
		if matchN == nil {
			c.R.Unres(rule, construct, c.pos(fd), "call of M.Match not found")
		} else {
			// header read: v := Header().Get("Content-Type"); if v != "" { w.mediatype = v }
			var getN *flow.Node
			var getVar types.Object
			for _, n := range g.Nodes {
				if n.Kind != flow.KStmt || n.Ast() == nil {
					continue
				}
				for _, call := range findCalls(info, n.Ast(), false, "net/http.(Header).Get") {
					if v, err := c.Ev.Expr(pk, call.Args[0]); err == nil && strings.EqualFold(fmt.Sprint(v), "Content-Type") {
						if as, ok := n.Stmt.(*ast.AssignStmt); ok && len(as.Lhs) == 1 {
							if id, ok := as.Lhs[0].(*ast.Ident); ok {
								getN, getVar = n, info.Defs[id]
							}
						}
					}
				}
			}
			ok := false
			if getN != nil && getVar != nil && g.Dominates(getN, matchN) {
				// on the non-empty outcome every path to Match stores it
				for _, y := range g.Nodes {
					if y.Kind != flow.KTrue && y.Kind != flow.KFalse || y.Of.Kind != flow.KCond {
						continue
					}
					s := str(y.Of.Expr)
					nonEmpty := (s == c.P.NameOf(getVar)+` != ""` && y.Kind == flow.KTrue) || (s == c.P.NameOf(getVar)+` == ""` && y.Kind == flow.KFalse)
					if !nonEmpty {
						continue
					}
					store := func(z *flow.Node) bool {
						rhs, isSt := assignsTo(z, func(l ast.Expr) bool { return isField(info, l, rwT, "mediatype") })
						if !isSt {
							return false
						}
						id, isId := ast.Unparen(rhs).(*ast.Ident)
						return isId && info.Uses[id] == getVar
					}
					if g.Path(flow.Search{From: []*flow.Node{y}, Goal: func(z *flow.Node) bool { return z == matchN }, Avoid: store}) == nil {
						ok = true
					}
				}
			}
			c.R.Check(ok, rule, construct, c.pos(matchN.Ast()), "non-empty Content-Type overrides the extension before Match", "the minifier is matched without letting a non-empty Content-Type header override the request-path guess")
		}
	}
	for _, name := range []string{"M.Middleware", "M.MiddlewareWithError"} {
		fd := c.fn(rule, pk, name)
		if fd == nil {
			continue
		}
		ok := false
		ast.Inspect(fd.Body, func(x ast.Node) bool {
			lit, isLit := x.(*ast.FuncLit)
			if !isLit {
				return true
			}
			lg := c.graph(pk, lit)
			var serve *flow.Node
			for _, n := range lg.Nodes {
				if a := n.Ast(); a != nil && n.Kind == flow.KStmt && len(findCalls(info, a, false, "net/http.(Handler).ServeHTTP")) > 0 {
					serve = n
				}
			}
			if serve == nil {
				return true
			}
			closes := func(y *flow.Node) bool {
				a := y.Ast()
				return a != nil && y.Kind == flow.KStmt && len(findCalls(info, a, false, load.Mod+".(responseWriter).Close")) > 0
			}
			if lg.MustPassAfter(serve, closes, flow.Search{}) == nil {
				// ServeHTTP is handed the wrapper, not the raw writer
				call := findCalls(info, serve.Ast(), false, "net/http.(Handler).ServeHTTP")[0]
				if namedTypeName(info.TypeOf(call.Args[0])) == rwT {
					ok = true
				}
			}
			return true
		})
		c.R.Check(ok, rule, "minify."+name, c.pos(fd), "handler runs on the wrapper, Close follows on every path", "the middleware does not close the minifying writer after the handler on every path (output is lost / goroutine leaks), or bypasses the wrapper")
	}
}

// isRequestPath: does e denote the path component of an *http.Request?
func (c *Ctx) isRequestPath(pk *packages.Package, fd *ast.FuncDecl, e ast.Expr) (bool, string) {
	info := pk.TypesInfo
	e = ast.Unparen(e)
	if sel, ok := e.(*ast.SelectorExpr); ok && sel.Sel.Name == "Path" && isField(info, sel.X, "net/http.Request", "URL") {
		return true, ""
	}
	if call, ok := e.(*ast.CallExpr); ok && calleeName(info, call) == "net/url.(URL).EscapedPath" {
		return true, ""
	}
	if isField(info, e, "net/http.Request", "RequestURI") {
		return false, "the extension is taken from r.RequestURI, which includes the query string: `/index.html?v=1` yields no type and `/page?file=a.css` is treated as a style sheet"
	}
	id, ok := e.(*ast.Ident)
	if !ok {
		return false, "the argument of path.Ext (" + str(e) + ") is not recognisably the request path"
	}
	obj := info.Uses[id]
	fromURI, cut := false, false
	ast.Inspect(fd.Body, func(x ast.Node) bool {
		as, ok := x.(*ast.AssignStmt)
		if !ok {
			return true
		}
		for i, l := range as.Lhs {
			lid, isId := l.(*ast.Ident)
			if !isId || (info.Defs[lid] != obj && info.Uses[lid] != obj) {
				continue
			}
			if len(as.Rhs) == len(as.Lhs) {
				r := ast.Unparen(as.Rhs[i])
				if isField(info, r, "net/http.Request", "RequestURI") {
					fromURI = true
				}
				if ok2, _ := c.isRequestPath(pk, fd, r); ok2 && r != e {
					if _, isIdent := r.(*ast.Ident); !isIdent {
						fromURI, cut = true, true
					}
				}
				// v = v[:i] with i := strings.Index…(v, "?…")
				if sl, isSl := r.(*ast.SliceExpr); isSl && sl.Low == nil && sl.High != nil {
					if hid, isH := ast.Unparen(sl.High).(*ast.Ident); isH {
						if d := c.singleDef(pk, hid); d != nil {
							if ic, isC := ast.Unparen(d).(*ast.CallExpr); isC && strings.Contains(calleeName(info, ic), ".Index") && len(ic.Args) == 2 {
								if v, err := c.Ev.Expr(pk, ic.Args[1]); err == nil && strings.Contains(fmt.Sprint(v), "?") || strings.Contains(str(ic.Args[1]), "'?'") {
									cut = true
								}
							}
						}
					}
				}
			}
			// v, _, _ = strings.Cut(uri, "?")
			if len(as.Rhs) == 1 && i == 0 {
				if cc, isC := ast.Unparen(as.Rhs[0]).(*ast.CallExpr); isC && calleeName(info, cc) == "strings.Cut" && len(cc.Args) == 2 {
					if isField(info, cc.Args[0], "net/http.Request", "RequestURI") {
						if v, err := c.Ev.Expr(pk, cc.Args[1]); err == nil && fmt.Sprint(v) == "?" {
							fromURI, cut = true, true
						}
					}
				}
			}
		}
		return true
	})
	if fromURI && cut {
		return true, ""
	}
	if fromURI {
		return false, "the extension is taken from r.RequestURI without cutting the query string off: `/index.html?v=1` yields no type and `/page?file=a.css` is treated as a style sheet"
	}
	return false, "the argument of path.Ext (" + str(e) + ") is not recognisably the request path"
}

// R12.6: a wrapper that gathers writes keeps them in order.
func (c *Ctx) r126(pk *packages.Package) {
	const rule = "R12.6"
	c.R.Rule(rule, "root package: in every method Write(p []byte) of a struct type that gathers bytes in a []byte field F (the method appends p to the field) and also hands p straight to an underlying writer (a call X.Write(p) with the parameter as argument), that pass-through is reached only after the gathered bytes were written out — a call that passes F to an underlying Write, directly or through a method of the type that does — or on the outcome len(F) == 0. Otherwise a large chunk overtakes the small chunks written before it and the minifier reads the stream out of order. (No such type exists on the pinned tree: the wrappers hand every chunk to the pipe at once.)")
	info := pk.TypesInfo
	n := 0
	for _, fd := range load.FuncDecls(pk) {
		if fd.Body == nil || fd.Recv == nil || fd.Name.Name != "Write" || fd.Type.Params.NumFields() != 1 || len(fd.Recv.List[0].Names) != 1 {
			continue
		}
		recv := info.Defs[fd.Recv.List[0].Names[0]]
		var param types.Object
		if len(fd.Type.Params.List[0].Names) == 1 {
			param = info.Defs[fd.Type.Params.List[0].Names[0]]
		}
		if recv == nil || param == nil || !isByteSlice(param.Type()) {
			continue
		}
		isParam := func(e ast.Expr) bool {
			id, ok := ast.Unparen(e).(*ast.Ident)
			return ok && info.Uses[id] == param
		}
		// gathered field: z.F = append(z.F, p...)
		gathered := ""
		ast.Inspect(fd.Body, func(x ast.Node) bool {
			as, ok := x.(*ast.AssignStmt)
			if !ok || len(as.Lhs) != 1 || len(as.Rhs) != 1 {
				return true
			}
			call, isCall := ast.Unparen(as.Rhs[0]).(*ast.CallExpr)
			if !isCall || len(call.Args) != 2 {
				return true
			}
			if id, isId := call.Fun.(*ast.Ident); isId && id.Name == "append" && isParam(call.Args[1]) && str(call.Args[0]) == str(as.Lhs[0]) {
				if r := rootIdent(as.Lhs[0]); r != nil && info.Uses[r] == recv {
					gathered = str(as.Lhs[0])
				}
			}
			return true
		})
		if gathered == "" {
			continue
		}
		g := c.graph(pk, fd)
		// methods of the receiver type that write the gathered field out
		flushers := map[types.Object]bool{}
		for _, md := range load.FuncDecls(pk) {
			if md.Body == nil || md.Recv == nil || load.RecvName(md) != load.RecvName(fd) || len(md.Recv.List[0].Names) != 1 {
				continue
			}
			rn := md.Recv.List[0].Names[0].Name
			field := gathered[strings.Index(gathered, "."):]
			if flow.Contains(md.Body, func(q ast.Node) bool {
				call, ok := q.(*ast.CallExpr)
				if !ok || len(call.Args) != 1 {
					return false
				}
				sel, isSel := call.Fun.(*ast.SelectorExpr)
				return isSel && sel.Sel.Name == "Write" && str(call.Args[0]) == rn+field
			}) {
				flushers[info.Defs[md.Name]] = true
			}
		}
		flushed := func(y *flow.Node) bool {
			a := y.Ast()
			if a == nil {
				return false
			}
			if (y.Kind == flow.KTrue || y.Kind == flow.KFalse) && y.Of != nil && y.Of.Kind == flow.KCond {
				sx := nospace(str(y.Of.Expr))
				if sx == "len("+gathered+")==0" && y.Kind == flow.KTrue || sx == "len("+gathered+")!=0" && y.Kind == flow.KFalse || sx == "0<len("+gathered+")" && y.Kind == flow.KFalse {
					return true
				}
			}
			if y.Kind != flow.KStmt && y.Kind != flow.KCond {
				return false
			}
			hit := false
			flowInspectCalls(a, func(call *ast.CallExpr) {
				if flushers[callee(info, call)] {
					hit = true
				}
				if sel, ok := call.Fun.(*ast.SelectorExpr); ok && sel.Sel.Name == "Write" && len(call.Args) == 1 && str(call.Args[0]) == gathered {
					hit = true
				}
			})
			return hit
		}
		k := 0
		for _, y := range g.Nodes {
			a := y.Ast()
			if a == nil || y.Kind != flow.KStmt {
				continue
			}
			pass := false
			flowInspectCalls(a, func(call *ast.CallExpr) {
				if sel, ok := call.Fun.(*ast.SelectorExpr); ok && sel.Sel.Name == "Write" && len(call.Args) == 1 && isParam(call.Args[0]) {
					pass = true
				}
			})
			if !pass {
				continue
			}
			n++
			k++
			p := g.MustPassBefore(y, flushed, flow.Search{})
			c.R.Check(p == nil, rule, fmt.Sprintf("minify.%s/pass-through #%d after the gathered bytes", load.FuncName(fd), k), c.pos(a), "the gathered bytes are written out first", "the chunk is handed to the underlying writer while earlier chunks are still held in "+gathered+": the stream reaches the minifier out of order: "+pathStr(c, g, p))
		}
	}
	c.R.Exists(rule, "gathering Write methods in the root package", "-", fmt.Sprintf("%d pass-through site(s) examined", n))
}

// R12.7: which minifier a response gets does not depend on how the body is chunked.
func (c *Ctx) r127(pk *packages.Package) {
	const rule = "R12.7"
	c.R.Rule(rule, "responseWriter.Write chooses the minifier at the first call; the choice is a function of the headers and the request path only. No value stored into w.mediatype, and no argument of the M.Match call, depends on the chunk parameter of Write (through calls, slicing or locals): otherwise `Write(\"\")` followed by the document, or a first chunk that ends inside a signature, selects a different minifier than one Write of the whole body (content sniffing with http.DetectContentType on the first chunk)")
	info := pk.TypesInfo
	fd := c.fn(rule, pk, "responseWriter.Write")
	if fd == nil {
		return
	}
	var param types.Object
	if len(fd.Type.Params.List) == 1 && len(fd.Type.Params.List[0].Names) == 1 {
		param = info.Defs[fd.Type.Params.List[0].Names[0]]
	}
	if param == nil {
		c.R.Unres(rule, "minify.responseWriter.Write/chunk parameter", c.pos(fd), "parameter not found")
		return
	}
	// locals tainted by the chunk (fixpoint over := / = assignments)
	tainted := map[types.Object]bool{param: true}
	mentions := func(e ast.Node) bool {
		return flow.Contains(e, func(q ast.Node) bool {
			id, ok := q.(*ast.Ident)
			return ok && tainted[info.Uses[id]]
		})
	}
	for changed := true; changed; {
		changed = false
		ast.Inspect(fd.Body, func(x ast.Node) bool {
			as, ok := x.(*ast.AssignStmt)
			if !ok {
				return true
			}
			for i, l := range as.Lhs {
				id, isId := l.(*ast.Ident)
				if !isId {
					continue
				}
				o := info.Defs[id]
				if o == nil {
					o = info.Uses[id]
				}
				if o == nil || tainted[o] {
					continue
				}
				rhs := as.Rhs[0]
				if len(as.Rhs) == len(as.Lhs) {
					rhs = as.Rhs[i]
				}
				if mentions(rhs) {
					tainted[o] = true
					changed = true
				}
			}
			return true
		})
	}
	var bad []string
	n := 0
	ast.Inspect(fd.Body, func(x ast.Node) bool {
		switch e := x.(type) {
		case *ast.AssignStmt:
			for i, l := range e.Lhs {
				if isField(info, l, rwT, "mediatype") {
					n++
					rhs := e.Rhs[0]
					if len(e.Rhs) == len(e.Lhs) {
						rhs = e.Rhs[i]
					}
					if mentions(rhs) {
						bad = append(bad, "w.mediatype = "+str(rhs)+" at "+c.pos(e))
					}
				}
			}
		case *ast.CallExpr:
			if calleeName(info, e) == load.Mod+".(M).Match" {
				n++
				for _, a := range e.Args {
					if mentions(a) {
						bad = append(bad, "Match("+str(a)+") at "+c.pos(e))
					}
				}
			}
		}
		return true
	})
	c.R.Check(len(bad) == 0 && n > 0, rule, "minify.responseWriter.Write/minifier choice independent of the chunk", c.pos(fd), fmt.Sprintf("%d site(s), none derived from the chunk", n), "the media type used to choose the minifier is derived from the first chunk of the body ("+strings.Join(bad, "; ")+"): the same body written in other pieces gets another minifier")
}

// R12.9: the goroutine releases Close only when it has nothing left to do.
func (c *Ctx) r129(pk *packages.Package) {
	const rule = "R12.9"
	c.R.Rule(rule, "Close of the writer returned by M.Writer (and of the middleware's writer) waits on a sync.WaitGroup that the minifying goroutine releases; what Close promises — the output delivered to the destination, the minifier's error stored — has to be complete at that moment. In every `go func(){…}()` of the root package that calls (*sync.WaitGroup).Done, the call is deferred, and no defer statement registered in front of it touches what the goroutine delivers to — a variable that occurs in a writer argument of its calls — or stores the error (deferred calls run last in, first out: a buffered writer's Flush registered earlier would run after Close has been let go)")
	info := pk.TypesInfo
	n := 0
	for _, fd := range load.FuncDecls(pk) {
		if fd.Body == nil {
			continue
		}
		k := 0
		ast.Inspect(fd.Body, func(x ast.Node) bool {
			gs, ok := x.(*ast.GoStmt)
			if !ok {
				return true
			}
			lit, ok := gs.Call.Fun.(*ast.FuncLit)
			if !ok {
				return true
			}
			isDone := func(call *ast.CallExpr) bool {
				return calleeName(info, call) == "(*sync.WaitGroup).Done" || calleeName(info, call) == "sync.(WaitGroup).Done" || strings.HasSuffix(calleeName(info, call), "WaitGroup).Done")
			}
			hasDone := false
			ast.Inspect(lit.Body, func(z ast.Node) bool {
				if ce, ok := z.(*ast.CallExpr); ok && isDone(ce) {
					hasDone = true
				}
				return true
			})
			if !hasDone {
				return true
			}
			n++
			k++
			// what the goroutine delivers to: the writer arguments of its calls, and what they are built from
			dest := map[types.Object]bool{}
			ioWriter, _ := c.P.All["io"].Types.Scope().Lookup("Writer").Type().Underlying().(*types.Interface)
			ast.Inspect(lit.Body, func(z ast.Node) bool {
				ce, ok := z.(*ast.CallExpr)
				if !ok {
					return true
				}
				for _, a := range ce.Args {
					t := info.TypeOf(a)
					if t == nil || ioWriter == nil || !types.Implements(t, ioWriter) {
						continue
					}
					ast.Inspect(a, func(q ast.Node) bool {
						if id, ok := q.(*ast.Ident); ok {
							if v, ok := info.Uses[id].(*types.Var); ok {
								dest[v] = true
							}
						}
						return true
					})
				}
				return true
			})
			touches := func(n ast.Node) bool {
				hit := false
				ast.Inspect(n, func(q ast.Node) bool {
					switch v := q.(type) {
					case *ast.Ident:
						if o, ok := info.Uses[v].(*types.Var); ok && dest[o] {
							hit = true
						}
					case *ast.AssignStmt:
						for _, l := range v.Lhs {
							if sel, ok := l.(*ast.SelectorExpr); ok && sel.Sel.Name == "err" {
								hit = true
							}
						}
					}
					return !hit
				})
				return hit
			}
			var before []string
			deferred := false
			for _, st := range lit.Body.List {
				ds, ok := st.(*ast.DeferStmt)
				if !ok {
					continue
				}
				if isDone(ds.Call) {
					deferred = true
					break
				}
				if touches(ds.Call) {
					before = append(before, c.pos(ds)+" "+str(ds.Call))
				}
			}
			key := fmt.Sprintf("minify.%s/goroutine#%d releases the wait group last", load.FuncName(fd), k)
			c.R.Check(deferred && len(before) == 0, rule, key, c.pos(gs), "Done is deferred and nothing registered in front of it touches the destination or the error",
				fmt.Sprintf("the wait group is released before the goroutine is finished (deferred in front of it: %s; Done deferred at the top level of the goroutine: %v): Close returns while output is still being written — with a buffered writer whose Flush is deferred first, `w.Close()` returns with nothing delivered", strings.Join(before, ", "), deferred))
			return true
		})
	}
	c.R.Floor(rule, "goroutines that release a wait group", n, 2)
}

// R12.10: what a Read returned is consumed before its error is acted on.
func (c *Ctx) r1210(pk *packages.Package) {
	const rule = "R12.10"
	c.R.Rule(rule, "io.Reader: `Callers should always process the n > 0 bytes returned before considering the error err` — a reader may deliver its last bytes together with io.EOF (an HTTP body of known length, a zip entry, iotest.DataErrReader). For every call `n, err := r.Read(buf)` of an io.Reader's Read in the root package, no path leads from the call to a return or a loop exit without passing a statement that uses n: a copy loop that tested the error first dropped the final piece of the stream, and the minifier behind M.Writer saw a truncated document")
	info := pk.TypesInfo
	n := 0
	for _, fd := range load.FuncDecls(pk) {
		if fd.Body == nil {
			continue
		}
		var g *flow.Graph
		ast.Inspect(fd.Body, func(z ast.Node) bool {
			as, ok := z.(*ast.AssignStmt)
			if !ok || len(as.Lhs) != 2 || len(as.Rhs) != 1 {
				return true
			}
			ce, ok := ast.Unparen(as.Rhs[0]).(*ast.CallExpr)
			if !ok {
				return true
			}
			sel, ok := ce.Fun.(*ast.SelectorExpr)
			if !ok || sel.Sel.Name != "Read" || len(ce.Args) != 1 {
				return true
			}
			if sig, ok := info.TypeOf(ce.Fun).(*types.Signature); !ok || sig.Results().Len() != 2 || !isIntType(sig.Results().At(0).Type()) {
				return true
			}
			nid, ok := as.Lhs[0].(*ast.Ident)
			if !ok || nid.Name == "_" {
				n++
				c.R.Bad(rule, fmt.Sprintf("minify.%s/Read#%d: the byte count is used before the error decides", load.FuncName(fd), n), c.pos(as), "the number of bytes a Read returned is discarded")
				return true
			}
			nobj := info.Defs[nid]
			if nobj == nil {
				nobj = info.Uses[nid]
			}
			n++
			if g == nil {
				g = c.graph(pk, fd)
			}
			y := g.NodeOf(as)
			if y == nil {
				c.R.Unres(rule, fmt.Sprintf("minify.%s/Read#%d", load.FuncName(fd), n), c.pos(as), "call not in the flow graph")
				return true
			}
			usesN := func(q *flow.Node) bool {
				if q == y {
					return false
				}
				a := q.Ast()
				if a == nil {
					return false
				}
				hit := false
				ast.Inspect(a, func(w ast.Node) bool {
					if id, ok := w.(*ast.Ident); ok && info.Uses[id] == nobj {
						hit = true
					}
					return !hit
				})
				return hit
			}
			p := g.Path(flow.Search{From: []*flow.Node{y}, Goal: func(q *flow.Node) bool {
				if q.Kind == flow.KExit {
					return true
				}
				return retStmt(q) != nil
			}, Avoid: usesN})
			c.R.Check(p == nil, rule, fmt.Sprintf("minify.%s/Read#%d: the byte count is used before the error decides", load.FuncName(fd), n), c.pos(as), "every path to a return passes a use of the count",
				"the function can return after a Read without having looked at the bytes it delivered: data that arrives together with io.EOF is dropped — "+pathStr(c, g, p))
			return true
		})
	}
	c.R.Exists(rule, "minify/calls of a reader's Read", "-", fmt.Sprintf("%d found", n))
}
