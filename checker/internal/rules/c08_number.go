package rules

import (
	"fmt"
	"go/ast"
	"go/token"
	"go/types"
	"golang.org/x/tools/go/packages"
	"strings"
	"verif/checker/internal/flow"

	"golang.org/x/tools/go/ssa"
)

func init() {
	mutant(&Mutant{Name: "c08-zeros-trimmed-to-nothing", Property: "C08", File: "common.go",
		Old: "\t// trim leading zeros but leave at least one digit\n\tfor start < end-1 && num[start] == '0' {\n\t\tstart++\n\t}\n\t// trim trailing zeros\n\ti := end - 1\n\tfor ; dot < i; i-- {\n\t\tif num[i] != '0' {\n\t\t\tend = i + 1\n\t\t\tbreak\n\t\t}\n\t}\n\tif i == dot {\n\t\tend = dot\n\t\tif start == end {\n\t\t\tnum[start] = '0'\n\t\t\treturn num[start : start+1]\n\t\t}\n\t} else if start == end-1 && num[start] == '0' {\n\t\treturn num[start:end]\n\t}\n\n\t// apply precision\n\tif 0 < prec && dot <= start+prec {", New: "\t// trim leading zeros\n\tfor start < dot && num[start] == '0' {\n\t\tstart++\n\t}\n\t// trim trailing zeros\n\ti := end - 1\n\tfor ; dot < i; i-- {\n\t\tif num[i] != '0' {\n\t\t\tend = i + 1\n\t\t\tbreak\n\t\t}\n\t}\n\tif i == dot {\n\t\tend = dot\n\t\tif start == end {\n\t\t\tnum[start] = '0'\n\t\t\treturn num[start : start+1]\n\t\t}\n\t} else if start == end-1 && num[start] == '0' {\n\t\treturn num[start:end]\n\t}\n\n\t// apply precision\n\tif 0 < prec && dot <= start+prec {",
		Rule: "R08.13", Construct: "minify.Decimal/leading zeros are skipped only while two bytes remain"})
	mutant(&Mutant{Name: "c08-copy-of-scan-cursor-read-after-rounding", Property: "C08", File: "common.go",
		Old: "\t\tprecEnd := start + prec\n\t\tif dot == start { // for numbers like .012\n\t\t\tdigit := start + 1\n\t\t\tfor digit < end && num[digit] == '0' {\n\t\t\t\tdigit++\n\t\t\t}\n\t\t\tprecEnd = digit + prec\n", New: "\t\tprecEnd := start + prec\n\t\tif dot == start { // for numbers like .012\n\t\t\tdigit := start + 1\n\t\t\tfor digit < end && num[digit] == '0' {\n\t\t\t\tdigit++\n\t\t\t}\n\t\t\tprecEnd = digit + prec\n\t\t\tfirstDigit = digit\n",
		Old2: "\tn := 0\n\tnormExp := 0\n\tif dot == start {\n\t\tfor i = dot + 1; i < end; i++ {\n\t\t\tif num[i] != '0' {\n\t\t\t\tn = end - i", New2: "\tn := 0\n\tnormExp := 0\n\tif dot == start {\n\t\ti = dot + 1\n\t\tif firstDigit != -1 {\n\t\t\ti = firstDigit\n\t\t}\n\t\tfor ; i < end; i++ {\n\t\t\tif num[i] != '0' {\n\t\t\t\tn = end - i",
		More: [][2]string{{"\t// apply precision\n\tif 0 < prec { //&&", "\t// apply precision\n\tfirstDigit := -1\n\tif 0 < prec { //&&"}},
		Rule: "R08.9", Construct: "copy firstDigit of scan cursor"})
	mutant(&Mutant{Name: "c08-rounding-guard-one-sided", Property: "C08", File: "common.go",
		Old: "if origExp < MinInt+len(num) || MaxInt-len(num) < origExp {", New: "if MaxInt-len(num) < origExp {",
		Rule: "R08.12", Construct: "excluded for MinInt"})
	register(&Property{
		ID:    "C08",
		Level: "other",
		Explain: "Value equality, rounding, `never longer` and panic-freedom of Number/Decimal need relational numeric reasoning over (start, dot, end, exponent) that is out of reach of the analyses available here and are NOT decided. Two clauses are shape and are decided on the SSA form: " +
			"(R08.1) Decimal never introduces an exponent — every constant byte it stores is '0', '1' or '-', its only non-constant stores are increments by one of a digit that was compared with '9', and it calls no other function (in particular not Number and no formatting routine); " +
			"(R08.5) the precision parameter is bounded before it is added to an index; (R08.4) an `end++` after the fraction was cut off (`end = dot`) is preceded by a store at the dot's position, so that no result ends in `.`; (R08.3) digits are moved inside the slice only by copy() or by an element-wise loop that walks against the shift; " +
			"(R08.2) every write of Number and Decimal is an element store or copy() whose destination is the parameter slice itself or a low-bound-only reslice of it (bounds-checked by the language against len(num)); there is no append to it, no high-bounded reslice used as a write target and no unsafe, so a write outside the slice can only panic, never touch the caller's neighbouring bytes.",
		Run: runC08,
	})
	mutant(&Mutant{Name: "c08-shorter-part-judged-from-index-zero", Property: "C08", File: "common.go",
		Old: "\t\t\t} else if dot-start < end-dot-1 {\n\t\t\t\tcopy(num[start+1:], num[start:dot])", New: "\t\t\t} else if dot < end-dot-1 {\n\t\t\t\tcopy(num[start+1:], num[start:dot])",
		Rule: "R08.11", Construct: "relates like with like"})
	mutant(&Mutant{Name: "c08-decimal-writes-exponent", Property: "C08", File: "common.go",
		Old: "\tif neg {\n\t\tstart--\n\t\tnum[start] = '-'\n\t}\n\treturn num[start:end]\n}\n\n// Number minifies", New: "\tif neg {\n\t\tstart--\n\t\tnum[start] = '-'\n\t}\n\tif 3 < end-start && num[end-1] == '0' && num[end-2] == '0' && num[end-3] == '0' && dot == end {\n\t\tnum[end-3] = 'e'\n\t\tnum[end-2] = '3'\n\t\tend--\n\t}\n\treturn num[start:end]\n}\n\n// Number minifies",
		Rule: "R08.1", Construct: "Decimal"})
	mutant(&Mutant{Name: "c08-decimal-calls-number", Property: "C08", File: "common.go",
		Old: "func Decimal(num []byte, prec int) []byte {\n\tif len(num) <= 1 {\n\t\treturn num\n\t} else if", New: "func Decimal(num []byte, prec int) []byte {\n\tif prec < 0 {\n\t\treturn Number(num, 0)\n\t}\n\tif len(num) <= 1 {\n\t\treturn num\n\t} else if",
		Rule: "R08.1", Construct: "Decimal"})
	mutant(&Mutant{Name: "c08-number-writes-past-len", Property: "C08", File: "common.go",
		Old: "\tif neg {\n\t\tstart--\n\t\tnum[start] = '-'\n\t}\n\treturn num[start:end]\n}\n\nfunc UpdateErrorPosition", New: "\tif neg {\n\t\tstart--\n\t\tnum[start] = '-'\n\t}\n\tif end < cap(num) {\n\t\tnum[:cap(num)][end] = 0\n\t}\n\treturn num[start:end]\n}\n\nfunc UpdateErrorPosition",
		Rule: "R08.2", Construct: "Number"})
	mutant(&Mutant{Name: "c08-number-smearing-move", Property: "C08", File: "common.go",
		Old: "\t\t\t\tcopy(num[start+1:], num[start:dot])\n\t\t\t\tstart++\n", New: "\t\t\t\tfor i := start; i < dot; i++ {\n\t\t\t\t\tnum[i+1] = num[i]\n\t\t\t\t}\n\t\t\t\tstart++\n",
		Rule: "R08.3", Construct: "Number"})
	mutant(&Mutant{Name: "c08-decimal-carry-leaves-dot", Property: "C08", File: "common.go",
		Old: "\t\t\t\t\tnum[start] = '1'\n\t\t\t\t\tnum[end] = '0'\n\t\t\t\t\tend++\n", New: "\t\t\t\t\tnum[start] = '1'\n\t\t\t\t\tnum[start+1] = '0'\n\t\t\t\t\tend++\n",
		Rule: "R08.4", Construct: "Decimal/end++"})
	mutant(&Mutant{Name: "c08-precision-unbounded", Property: "C08", File: "common.go",
		Old: "func Number(num []byte, prec int) []byte {\n\tif len(num) <= 1 {\n\t\treturn num\n\t} else if len(num) <= prec {\n\t\tprec = 0 // more significant digits than characters: keep all, and keep start+prec from overflowing\n\t}\n", New: "func Number(num []byte, prec int) []byte {\n\tif len(num) <= 1 {\n\t\treturn num\n\t}\n",
		Rule: "R08.5", Construct: "Number/sum with prec"})
	mutant(&Mutant{Name: "c08-exponent-guard-reduced", Property: "C08", File: "common.go",
		Old: "if origExp < 0 && (normExp < MinInt-origExp || normExp-n < MinInt-origExp) || 0 < origExp && (MaxInt-origExp < normExp || MaxInt-origExp < normExp-n) {", New: "if origExp < 0 && normExp < MinInt-origExp || 0 < origExp && MaxInt-origExp < normExp {",
		Rule: "R08.6", Construct: "overflow guard"})
	mutant(&Mutant{Name: "c08-rounding-without-exponent-guard", Property: "C08", File: "common.go",
		Old: "\t\t\tif origExp < MinInt+len(num) || MaxInt-len(num) < origExp {\n\t\t\t\treturn num // exponent may overflow while rounding, and num is rounded in-place\n\t\t\t}\n", New: "",
		Rule: "R08.7", Construct: "exponent moved"})
	mutant(&Mutant{Name: "c08-decimal-rounds-on-the-dot", Property: "C08", File: "common.go",
		Old: "if 0 < prec && dot <= start+prec {", New: "if 0 < prec && dot <= start+prec+1 {",
		Rule: "R08.8", Construct: "Decimal/rounding byte"})
	mutant(&Mutant{Name: "c08-decimal-stale-first-digit", Property: "C08", File: "common.go",
		Old: "\t\tprecEnd := start + prec + 1 // include dot\n\t\tif dot == start {           // for numbers like .012\n\t\t\tdigit := start + 1\n", New: "\t\tprecEnd := start + prec + 1 // include dot\n\t\tdigit := start + 1\n\t\tif dot == start {           // for numbers like .012\n",
		Old2: "\t\t\tif inc {\n\t\t\t\tif dot == start && end == start+1 {", New2: "\t\t\tif inc {\n\t\t\t\tif dot == start && end == digit {",
		Rule: "R08.9", Construct: "Decimal/scan cursor"})
	mutant(&Mutant{Name: "c08-exponent-digits-assumed-in-place", Property: "C08", File: "common.go",
		Old: "\t\tfor i := end + lenNormExp - 1; end <= i; i-- {\n\t\t\tnum[i] = -byte(normExp%10) + '0'\n\t\t\tnormExp /= 10\n\t\t}\n", New: "\t\tif normExp != origExp {\n\t\t\tfor i := end + lenNormExp - 1; end <= i; i-- {\n\t\t\t\tnum[i] = -byte(normExp%10) + '0'\n\t\t\t\tnormExp /= 10\n\t\t\t}\n\t\t}\n",
		Rule: "R08.10", Construct: "after its digits were stored"})
	mutant(&Mutant{Name: "c08-number-appends", Property: "C08", File: "common.go",
		Old: "\t\treturn num // exponent overflow\n", New: "\t\treturn append(num[:start], '0') // exponent overflow\n",
		Rule: "R08.2", Construct: "Number"})
}

func runC08(c *Ctx) {
	const r1, r2, r3 = "R08.1", "R08.2", "R08.3"
	c.R.Rule(r3, "digits are relocated inside num either by copy() (overlap-safe by definition) or by an element-wise loop `s[i+k] = s[i]` whose induction variable moves against the shift (k > 0 needs a descending i, k < 0 an ascending i); a loop that shifts in the direction it walks overwrites its own source and smears the first digit over the range (`12.345e3` → `11345`)")
	c.R.Rule(r1, "SSA of minify.Decimal: every constant byte stored is one of '0' '1' '-'; every other stored byte is <loaded byte> + 1 where the same element was compared with '9' on a dominating branch; the function contains no call other than the builtin len")
	c.R.Rule(r2, "SSA of minify.Number and minify.Decimal: the address of every byte store, and the destination of every copy(), is derived from the parameter num only through element addressing and reslices without a high/max bound; no append whose first argument derives from num; no conversion through unsafe.Pointer")
	pk := c.pkg(r1, "")
	if pk == nil {
		return
	}
	c.r084(pk)
	c.r085(pk)
	c.r086(pk)
	c.r087(pk)
	c.r088(pk)
	c.r089(pk)
	c.r0810(pk)
	c.r0811(pk)
	c.r0812(pk)
	c.r0813(pk)
	c.r0814(pk)
	for _, name := range []string{"Decimal", "Number"} {
		fd := c.fn(r2, pk, name)
		if fd == nil {
			continue
		}
		fn := c.P.SSAFunc(pk, fd)
		if fn == nil {
			c.R.Unres(r2, "minify."+name, c.pos(fd), "SSA function missing")
			continue
		}
		if len(fn.Params) == 0 || !isByteSlice(fn.Params[0].Type()) {
			c.R.Unres(r2, "minify."+name, c.pos(fd), "first parameter is not a []byte")
			continue
		}
		num := fn.Params[0]
		var bad1, bad2 []string
		stores, copies := 0, 0
		for _, b := range fn.Blocks {
			for _, ins := range b.Instrs {
				switch x := ins.(type) {
				case *ssa.Store:
					ia, ok := x.Addr.(*ssa.IndexAddr)
					if !ok {
						if _, isAlloc := x.Addr.(*ssa.Alloc); isAlloc {
							continue
						}
						if isByte(deref(x.Addr.Type())) {
							bad2 = append(bad2, "byte store through "+x.Addr.String()+" at "+c.P.Pos(x.Pos()))
						}
						continue
					}
					if !isByte(deref(ia.Type())) {
						continue
					}
					stores++
					if why := lowBoundOnlyFrom(ia.X, num); why != "" {
						bad2 = append(bad2, fmt.Sprintf("store at %s: %s", c.P.Pos(x.Pos()), why))
					}
					if name == "Decimal" {
						switch v := x.Val.(type) {
						case *ssa.Const:
							ch := v.Int64()
							if ch != '0' && ch != '1' && ch != '-' {
								bad1 = append(bad1, fmt.Sprintf("stores the byte %q at %s (an exponent or other non-decimal character)", rune(ch), c.P.Pos(x.Pos())))
							}
						case *ssa.BinOp:
							okInc := false
							if v.Op == token.ADD {
								if k, isK := v.Y.(*ssa.Const); isK && k.Int64() == 1 {
									if ld, isLd := v.X.(*ssa.UnOp); isLd && ld.Op == token.MUL {
										if la, isIA := ld.X.(*ssa.IndexAddr); isIA && la.X == ia.X && la.Index == ia.Index {
											okInc = nineGuard(b, la)
										}
									}
								}
							}
							if !okInc {
								bad1 = append(bad1, "stores a computed byte that is not a guarded digit increment at "+c.P.Pos(x.Pos()))
							}
						default:
							bad1 = append(bad1, "stores a non-constant byte at "+c.P.Pos(x.Pos()))
						}
					}
				case ssa.CallInstruction:
					cc := x.Common()
					if bi, ok := cc.Value.(*ssa.Builtin); ok {
						switch bi.Name() {
						case "copy":
							copies++
							if why := lowBoundOnlyFrom(cc.Args[0], num); why != "" {
								bad2 = append(bad2, fmt.Sprintf("copy at %s: %s", c.P.Pos(ins.Pos()), why))
							}
							if name == "Decimal" {
								bad1 = append(bad1, "uses copy at "+c.P.Pos(ins.Pos()))
							}
						case "append":
							for _, bv := range basesOf(cc.Args[0]) {
								if bv == ssa.Value(num) {
									bad2 = append(bad2, "append to a slice of the parameter at "+c.P.Pos(ins.Pos())+": may write into the capacity beyond len(num), i.e. the caller's neighbouring bytes")
								}
							}
						case "len", "cap", "min", "max":
						default:
							if name == "Decimal" {
								bad1 = append(bad1, "calls builtin "+bi.Name())
							}
						}
						continue
					}
					if name == "Decimal" {
						callee := "dynamic call"
						if f := cc.StaticCallee(); f != nil {
							callee = fnName(f)
						}
						bad1 = append(bad1, "calls "+callee+" at "+c.P.Pos(ins.Pos())+" (Decimal must not delegate to an exponent-capable routine)")
					}
				case *ssa.Convert:
					if strings.Contains(x.Type().String(), "unsafe.Pointer") || strings.Contains(x.X.Type().String(), "unsafe.Pointer") {
						bad2 = append(bad2, "unsafe conversion at "+c.P.Pos(x.Pos()))
					}
				}
			}
		}
		c.R.Func("minify." + name)
		moves, smear := selfMoves(fn)
		var bad3 []string
		for _, m := range smear {
			bad3 = append(bad3, m+" at "+c.P.Pos(fn.Pos()))
		}
		c.R.Check(len(bad3) == 0, r3, "minify."+name+"/digits are moved overlap-safely", c.pos(fd), fmt.Sprintf("%d copy() moves (memmove semantics), %d element-wise loop moves in the safe direction", copies, moves), strings.Join(bad3, "; "))
		c.R.Check(len(bad2) == 0 && stores > 0, r2, "minify."+name+"/writes stay inside the parameter slice", c.pos(fd), fmt.Sprintf("%d element stores, %d copies, all into num / num[a:]", stores, copies), strings.Join(bad2, "; "))
		if name == "Decimal" {
			c.R.Check(len(bad1) == 0, r1, "minify.Decimal/no exponent introduced", c.pos(fd), fmt.Sprintf("%d stores: constants in {'0','1','-'} or guarded digit increments; no calls", stores), strings.Join(bad1, "; "))
		}
	}
}

// selfMoves finds stores s[i+c2] = s[i+c1] (same slice value, same index base) whose index base
// is a loop induction variable, and classifies them by direction. It returns the number of
// safe moves and a description of each self-overwriting one.
func selfMoves(fn *ssa.Function) (safe int, smear []string) {
	split := func(v ssa.Value) (ssa.Value, int64, bool) {
		if b, ok := v.(*ssa.BinOp); ok && (b.Op == token.ADD || b.Op == token.SUB) {
			if k, isK := b.Y.(*ssa.Const); isK && k.Value != nil {
				if b.Op == token.SUB {
					return b.X, -k.Int64(), true
				}
				return b.X, k.Int64(), true
			}
			if k, isK := b.X.(*ssa.Const); isK && k.Value != nil && b.Op == token.ADD {
				return b.Y, k.Int64(), true
			}
		}
		return v, 0, true
	}
	// direction of an induction variable: +1 ascending, -1 descending, 0 unknown / not a loop variable
	dir := func(v ssa.Value) int {
		phi, ok := v.(*ssa.Phi)
		if !ok {
			return 0
		}
		d := 0
		for _, e := range phi.Edges {
			base, k, _ := split(e)
			if base == ssa.Value(phi) && k != 0 {
				if k > 0 {
					if d < 0 {
						return 0
					}
					d = 1
				} else {
					if d > 0 {
						return 0
					}
					d = -1
				}
			}
		}
		return d
	}
	for _, b := range fn.Blocks {
		for _, ins := range b.Instrs {
			st, ok := ins.(*ssa.Store)
			if !ok {
				continue
			}
			dst, ok := st.Addr.(*ssa.IndexAddr)
			if !ok {
				continue
			}
			ld, ok := st.Val.(*ssa.UnOp)
			if !ok || ld.Op != token.MUL {
				continue
			}
			src, ok := ld.X.(*ssa.IndexAddr)
			if !ok || src.X != dst.X {
				continue
			}
			b1, c1, _ := split(src.Index)
			b2, c2, _ := split(dst.Index)
			if b1 != b2 || c1 == c2 {
				continue
			}
			d := dir(b1)
			if d == 0 {
				continue
			}
			k := c2 - c1
			if k > 0 && d > 0 || k < 0 && d < 0 {
				smear = append(smear, fmt.Sprintf("loop store %s[i%+d] = %s[i%+d] walks in the direction of the shift and overwrites its own source", dst.X.Name(), c2, src.X.Name(), c1))
			} else {
				safe++
			}
		}
	}
	return
}

// r084: once the fraction is cut off (end = dot) the dot's position is outside the result; an
// end++ afterwards re-admits that byte, which must have been overwritten with a digit.
func (c *Ctx) r084(pk *packages.Package) {
	const rule = "R08.4"
	c.R.Rule(rule, "in minify.Decimal and minify.Number: on every path from an assignment `end = dot` (the fraction and the dot are dropped) to a later `end++` with no other assignment to end or dot in between, a byte is stored at index `end` or `dot` — otherwise the result num[start:end] ends with the '.' that still sits at the dot's position: Decimal(`99.5`, 2) returns `10.`, which is neither a number of the grammar nor the value 100")
	info := pk.TypesInfo
	n := 0
	for _, name := range []string{"Decimal", "Number"} {
		fd := c.fn(rule, pk, name)
		if fd == nil {
			continue
		}
		g := c.graph(pk, fd)
		isEndAssign := func(y *flow.Node) (string, bool) {
			switch st := y.Stmt.(type) {
			case *ast.AssignStmt:
				if y.Kind == flow.KStmt && len(st.Lhs) == 1 && str(st.Lhs[0]) == "end" {
					if st.Tok == token.ASSIGN && len(st.Rhs) == 1 {
						return "=" + nospace(str(st.Rhs[0])), true
					}
					return st.Tok.String(), true
				}
			case *ast.IncDecStmt:
				if y.Kind == flow.KStmt && str(st.X) == "end" {
					return st.Tok.String(), true
				}
			}
			return "", false
		}
		storesAtDot := func(y *flow.Node) bool {
			as, ok := y.Stmt.(*ast.AssignStmt)
			if !ok || y.Kind != flow.KStmt {
				return false
			}
			for _, l := range as.Lhs {
				if ix, isIx := ast.Unparen(l).(*ast.IndexExpr); isIx && isByteSlice(info.TypeOf(ix.X)) {
					if k := nospace(str(ix.Index)); k == "end" || k == "dot" {
						return true
					}
				}
			}
			return false
		}
		for _, y := range g.Nodes {
			if how, ok := isEndAssign(y); !ok || how != "=dot" {
				continue
			}
			k := 0
			for _, z := range g.Nodes {
				how, ok := isEndAssign(z)
				if !ok || how != "++" {
					continue // `end += d` belongs to the re-layout of Number, which rewrites the region with copy()
				}
				n++
				k++
				p := g.Path(flow.Search{From: []*flow.Node{y}, Goal: func(q *flow.Node) bool { return q == z }, Avoid: func(q *flow.Node) bool {
					if q == z {
						return false
					}
					if _, isA := isEndAssign(q); isA {
						return true
					}
					// the dot is moved: `dot` no longer names the position of the '.' that was cut off
					if _, moved := assignsTo(q, func(l ast.Expr) bool { return str(l) == "dot" }); moved {
						return true
					}
					return storesAtDot(q)
				}})
				c.R.Check(p == nil, rule, fmt.Sprintf("minify.%s/end++ #%d after `end = dot`", name, k), c.pos(z.Stmt), "the dot's byte is overwritten first, or the growth is not reachable from there", "after `end = dot` the slice is extended again without a store at index end / dot: the result ends with the '.' left at that position (Decimal(`99.5`, 2) → `10.`): "+pathStr(c, g, p))
			}
		}
	}
	c.R.Floor(rule, "(end = dot, end++) pairs", n, 1)
}

// r085: the caller-chosen precision is bounded before it enters index arithmetic.
func (c *Ctx) r085(pk *packages.Package) {
	const rule = "R08.5"
	c.R.Rule(rule, "minify.Number and minify.Decimal: every addition that has the int parameter prec as an operand (start + prec, digit + prec: the results are compared with and used as indices) is reached only after prec was bounded from above — through an outcome of a comparison that puts prec below another quantity, or an assignment of a constant to prec: an unbounded precision (math.MaxInt as css/svg Precision option) overflows the sum to a negative index and the helper panics")
	info := pk.TypesInfo
	n := 0
	for _, name := range []string{"Decimal", "Number"} {
		fd := c.fn(rule, pk, name)
		if fd == nil {
			continue
		}
		var precObj types.Object
		for _, f := range fd.Type.Params.List {
			for _, nm := range f.Names {
				if nm.Name == "prec" {
					precObj = info.Defs[nm]
				}
			}
		}
		if precObj == nil {
			c.R.Unres(rule, "minify."+name+"/prec", c.pos(fd), "parameter prec not found")
			continue
		}
		isPrec := func(e ast.Expr) bool {
			id, ok := ast.Unparen(e).(*ast.Ident)
			return ok && info.Uses[id] == precObj
		}
		g := c.graph(pk, fd)
		bounds := func(q *flow.Node) bool {
			if q.Kind == flow.KStmt {
				if rhs, ok := assignsTo(q, isPrec); ok {
					if _, isK := intConst(info, rhs); isK {
						return true
					}
				}
				return false
			}
			if (q.Kind != flow.KTrue && q.Kind != flow.KFalse) || q.Of == nil || q.Of.Kind != flow.KCond {
				return false
			}
			b, ok := ast.Unparen(q.Of.Expr).(*ast.BinaryExpr)
			if !ok {
				return false
			}
			op := b.Op
			if q.Kind == flow.KFalse {
				switch op {
				case token.LSS:
					op = token.GEQ
				case token.LEQ:
					op = token.GTR
				case token.GTR:
					op = token.LEQ
				case token.GEQ:
					op = token.LSS
				default:
					return false
				}
			}
			// prec < E, prec <= E, E > prec, E >= prec with E not a constant ≤ 0 … any upper bound by a program quantity
			switch {
			case isPrec(b.X) && (op == token.LSS || op == token.LEQ):
				return true
			case isPrec(b.Y) && (op == token.GTR || op == token.GEQ):
				return true
			}
			return false
		}
		k := 0
		for _, y := range g.Nodes {
			var root ast.Node
			switch y.Kind {
			case flow.KStmt:
				root = y.Ast()
			case flow.KCond:
				root = y.Expr
			}
			if root == nil {
				continue
			}
			uses := false
			ast.Inspect(root, func(x ast.Node) bool {
				if be, ok := x.(*ast.BinaryExpr); ok && be.Op == token.ADD && (isPrec(be.X) || isPrec(be.Y)) {
					uses = true
				}
				return true
			})
			if !uses {
				continue
			}
			n++
			k++
			p := g.Path(flow.Search{From: []*flow.Node{g.Entry}, Goal: func(q *flow.Node) bool { return q == y }, Avoid: bounds})
			c.R.Check(p == nil, rule, fmt.Sprintf("minify.%s/sum with prec #%d", name, k), c.pos(root), "prec is bounded on every path to the sum", "prec enters "+str0(root)+" without an upper bound: with prec = math.MaxInt the sum wraps around to a negative index")
		}
	}
	c.R.Floor(rule, "sums with prec", n, 3)
}

// r086: the overflow guard of an unbounded sum covers what is derived from the sum.
func (c *Ctx) r086(pk *packages.Package) {
	const rule = "R08.6"
	c.R.Rule(rule, "minify.Number adds the parsed exponent (as many digits as the input has) to the normalised exponent: `X += Y` on two non-constant ints. Such a sum is dominated by a guard that compares against MinInt / MaxInt, and the guard also covers every quantity derived from the sum afterwards by a further non-constant offset (`X - n`): for each later `X ± V` (V a variable) the guard contains a comparison over the same expression `X ± V`. A guard reduced to X alone lets `1.5e-9223372036854775808` wrap around and garbage bytes are written into the exponent")
	info := pk.TypesInfo
	fd := c.fn(rule, pk, "Number")
	if fd == nil {
		return
	}
	g := c.graph(pk, fd)
	isIntVar := func(e ast.Expr) (types.Object, bool) {
		id, ok := ast.Unparen(e).(*ast.Ident)
		if !ok {
			return nil, false
		}
		v, isVar := info.Uses[id].(*types.Var)
		if !isVar || !isIntType(v.Type()) {
			return nil, false
		}
		if tv, ok := info.Types[e]; ok && tv.Value != nil {
			return nil, false
		}
		return v, true
	}
	n := 0
	for _, y := range g.Nodes {
		as, ok := y.Stmt.(*ast.AssignStmt)
		if !ok || y.Kind != flow.KStmt || as.Tok != token.ADD_ASSIGN || len(as.Lhs) != 1 {
			continue
		}
		xo, okx := isIntVar(as.Lhs[0])
		_, oky := isIntVar(as.Rhs[0])
		if !okx || !oky {
			continue
		}
		// only sums whose right operand is parsed from digits (assigned `v*10 + …` somewhere)
		parsed := false
		ast.Inspect(fd.Body, func(q ast.Node) bool {
			a2, ok := q.(*ast.AssignStmt)
			if !ok || len(a2.Rhs) != 1 {
				return true
			}
			// Y = int(v) with v bound to the result of a Parse* call, or Y = Y*10 + digit
			if len(a2.Lhs) == 1 && str(a2.Lhs[0]) == str(as.Rhs[0]) {
				if strings.Contains(nospace(str(a2.Rhs[0])), str(as.Rhs[0])+"*10") {
					parsed = true
				}
				if conv, isC := ast.Unparen(a2.Rhs[0]).(*ast.CallExpr); isC && len(conv.Args) == 1 {
					if vid, isId := ast.Unparen(conv.Args[0]).(*ast.Ident); isId {
						ast.Inspect(fd.Body, func(q2 ast.Node) bool {
							if a3, ok := q2.(*ast.AssignStmt); ok && len(a3.Rhs) == 1 {
								for _, l := range a3.Lhs {
									if lid, ok := l.(*ast.Ident); ok && (info.Defs[lid] != nil && info.Defs[lid] == info.Uses[vid]) {
										if pc, isCall := ast.Unparen(a3.Rhs[0]).(*ast.CallExpr); isCall && strings.Contains(calleeName(info, pc), "Parse") {
											parsed = true
										}
									}
								}
							}
							return true
						})
					}
				}
			}
			return true
		})
		if !parsed {
			continue
		}
		n++
		X := str(as.Lhs[0])
		construct := fmt.Sprintf("minify.Number/overflow guard of %s += %s", X, str(as.Rhs[0]))
		// the guard: dominating conditions that mention MinInt / MaxInt
		guard := ""
		for _, f := range g.DomFacts(y) {
			if f.Test.Kind == flow.KCond && (strings.Contains(str(f.Test.Expr), "MinInt") || strings.Contains(str(f.Test.Expr), "MaxInt")) {
				guard += " " + nospace(str(f.Test.Expr))
			}
		}
		// the usual form: `if <overflow condition> { return … }` earlier in the same block (a compound
		// condition has no single dominating outcome)
		if blk, ok := c.P.Parent(as).(*ast.BlockStmt); ok {
			for _, st := range blk.List {
				if st == ast.Stmt(as) {
					break
				}
				if ifs, isIf := st.(*ast.IfStmt); isIf && ifs.Else == nil && len(ifs.Body.List) > 0 {
					if _, isRet := ifs.Body.List[len(ifs.Body.List)-1].(*ast.ReturnStmt); isRet && (strings.Contains(str(ifs.Cond), "MinInt") || strings.Contains(str(ifs.Cond), "MaxInt")) {
						guard += " " + nospace(str(ifs.Cond))
					}
				}
			}
		}
		if guard == "" {
			c.R.Bad(rule, construct, c.pos(as), "the sum is not preceded by a comparison against MinInt / MaxInt: a long exponent overflows it")
			continue
		}
		var missing []string
		for _, z := range g.Nodes {
			a := z.Ast()
			if a == nil || z == y || !g.Dominates(y, z) {
				continue
			}
			var root ast.Node = a
			if z.Kind == flow.KCond {
				root = z.Expr
			}
			ast.Inspect(root, func(q ast.Node) bool {
				be, ok := q.(*ast.BinaryExpr)
				if !ok || be.Op != token.SUB && be.Op != token.ADD {
					return true
				}
				lid, isId := ast.Unparen(be.X).(*ast.Ident)
				if !isId || info.Uses[lid] != xo {
					return true
				}
				if _, isVar := isIntVar(be.Y); !isVar {
					return true
				}
				key := nospace(str(be))
				if !strings.Contains(guard, key) {
					dup := false
					for _, m := range missing {
						if m == key {
							dup = true
						}
					}
					if !dup {
						missing = append(missing, key)
					}
				}
				return true
			})
		}
		c.R.Check(len(missing) == 0, rule, construct, c.pos(as), "guard covers the sum and its derived offsets", "after the sum the code forms "+strings.Join(missing, ", ")+", which the overflow guard does not bound: for an exponent near MinInt/MaxInt that difference wraps around")
	}
	c.R.Floor(rule, "sums with a parsed exponent", n, 1)
}

func isByte(t types.Type) bool {
	b, ok := t.Underlying().(*types.Basic)
	return ok && b.Kind() == types.Uint8
}

func isByteSlice(t types.Type) bool {
	s, ok := t.Underlying().(*types.Slice)
	return ok && isByte(s.Elem())
}

// lowBoundOnlyFrom: v must be the parameter or reached from it through Slice instructions without High/Max and φ.
func lowBoundOnlyFrom(v ssa.Value, num *ssa.Parameter) string {
	seen := map[ssa.Value]bool{}
	var walk func(v ssa.Value) string
	walk = func(v ssa.Value) string {
		if seen[v] {
			return ""
		}
		seen[v] = true
		switch x := v.(type) {
		case *ssa.Parameter:
			if x == num {
				return ""
			}
			return "destination is parameter " + x.Name() + ", not the number slice"
		case *ssa.Slice:
			if x.High != nil || x.Max != nil {
				return "destination is a reslice with an explicit high bound (" + x.String() + "): it can extend beyond len(num) up to cap(num)"
			}
			return walk(x.X)
		case *ssa.Phi:
			for _, e := range x.Edges {
				if w := walk(e); w != "" {
					return w
				}
			}
			return ""
		}
		return "destination " + v.Name() + " = " + v.String() + " is not derived from the parameter slice"
	}
	return walk(v)
}

// nineGuard: the block is dominated by a branch that compared the same element with '9' and took the "not 9" side.
func nineGuard(b *ssa.BasicBlock, la *ssa.IndexAddr) bool {
	for d := b; d != nil; d = d.Idom() {
		id := d.Idom()
		if id == nil {
			break
		}
		ifi, ok := id.Instrs[len(id.Instrs)-1].(*ssa.If)
		if !ok {
			continue
		}
		bo, ok := ifi.Cond.(*ssa.BinOp)
		if !ok || (bo.Op != token.NEQ && bo.Op != token.EQL) {
			continue
		}
		k, isK := bo.Y.(*ssa.Const)
		ld, isLd := bo.X.(*ssa.UnOp)
		if !isK || !isLd || k.Int64() != '9' || ld.Op != token.MUL {
			continue
		}
		ia, isIA := ld.X.(*ssa.IndexAddr)
		if !isIA || ia.X != la.X || ia.Index != la.Index {
			continue
		}
		side := 0
		if bo.Op == token.EQL {
			side = 1
		}
		if id.Succs[side].Dominates(b) {
			return true
		}
	}
	return false
}

// parsedInts returns the int variables of fd that receive a value parsed from the input's digits
// (`Y = int(v)` with v bound to the result of a Parse* call, or `Y = Y*10 + digit`).
func parsedInts(info *types.Info, fd *ast.FuncDecl) map[types.Object]bool {
	out := map[types.Object]bool{}
	fromParse := map[types.Object]bool{}
	ast.Inspect(fd.Body, func(q ast.Node) bool {
		if a, ok := q.(*ast.AssignStmt); ok && len(a.Rhs) == 1 {
			if pc, isCall := ast.Unparen(a.Rhs[0]).(*ast.CallExpr); isCall && strings.Contains(calleeName(info, pc), "Parse") {
				for _, l := range a.Lhs {
					if lid, ok := l.(*ast.Ident); ok {
						if o := info.ObjectOf(lid); o != nil {
							fromParse[o] = true
						}
					}
				}
			}
		}
		return true
	})
	ast.Inspect(fd.Body, func(q ast.Node) bool {
		a, ok := q.(*ast.AssignStmt)
		if !ok || len(a.Rhs) != 1 || len(a.Lhs) != 1 {
			return true
		}
		lid, ok := a.Lhs[0].(*ast.Ident)
		if !ok {
			return true
		}
		o := info.ObjectOf(lid)
		if o == nil || !isIntType(o.Type()) {
			return true
		}
		if strings.Contains(nospace(str(a.Rhs[0])), lid.Name+"*10") {
			out[o] = true
		}
		if conv, isC := ast.Unparen(a.Rhs[0]).(*ast.CallExpr); isC && len(conv.Args) == 1 {
			if vid, isId := ast.Unparen(conv.Args[0]).(*ast.Ident); isId && fromParse[info.ObjectOf(vid)] {
				out[o] = true
			}
		}
		return true
	})
	return out
}

// R08.7: the parsed exponent is moved, and digits are rewritten in place, only when the exponent is
// known to be away from the limits of int.
func (c *Ctx) r087(pk *packages.Package) {
	const rule = "R08.7"
	c.R.Rule(rule, "minify.Number holds the exponent of the input in an int (any value of the int range is accepted by the parser). (a) Every statement that moves that variable (`origExp += dot - precEnd`, `origExp++`) lies behind a guard — a dominating condition, or an earlier `if … { return … }` of an enclosing block — that compares the variable against MinInt / MaxInt; without it `9.99e9223372036854775807` with precision 1 wraps to `1e-9223372036854775808`. (b) The function gives up by returning its argument unchanged (`return num`); an in-place write from which such a return is still reachable lies behind the same kind of guard, otherwise the caller gets the original length with half-rounded digits (`1.96e9223372036854775807`, precision 2 → `2.96e…`)")
	info := pk.TypesInfo
	fd := c.fn(rule, pk, "Number")
	if fd == nil {
		return
	}
	g := c.graph(pk, fd)
	exps := parsedInts(info, fd)
	if len(exps) == 0 {
		c.R.Unres(rule, "minify.Number/parsed exponent", c.pos(fd), "no int variable receives a parsed value")
		return
	}
	var param types.Object
	if len(fd.Type.Params.List) > 0 && len(fd.Type.Params.List[0].Names) > 0 {
		param = info.Defs[fd.Type.Params.List[0].Names[0]]
	}
	mentions := func(e ast.Expr) (lim, ex bool) {
		ast.Inspect(e, func(q ast.Node) bool {
			if id, ok := q.(*ast.Ident); ok {
				if id.Name == "MinInt" || id.Name == "MaxInt" {
					lim = true
				}
				if exps[info.Uses[id]] {
					ex = true
				}
			}
			return true
		})
		return
	}
	guarded := func(y *flow.Node) bool {
		for _, f := range g.DomFacts(y) {
			if f.Test.Kind == flow.KCond {
				if l, e := mentions(f.Test.Expr); l && e {
					return true
				}
			}
		}
		var cur ast.Node = y.Ast()
		for cur != nil && cur != ast.Node(fd) {
			par := c.P.Parent(cur)
			if blk, ok := par.(*ast.BlockStmt); ok {
				for _, st := range blk.List {
					if st.Pos() >= cur.Pos() {
						break
					}
					if ifs, isIf := st.(*ast.IfStmt); isIf && ifs.Else == nil && len(ifs.Body.List) > 0 {
						if _, isRet := ifs.Body.List[len(ifs.Body.List)-1].(*ast.ReturnStmt); isRet {
							if l, e := mentions(ifs.Cond); l && e {
								return true
							}
						}
					}
				}
			}
			cur = par
		}
		return false
	}
	isGiveUp := func(n *flow.Node) bool {
		rs, ok := n.Stmt.(*ast.ReturnStmt)
		if !ok || n.Kind != flow.KStmt || len(rs.Results) != 1 {
			return false
		}
		id, ok := ast.Unparen(rs.Results[0]).(*ast.Ident)
		return ok && param != nil && info.Uses[id] == param
	}
	nMove, nWrite := 0, 0
	for _, y := range g.Nodes {
		if y.Kind != flow.KStmt {
			continue
		}
		// (a) moves of the exponent
		var target ast.Expr
		switch s := y.Stmt.(type) {
		case *ast.IncDecStmt:
			target = s.X
		case *ast.AssignStmt:
			if len(s.Lhs) == 1 && (s.Tok == token.ADD_ASSIGN || s.Tok == token.SUB_ASSIGN) {
				target = s.Lhs[0]
			} else if len(s.Lhs) == 1 && s.Tok == token.ASSIGN {
				if be, ok := ast.Unparen(s.Rhs[0]).(*ast.BinaryExpr); ok && (be.Op == token.ADD || be.Op == token.SUB) && str(be.X) == str(s.Lhs[0]) {
					target = s.Lhs[0]
				}
			}
		}
		if id, ok := target.(*ast.Ident); ok && exps[info.Uses[id]] {
			nMove++
			c.R.Check(guarded(y), rule, fmt.Sprintf("minify.Number/exponent moved %s#%d", stmtText(y.Stmt), nMove), c.pos(y.Stmt), "behind a MinInt / MaxInt guard",
				"the parsed exponent is changed without a preceding comparison against MinInt / MaxInt: an exponent at the limit wraps around and the result denotes a different number")
			continue
		}
		// (b) in-place writes
		isWrite := false
		switch s := y.Stmt.(type) {
		case *ast.IncDecStmt:
			if ix, ok := s.X.(*ast.IndexExpr); ok {
				if id, ok := ix.X.(*ast.Ident); ok && info.Uses[id] == param {
					isWrite = true
				}
			}
		case *ast.AssignStmt:
			for _, l := range s.Lhs {
				if ix, ok := l.(*ast.IndexExpr); ok {
					if id, ok := ix.X.(*ast.Ident); ok && info.Uses[id] == param {
						isWrite = true
					}
				}
			}
		case *ast.ExprStmt:
			if call, ok := s.X.(*ast.CallExpr); ok {
				if id, ok := call.Fun.(*ast.Ident); ok && id.Name == "copy" && len(call.Args) == 2 {
					isWrite = true
				}
			}
		}
		if !isWrite {
			continue
		}
		nWrite++
		path := g.Path(flow.Search{From: []*flow.Node{y}, Goal: isGiveUp})
		good := path == nil || guarded(y)
		at := ""
		if path != nil {
			at = c.pos(path[len(path)-1].Stmt)
		}
		c.R.Check(good, rule, fmt.Sprintf("minify.Number/in-place write %s#%d", stmtText(y.Stmt), nWrite), c.pos(y.Stmt), "no `return num` reachable afterwards, or behind a MinInt / MaxInt guard",
			"after this write the function can still give up with `return num` at "+at+" and no guard on the exponent precedes the write: the caller receives the input with partly rounded digits")
	}
	c.R.Floor(rule, "moves of the parsed exponent", nMove, 3)
	c.R.Floor(rule, "in-place writes", nWrite, 10)
}

func stmtText(s ast.Stmt) string {
	switch x := s.(type) {
	case *ast.IncDecStmt:
		return nospace(str(x.X)) + x.Tok.String()
	case *ast.AssignStmt:
		var l, r []string
		for _, e := range x.Lhs {
			l = append(l, nospace(str(e)))
		}
		for _, e := range x.Rhs {
			r = append(r, nospace(str(e)))
		}
		return strings.Join(l, ",") + x.Tok.String() + strings.Join(r, ",")
	case *ast.ExprStmt:
		return nospace(str(x.X))
	}
	return fmt.Sprintf("%T", s)
}
