// Package rules holds one file per property; each rule enumerates constructs from the
// loaded program and records obligations.
package rules

import (
	"bytes"
	"fmt"
	"go/ast"
	"go/printer"
	"go/token"
	"go/types"
	"sort"
	"strings"

	"golang.org/x/tools/go/packages"
	"golang.org/x/tools/go/types/typeutil"

	"verif/checker/internal/eval"
	"verif/checker/internal/flow"
	"verif/checker/internal/load"
	"verif/checker/internal/report"
)

type Ctx struct {
	P    *load.Program
	R    *report.Result
	Tier string
	Ev   *eval.Evaluator

	graphs map[ast.Node]*flow.Graph
}

type Property struct {
	ID      string
	Level   string
	Explain string
	Run     func(*Ctx)
	Trusted []string
}

var Registry = map[string]*Property{}

func register(p *Property) { Registry[p.ID] = p }

func IDs() []string {
	var out []string
	for k := range Registry {
		out = append(out, k)
	}
	sort.Strings(out)
	return out
}

func NewCtx(p *load.Program, r *report.Result, tier string) *Ctx {
	return &Ctx{P: p, R: r, Tier: tier, Ev: eval.New(p.All), graphs: map[ast.Node]*flow.Graph{}}
}

// ---------------------------------------------------------------------------
// helpers

func (c *Ctx) pos(n ast.Node) string {
	if n == nil {
		return "-"
	}
	return c.P.Pos(n.Pos())
}

// pkg returns a module package or records an unresolved anchor.
func (c *Ctx) pkg(rule, rel string) *packages.Package {
	pk := c.P.Pkg(rel)
	if pk == nil {
		c.R.Unres(rule, "package/"+rel, "-", "anchor package not loaded")
		return nil
	}
	c.R.Pkg(pk.PkgPath)
	return pk
}

// fn returns a function declaration or records an unresolved anchor.
func (c *Ctx) fn(rule string, pk *packages.Package, name string) *ast.FuncDecl {
	if pk == nil {
		return nil
	}
	fd := load.Func(pk, name)
	if fd == nil {
		c.R.Unres(rule, "func/"+pk.Name+"."+name, "-", "anchor function not found")
		return nil
	}
	c.R.Func(pk.Name + "." + name)
	return fd
}

// graph returns the (cached) flow graph of a function declaration or literal.
func (c *Ctx) graph(pk *packages.Package, f ast.Node) *flow.Graph {
	if g, ok := c.graphs[f]; ok {
		return g
	}
	var g *flow.Graph
	switch x := f.(type) {
	case *ast.FuncDecl:
		g = flow.Build(pk.Name+"."+load.FuncName(x), x.Body, pk.TypesInfo)
	case *ast.FuncLit:
		g = flow.Build(pk.Name+".funclit@"+c.pos(x), x.Body, pk.TypesInfo)
	}
	c.graphs[f] = g
	return g
}

func callee(info *types.Info, call *ast.CallExpr) types.Object {
	return typeutil.Callee(info, call)
}

// calleeName renders the resolved callee as "pkgpath.Func" or "pkgpath.(Recv).Method".
func calleeName(info *types.Info, call *ast.CallExpr) string {
	o := callee(info, call)
	if o == nil {
		return ""
	}
	return objName(o)
}

func objName(o types.Object) string {
	if f, ok := o.(*types.Func); ok {
		sig := f.Type().(*types.Signature)
		if r := sig.Recv(); r != nil {
			t := r.Type()
			if p, ok := t.(*types.Pointer); ok {
				t = p.Elem()
			}
			if n, ok := t.(*types.Named); ok {
				pkg := ""
				if n.Obj().Pkg() != nil {
					pkg = n.Obj().Pkg().Path() + "."
				}
				return pkg + "(" + n.Obj().Name() + ")." + f.Name()
			}
			return "(" + t.String() + ")." + f.Name()
		}
	}
	if o.Pkg() != nil {
		return o.Pkg().Path() + "." + o.Name()
	}
	return o.Name()
}

// isCall reports whether n is a call whose resolved callee has the given name
// (as rendered by calleeName), and returns the call.
func isCall(info *types.Info, n ast.Node, names ...string) *ast.CallExpr {
	call, ok := n.(*ast.CallExpr)
	if !ok {
		return nil
	}
	cn := calleeName(info, call)
	for _, nm := range names {
		if cn == nm {
			return call
		}
	}
	return nil
}

// findCalls returns calls inside root (not entering function literals unless enter)
// whose callee matches one of names.
func findCalls(info *types.Info, root ast.Node, enter bool, names ...string) []*ast.CallExpr {
	var out []*ast.CallExpr
	ast.Inspect(root, func(n ast.Node) bool {
		if n == nil {
			return false
		}
		if _, ok := n.(*ast.FuncLit); ok && !enter && n != root {
			return false
		}
		if call := isCall(info, n, names...); call != nil {
			out = append(out, call)
		}
		return true
	})
	return out
}

func str(e ast.Expr) string {
	if e == nil {
		return "<nil>"
	}
	return types.ExprString(e)
}

// selPath normalises &x.y, (x.y), x.y to "x.y".
func selPath(e ast.Expr) string {
	for {
		switch x := e.(type) {
		case *ast.ParenExpr:
			e = x.X
			continue
		case *ast.UnaryExpr:
			if x.Op == token.AND {
				e = x.X
				continue
			}
		case *ast.StarExpr:
			e = x.X
			continue
		}
		break
	}
	return types.ExprString(e)
}

// fieldOf resolves a selector expression to (named struct type "pkgpath.Type", field name).
func fieldOf(info *types.Info, e ast.Expr) (string, string) {
	sel, ok := ast.Unparen(e).(*ast.SelectorExpr)
	if !ok {
		return "", ""
	}
	s := info.Selections[sel]
	if s == nil || s.Kind() != types.FieldVal {
		return "", ""
	}
	v, ok := s.Obj().(*types.Var)
	if !ok {
		return "", ""
	}
	t := s.Recv()
	// walk embedded path to the struct that declares the field
	idx := s.Index()
	for i := 0; i < len(idx)-1; i++ {
		t = deref(t)
		st, ok := t.Underlying().(*types.Struct)
		if !ok {
			break
		}
		t = st.Field(idx[i]).Type()
	}
	t = deref(t)
	if n, ok := t.(*types.Named); ok {
		pkg := ""
		if n.Obj().Pkg() != nil {
			pkg = n.Obj().Pkg().Path() + "."
		}
		return pkg + n.Obj().Name(), v.Name()
	}
	return t.String(), v.Name()
}

func deref(t types.Type) types.Type {
	if p, ok := t.Underlying().(*types.Pointer); ok {
		return p.Elem()
	}
	return t
}

func isField(info *types.Info, e ast.Expr, typ, field string) bool {
	t, f := fieldOf(info, e)
	return t == typ && f == field
}

// usesObj reports whether the expression is an identifier (or qualified identifier)
// resolving to a package-level object with the given qualified name.
func usesObj(info *types.Info, e ast.Expr, qualified string) bool {
	var id *ast.Ident
	switch x := ast.Unparen(e).(type) {
	case *ast.Ident:
		id = x
	case *ast.SelectorExpr:
		id = x.Sel
	default:
		return false
	}
	o := info.Uses[id]
	if o == nil || o.Pkg() == nil {
		return false
	}
	return o.Pkg().Path()+"."+o.Name() == qualified
}

// mentionsObj reports whether root contains an identifier resolving to the qualified object.
func mentionsObj(info *types.Info, root ast.Node, qualified string) bool {
	return flow.Contains(root, func(n ast.Node) bool {
		if e, ok := n.(ast.Expr); ok {
			if _, isSel := e.(*ast.SelectorExpr); isSel {
				return usesObj(info, e, qualified)
			}
			if _, isId := e.(*ast.Ident); isId {
				return usesObj(info, e, qualified)
			}
		}
		return false
	})
}

// assignsTo returns the RHS when stmt assigns (=, :=) to an lvalue for which match holds.
func assignsTo(n *flow.Node, match func(ast.Expr) bool) (ast.Expr, bool) {
	if n.Kind != flow.KStmt {
		return nil, false
	}
	as, ok := n.Stmt.(*ast.AssignStmt)
	if !ok {
		return nil, false
	}
	for i, l := range as.Lhs {
		if match(l) {
			if len(as.Rhs) == len(as.Lhs) {
				return as.Rhs[i], true
			}
			return as.Rhs[0], true
		}
	}
	return nil, false
}

// src renders a syntax node as source text.
func (c *Ctx) src(n ast.Node) string {
	var buf bytes.Buffer
	if err := printer.Fprint(&buf, c.P.Fset, n); err != nil {
		return ""
	}
	return buf.String()
}

func pathStr(c *Ctx, g *flow.Graph, path []*flow.Node) string {
	return g.DescribePath(c.P.Fset, path)
}

func sortedKeys(m map[string]bool) []string {
	var out []string
	for k := range m {
		out = append(out, k)
	}
	sort.Strings(out)
	return out
}

func joinSorted(m map[string]bool) string { return strings.Join(sortedKeys(m), " ") }

func sprintf(f string, a ...interface{}) string { return fmt.Sprintf(f, a...) }

// namedTypeName renders the named type behind t (through one pointer) as "pkgpath.Name".
func namedTypeName(t types.Type) string {
	t = deref(t)
	if n, ok := t.(*types.Named); ok {
		if n.Obj().Pkg() != nil {
			return n.Obj().Pkg().Path() + "." + n.Obj().Name()
		}
		return n.Obj().Name()
	}
	return t.String()
}

// shortType strips the module prefix for display.
func shortType(s string) string {
	s = strings.ReplaceAll(s, load.ParseMod+"/", "parse/")
	s = strings.ReplaceAll(s, load.Mod+"/", "")
	s = strings.ReplaceAll(s, load.Mod, "minify")
	return s
}

// caseLabel names the innermost enclosing case clause of a (type) switch, e.g. "case *js.ForStmt",
// so that constructs inside large dispatch functions get stable, distinguishable keys.
func (c *Ctx) caseLabel(n ast.Node) string {
	for x := c.P.Parent(n); x != nil; x = c.P.Parent(x) {
		if cc, ok := x.(*ast.CaseClause); ok {
			if cc.List == nil {
				return "default"
			}
			var parts []string
			for _, e := range cc.List {
				parts = append(parts, str(e))
			}
			return "case " + strings.Join(parts, ",")
		}
		if _, ok := x.(*ast.FuncDecl); ok {
			break
		}
	}
	return ""
}

// alsoUnder runs part of another property's rules under the ids of the property being decided:
// alias maps original rule id -> id here; obligations of other rules, and constructs keep rejects, are dropped.
func (c *Ctx) alsoUnder(alias map[string]string, keep func(construct string) bool, run func()) {
	oldA, oldK := c.R.Alias, c.R.Keep
	c.R.Alias = alias
	c.R.Keep = func(rule, construct string) bool {
		if _, ok := alias[rule]; !ok {
			return false
		}
		return construct == "" || keep == nil || keep(construct)
	}
	defer func() { c.R.Alias, c.R.Keep = oldA, oldK }()
	run()
}
