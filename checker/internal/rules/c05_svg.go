package rules

import (
	"fmt"
	"go/ast"
	"go/token"
	"go/types"
	"sort"
	"strings"

	"golang.org/x/tools/go/packages"

	"verif/checker/internal/eval"
	"verif/checker/internal/flow"
	"verif/checker/internal/load"
	"verif/checker/internal/ref"
)

func init() {
	mutant(&Mutant{Name: "c05-element-context-outlives-collapsed-element", Property: "C05", File: "svg/svg.go",
		Old: "\t\t\t\ttag = 0 // the element has ended\n", New: "",
		Rule: "R05.23", Construct: "resets the element context"})
	mutant(&Mutant{Name: "c05-path-data-with-references-parsed", Property: "C05", File: "svg/svg.go",
		Old: " else if attr == D && bytes.IndexByte(val, '&') == -1 {", New: " else if attr == D {",
		Rule: "R05.22", Construct: "without character references"})
	register(&Property{
		ID:    "C05",
		Level: "other",
		Explain: "Path geometry is floating point and not decided. Structural clauses decided: (R05.7) start and end tags are renamed together; (R05.8) an exponent is written only into a plain integer; (R05.9) id/class/href values are not rewritten as numbers; (R05.10) a curve becomes a line only if a following smooth curve keeps its control point; (R05.5) the smooth-curve reflection state is cleared by every command of another family and by closepath; (R05.1) in the path-data emitter every path that writes bytes of a command into the destination also updates the `last emitted command` state used to elide the next command letter; " +
			"(R05.2) every way an attribute can be dropped in the SVG minifier is one of: already removed, a documented default value on the element that defines that default (the (attribute, value) pairs are evaluated and compared with the SVG defaults), or a namespace test that exempts the functional prefixes xlink and xml; " +
			"(R05.3) elements are dropped only under the enumerated guards (metadata, foreign-namespace element, empty defs). Not covered: numeric value preservation of lengths, colours, paths.",
		Run: runC05,
	})
	mutant(&Mutant{Name: "c05-z-keeps-state", Property: "C05", File: "svg/pathdata.go",
		Old: "\t\t\tp.state = PathDataState{cmd: 'z'} // the next command letter must be written\n", New: "",
		Rule: "R05.1", Construct: "copyInstruction"})
	mutant(&Mutant{Name: "c05-alt-buffer-without-state", Property: "C05", File: "svg/pathdata.go",
		Old: "\t\t\tj += copy(b[j:], p.altBuffer)\n\t\t\tp.state = altState\n", New: "\t\t\tj += copy(b[j:], p.altBuffer)\n\t\t\t_ = altState\n",
		Rule: "R05.1", Construct: "copyInstruction"})
	mutant(&Mutant{Name: "c05-drop-xlink", Property: "C05", File: "svg/svg.go",
		Old: "if prefix := t.Text[:colon]; !bytes.Equal(prefix, []byte(\"xlink\")) && !bytes.Equal(prefix, []byte(\"xml\")) && !bytes.Equal(t.Text, []byte(\"xmlns:xlink\")) {", New: "if prefix := t.Text[:colon]; !bytes.Equal(prefix, []byte(\"xml\")) {",
		Rule: "R05.2", Construct: "namespace skip"})
	mutant(&Mutant{Name: "c05-drop-width-100", Property: "C05", File: "svg/svg.go",
		Old: "\t\t\t\t\tattr == Y && bytes.Equal(val, zeroBytes) ||\n", New: "\t\t\t\t\tattr == Y && bytes.Equal(val, zeroBytes) ||\n\t\t\t\t\tattr == Width && bytes.Equal(val, zeroBytes) ||\n",
		Rule: "R05.2", Construct: "width=\"0\""})
	mutant(&Mutant{Name: "c05-text-entities-not-reescaped", Property: "C05", File: "svg/svg.go",
		Old: "t.Data = parse.ReplaceMultipleWhitespaceAndEntities(t.Data, minifyXML.EntitiesMap, minifyXML.TextRevEntitiesMap)", New: "t.Data = parse.ReplaceMultipleWhitespaceAndEntities(t.Data, minifyXML.EntitiesMap, nil)",
		Rule: "R05.4", Construct: "ReplaceMultipleWhitespaceAndEntities(t.Data)"})
	mutant(&Mutant{Name: "c05-quadratic-keeps-cubic-state", Property: "C05", File: "svg/pathdata.go",
		Old: "\t\t} else {\n\t\t\tp.cx, p.cy = math.NaN(), math.NaN()\n\t\t}\n\n\t\t// switch from Q to T whenever possible\n\t\tif cmd == 'Q'", New: "\t\t} else if cmd != 'Q' && cmd != 'q' {\n\t\t\tp.cx, p.cy = math.NaN(), math.NaN()\n\t\t}\n\n\t\t// switch from Q to T whenever possible\n\t\tif cmd == 'Q'",
		Rule: "R05.5", Construct: "p.cx cleared"})
	mutant(&Mutant{Name: "c05-closepath-keeps-control-point", Property: "C05", File: "svg/pathdata.go",
		Old: "\t\t\tp.qx, p.qy = math.NaN(), math.NaN()\n\t\t\tb[0] = 'z'\n", New: "\t\t\tb[0] = 'z'\n",
		Rule: "R05.5", Construct: "closepath clears p.qx"})
	mutant(&Mutant{Name: "c05-end-tag-keeps-svg-prefix", Property: "C05", File: "svg/svg.go",
		Old: "\t\t\tif colon := bytes.IndexByte(t.Text, ':'); colon != -1 && bytes.Equal(t.Text[:colon], svgStartTagBytes[1:]) {\n\t\t\t\t// the start tag was written without the svg: prefix\n\t\t\t\tt.Data = append(t.Data[:2], t.Data[2+colon+1:]...)\n\t\t\t}\n", New: "",
		Rule: "R05.7", Construct: "start tag rename"})
	mutant(&Mutant{Name: "c05-e2-for-every-number", Property: "C05", File: "svg/pathdata.go",
		Old: "\tif isInt && len(coord) > 2 && coord[len(coord)-2] == '0'", New: "\tif len(coord) > 2 && coord[len(coord)-2] == '0'",
		Rule: "R05.8", Construct: "exponent written"})
	mutant(&Mutant{Name: "c05-id-shortened-as-number", Property: "C05", File: "svg/svg.go",
		Old: "attr != Version && !isNameAttr(t.Text) {", New: "attr != Version {",
		Rule: "R05.9", Construct: "numeric rewrite"})
	mutant(&Mutant{Name: "c05-href-not-a-name", Property: "C05", File: "svg/svg.go",
		Old: "return bytes.Equal(name, idBytes) || bytes.Equal(name, classBytes) || bytes.Equal(name, hrefBytes) || bytes.HasSuffix(name, colonHrefBytes)", New: "return bytes.Equal(name, idBytes) || bytes.Equal(name, classBytes)",
		Rule: "R05.9", Construct: "numeric rewrite"})
	mutant(&Mutant{Name: "c05-lineto-compared-with-tolerance", Property: "C05", File: "svg/pathdata.go",
		Old: "\t\t\tif ax == p.x && ay == p.y {\n\t\t\t\tcontinue\n", New: "\t\t\tif math.Abs(ax-p.x) < 1e-5 && math.Abs(ay-p.y) < 1e-5 {\n\t\t\t\tcontinue\n",
		Rule: "R05.13", Construct: "coordinates compared exactly"})
	mutant(&Mutant{Name: "c05-skiptag-ends-at-pi-close", Property: "C05", File: "svg/svg.go",
		Old: "t.TokenType == xml.EndTagToken || t.TokenType == xml.StartTagCloseVoidToken {", New: "t.TokenType == xml.EndTagToken || t.TokenType == xml.StartTagCloseVoidToken || t.TokenType == xml.StartTagClosePIToken {",
		Rule: "R05.14", Construct: "skipTag/depth pairs"})
	mutant(&Mutant{Name: "c05-attribute-scratch-not-reset", Property: "C05", File: "svg/buffer.go",
		Old: "\t\tz.attrBuffer = z.attrBuffer[:len(hashes)]\n\t\tfor i := range z.attrBuffer {\n\t\t\tz.attrBuffer[i] = nil\n\t\t}\n", New: "\t\tz.attrBuffer = z.attrBuffer[:len(hashes)]\n",
		Rule: "R05.12", Construct: "reused z.attrBuffer is reset"})
	mutant(&Mutant{Name: "c05-coordinates-flushed-mid-command", Property: "C05", File: "svg/pathdata.go",
		Old: "\t\t} else if n := parse.Number(b[i:]); n > 0 {\n", New: "\t\t} else if n := parse.Number(b[i:]); n > 0 {\n\t\t\tif len(p.coords) == 840 {\n\t\t\t\tj += p.copyInstruction(b[j:], cmd)\n\t\t\t\tp.coords = p.coords[:0]\n\t\t\t\tp.coordFloats = p.coordFloats[:0]\n\t\t\t}\n",
		Rule: "R05.15", Construct: "at a command boundary"})
	mutant(&Mutant{Name: "c05-foreignobject-attributes-copied-raw", Property: "C05", File: "svg/svg.go",
		Old: "\t\t\tw.Write(xml.EscapeAttrVal(&attrByteBuffer, t.AttrVal))\n\t\t\ttb.Shift()\n\t\t\tcontinue\n", New: "\t\t\t_ = attrByteBuffer\n",
		Rule: "R05.16", Construct: "svg.printTag/raw write"})
	mutant(&Mutant{Name: "c05-peek-index-not-clamped", Property: "C05", File: "svg/buffer.go",
		Old: "\t\t\t\tbuf = buf[:i+1]\n\t\t\t\tpos = i\n", New: "\t\t\t\tbuf = buf[:i+1]\n",
		Rule: "R05.12", Construct: "index clamped"})
	mutant(&Mutant{Name: "c05-hex-last-pair-not-compared", Property: "C05", File: "svg/svg.go",
		Old: "} else if len(val) == 7 && val[1] == val[2] && val[3] == val[4] && val[5] == val[6] {", New: "} else if len(val) == 7 && val[1] == val[2] && val[3] == val[4] {",
		Rule: "R05.17", Construct: "val cut to 4 bytes"})
	mutant(&Mutant{Name: "c05-colour-lower-cased", Property: "C05", File: "svg/svg.go",
		Old: "\t\t\t\t//parse.ToLower(val)\n", New: "\t\t\t\tval = parse.ToLower(val)\n",
		Rule: "R05.18", Construct: "colour value changed by"})
	mutant(&Mutant{Name: "c05-style-text-whitespace-collapsed", Property: "C05", File: "svg/svg.go",
		Old: "\t\t\t\tif tag != Style {\n\t\t\t\t\tt.Text = parse.ReplaceMultipleWhitespace(t.Text)\n\t\t\t\t}\n", New: "\t\t\t\tt.Text = parse.ReplaceMultipleWhitespace(t.Text)\n",
		Rule: "R05.19", Construct: "not in a style element"})
	mutant(&Mutant{Name: "c05-drop-title", Property: "C05", File: "svg/svg.go",
		Old: "\t\t\tif tag == Metadata {\n\t\t\t\tt.Data = nil\n", New: "\t\t\tif tag == Metadata {\n\t\t\t\tt.Data = nil\n\t\t\t} else if tag == Style {\n\t\t\t\tt.Data = nil\n",
		Rule: "R05.3", Construct: "element dropped"})
}

func runC05(c *Ctx) {
	defer c.tokenBuffer("R05.12", "svg")
	pk := c.pkg("R05", "svg")
	if pk == nil {
		return
	}
	c.r051(pk)
	c.r052(pk)
	c.entityReescape("R05.4", "svg", 2, false)
	c.r055(pk)
	c.r057(pk)
	c.r058(pk)
	c.r059(pk)
	c.r0510(pk)
	c.r0513(pk)
	c.r0514(pk)
	c.r0515(pk)
	c.r0516(pk)
	c.hexCompaction("R05.17", "svg", 1)
	c.r0518(pk)
	c.r0519(pk, "R05.19")
	c.r0520(pk)
	c.r0522(pk)
	c.r0523(pk, "R05.23")
	c.r0524(pk)
	c.r0525(pk)
	c.r0527(pk)
	c.r0526(pk, "R05.26")
	// the same escaper as in the XML minifier: SVG is XML
	c.r069("R05.21", "svg")
	// Inline decides whether the root element keeps its xmlns: it is a per-call fact and must not be written
	// into the shared option struct (a later standalone document would lose its namespace)
	c.alsoUnder(map[string]string{"R13.1": "R05.11"}, func(construct string) bool { return strings.Contains(construct, "svg.") }, func() { c.r131() })
}

// R05.10: a curve is replaced by a line only if a following smooth curve still sees the same control point.
func (c *Ctx) r0510(pk *packages.Package) {
	const rule = "R05.10"
	c.R.Rule(rule, "after a line the control point of a following S/T is the current point; after the curve it replaces it is the reflection of the curve's last control point in the end point. Both agree only when that control point coincides with the END point. In svg.(*PathData).copyInstruction the condition of every branch that turns a C/S or Q/T into a line (assigns 'L' / 'l' to cmd inside the family's branch) must therefore imply V == E component-wise — or the falsity of a flag that is computed from a comparison of the following command with the family's smooth letters (S/s, T/t) — where V are the values stored into the reflection state (p.cx,p.cy / p.qx,p.qy) and E the values stored into the current point (p.x, p.y) — checked by enumerating the truth values of the condition's comparison atoms. `M0 0C0 0 0 0 10 10S20 20 30 30` → `M0 0 10 10S20 20 30 30` moves the first control point of the S from (20,20) to (10,10)")
	info := pk.TypesInfo
	fd := c.fn(rule, pk, "PathData.copyInstruction")
	if fd == nil {
		return
	}
	recv := fd.Recv.List[0].Names[0].Name
	// E: values stored into p.x / p.y
	endVar := map[string]string{}
	ast.Inspect(fd.Body, func(x ast.Node) bool {
		if as, ok := x.(*ast.AssignStmt); ok && len(as.Lhs) == len(as.Rhs) {
			for i, l := range as.Lhs {
				if str(l) == recv+".x" || str(l) == recv+".y" {
					if id, isId := ast.Unparen(as.Rhs[i]).(*ast.Ident); isId {
						endVar[str(l)[len(recv)+1:]] = id.Name
					}
				}
			}
		}
		return true
	})
	if endVar["x"] == "" || endVar["y"] == "" {
		c.R.Unres(rule, "svg.PathData.copyInstruction/current point", c.pos(fd), "assignments p.x = <var>, p.y = <var> not found")
		return
	}
	n := 0
	for _, fam := range [][2]string{{"cx", "cy"}, {"qx", "qy"}} {
		// the statement p.cx, p.cy = V1, V2 with identifiers on the right
		var store *ast.AssignStmt
		ast.Inspect(fd.Body, func(x ast.Node) bool {
			if as, ok := x.(*ast.AssignStmt); ok && len(as.Lhs) == 2 && len(as.Rhs) == 2 && str(as.Lhs[0]) == recv+"."+fam[0] && str(as.Lhs[1]) == recv+"."+fam[1] {
				if _, ok1 := as.Rhs[0].(*ast.Ident); ok1 {
					if _, ok2 := as.Rhs[1].(*ast.Ident); ok2 {
						store = as
					}
				}
			}
			return true
		})
		if store == nil {
			c.R.Unres(rule, "svg.PathData.copyInstruction/"+recv+"."+fam[0]+" store", c.pos(fd), "assignment of the last control point to the reflection state not found")
			continue
		}
		v1, v2 := str(store.Rhs[0]), str(store.Rhs[1])
		// the enclosing family branch
		var branch *ast.IfStmt
		for x := c.P.Parent(store); x != nil; x = c.P.Parent(x) {
			if ifs, ok := x.(*ast.IfStmt); ok {
				branch = ifs
				break
			}
		}
		if branch == nil {
			continue
		}
		ast.Inspect(branch.Body, func(x ast.Node) bool {
			ifs, ok := x.(*ast.IfStmt)
			if !ok {
				return true
			}
			toLine := false
			ast.Inspect(ifs.Body, func(y ast.Node) bool {
				if as, ok := y.(*ast.AssignStmt); ok && len(as.Lhs) == 1 && str(as.Lhs[0]) == "cmd" {
					if k, isK := intConst(info, as.Rhs[0]); isK && (k == 'L' || k == 'l') {
						toLine = true
					}
				}
				return true
			})
			if !toLine {
				return true
			}
			n++
			construct := fmt.Sprintf("svg.PathData.copyInstruction/%s,%s: curve replaced by a line", fam[0], fam[1])
			// atoms
			var atoms []string
			atomExpr := map[string]ast.Expr{}
			var leaves func(e ast.Expr)
			leaves = func(e ast.Expr) {
				e = ast.Unparen(e)
				if b, ok := e.(*ast.BinaryExpr); ok && (b.Op == token.LAND || b.Op == token.LOR) {
					leaves(b.X)
					leaves(b.Y)
					return
				}
				if u, ok := e.(*ast.UnaryExpr); ok && u.Op == token.NOT {
					leaves(u.X)
					return
				}
				k := nospace(str(e))
				for _, a := range atoms {
					if a == k {
						return
					}
				}
				atoms = append(atoms, k)
				atomExpr[k] = e
			}
			leaves(ifs.Cond)
			if len(atoms) > 16 {
				c.R.Unres(rule, construct, c.pos(ifs), "too many atoms")
				return true
			}
			// boolean locals defined from a comparison with the family's smooth command letters
			smoothFlag := map[string]bool{}
			smoothLetters := map[string][2]int64{"cx": {'S', 's'}, "qx": {'T', 't'}}[fam[0]]
			for _, a := range atoms {
				ast.Inspect(fd.Body, func(y ast.Node) bool {
					as, ok := y.(*ast.AssignStmt)
					if !ok || len(as.Lhs) != 1 || len(as.Rhs) != 1 || str(as.Lhs[0]) != a {
						return true
					}
					hasU, hasL := false, false
					ast.Inspect(as.Rhs[0], func(q ast.Node) bool {
						if e, ok := q.(ast.Expr); ok {
							if k, isK := intConst(info, e); isK {
								hasU = hasU || k == smoothLetters[0]
								hasL = hasL || k == smoothLetters[1]
							}
						}
						return true
					})
					if hasU && hasL {
						smoothFlag[a] = true
					}
					return true
				})
			}
			w1 := nospace(v1 + "==" + endVar["x"])
			w2 := nospace(v2 + "==" + endVar["y"])
			// the comparison may be written (or canonicalised) with its operands the other way round
			for _, a := range atoms {
				if a == nospace(endVar["x"]+"=="+v1) {
					w1 = a
				}
				if a == nospace(endVar["y"]+"=="+v2) {
					w2 = a
				}
			}
			bad := ""
			for mask := 0; mask < 1<<len(atoms) && bad == ""; mask++ {
				env := map[string]int64{}
				for k, a := range atoms {
					env[a] = int64(mask >> k & 1)
				}
				v, ok := evalIntExpr(info, ifs.Cond, env)
				if !ok {
					c.R.Unres(rule, construct, c.pos(ifs), "condition could not be evaluated over its atoms")
					return true
				}
				// alternative discharge: a flag saying that a smooth curve of this family follows is false
				noSmooth := false
				for _, a := range atoms {
					if env[a] == 0 && smoothFlag[a] {
						noSmooth = true
					}
				}
				if v != 0 && (env[w1] == 0 || env[w2] == 0) && !noSmooth {
					var on []string
					for k, a := range atoms {
						if mask>>k&1 == 1 {
							on = append(on, a)
						}
					}
					bad = strings.Join(on, " ∧ ")
				}
			}
			// a set of the smooth command itself (S, T) that is not the last of its run is followed by another set of that
			// command, which reflects: the rewrite has to be confined to explicit curves (C, Q) or to the last set
			explicitLetters := map[string][2]int64{"cx": {'C', 'c'}, "qx": {'Q', 'q'}}[fam[0]]
			isExplicit := func(a string) bool {
				be, ok := atomExpr[a].(*ast.BinaryExpr)
				if !ok || be.Op != token.EQL {
					return false
				}
				for _, side := range []ast.Expr{be.X, be.Y} {
					if kv, isK := intConst(info, side); isK && (kv == explicitLetters[0] || kv == explicitLetters[1]) {
						return true
					}
				}
				return false
			}
			isLastSet := func(a string) bool {
				be, ok := atomExpr[a].(*ast.BinaryExpr)
				if !ok || (be.Op != token.LEQ && be.Op != token.GEQ) {
					return false
				}
				for _, side := range []ast.Expr{be.X, be.Y} {
					if sum, ok := ast.Unparen(side).(*ast.BinaryExpr); ok && sum.Op == token.ADD {
						return true
					}
				}
				return false
			}
			bad2 := ""
			for mask := 0; mask < 1<<len(atoms) && bad2 == ""; mask++ {
				env := map[string]int64{}
				for k, a := range atoms {
					env[a] = int64(mask >> k & 1)
				}
				v, ok := evalIntExpr(info, ifs.Cond, env)
				if !ok || v == 0 || env[w1] != 0 && env[w2] != 0 {
					continue
				}
				confined := false
				for _, a := range atoms {
					if env[a] != 0 && (isExplicit(a) || isLastSet(a)) {
						confined = true
					}
				}
				if !confined {
					var on []string
					for k, a := range atoms {
						if mask>>k&1 == 1 {
							on = append(on, a)
						}
					}
					bad2 = strings.Join(on, " ∧ ")
				}
			}
			c.R.Check(bad2 == "", rule, construct+" (sets of a smooth command)", c.pos(ifs), "confined to an explicit curve or to the last set of a run", "a set of a smooth command that is not the last of its run is turned into a line although its last control point need not be the end point (holds e.g. with only "+bad2+"): the next set of the run reflects that control point — `M0 0S0 0 10 0 30 5 40 5` becomes `M0 0H10S30 5 40 5`")
			c.R.Check(bad == "", rule, construct, c.pos(ifs), "implies "+w1+" ∧ "+w2, "the curve is turned into a line although its last control point need not be the end point (holds e.g. with only "+bad+"): a following smooth curve then starts from a different control point")
			return false // the choice between l and L inside is not another rewrite
		})
	}
	c.R.Floor(rule, "curve-to-line rewrites", n, 2)
}

// R05.9: names and references are not rewritten as numbers.
func (c *Ctx) r059(pk *packages.Package) {
	const rule = "R05.9"
	c.R.Rule(rule, "in the AttributeToken case of svg.(*Minifier).Minify the numeric rewrite of an attribute value (a call of shortenDimension / minify.Number / minify.Decimal on the value) is reached only after tests that exclude the attributes whose value is a name or a reference although it may look like a number — id, class, href (and xlink:href): the byte constants compared with the attribute name on the way to the rewrite (in the conditions themselves or inside a predicate of package svg called there) must include `id`, `class` and `href`. `id=\"1000\"` → `id=\"1e3\"` breaks every `href=\"#1000\"`")
	info := pk.TypesInfo
	fd := c.fn(rule, pk, "Minifier.Minify")
	if fd == nil {
		return
	}
	g := c.graph(pk, fd)
	constsIn := func(root ast.Node) map[string]bool {
		out := map[string]bool{}
		var visit func(n ast.Node, depth int)
		visit = func(n ast.Node, depth int) {
			ast.Inspect(n, func(x ast.Node) bool {
				switch e := x.(type) {
				case *ast.Ident:
					if v, isVar := info.Uses[e].(*types.Var); isVar && v.Parent() == pk.Types.Scope() {
						if val, err := c.Ev.Expr(pk, e); err == nil {
							if b, isB := val.([]byte); isB {
								out[string(b)] = true
							}
						}
					}
					if k, isK := info.Uses[e].(*types.Const); isK && k.Pkg() == pk.Types {
						out["hash:"+k.Name()] = true
					}
				case *ast.BasicLit:
					if val, err := c.Ev.Expr(pk, e); err == nil {
						if sv, isS := val.(string); isS {
							out[sv] = true
						}
					}
				case *ast.CallExpr:
					if fo, ok := callee(info, e).(*types.Func); ok && fo.Pkg() == pk.Types && depth < 2 {
						if d := c.P.DeclOf(fo); d != nil && d.Body != nil {
							visit(d.Body, depth+1)
						}
					}
				}
				return true
			})
		}
		visit(root, 0)
		return out
	}
	n := 0
	for _, y := range g.Nodes {
		a := y.Ast()
		if a == nil || y.Kind != flow.KStmt || c.caseLabel(a) != "case xml.AttributeToken" {
			continue
		}
		hit := false
		flowInspectCalls(a, func(call *ast.CallExpr) {
			switch calleeName(info, call) {
			case load.Mod + "/svg.(Minifier).shortenDimension", load.Mod + ".Number", load.Mod + ".Decimal":
				if len(call.Args) > 0 && (str(call.Args[0]) == "val" || strings.Contains(str(call.Args[0]), "AttrVal")) {
					hit = true
				}
			}
		})
		if !hit {
			continue
		}
		n++
		seen := map[string]bool{}
		for _, f := range g.DomFacts(y) {
			if f.Test.Kind == flow.KCond && f.Test.Expr != nil && c.caseLabel(f.Test.Expr) == "case xml.AttributeToken" {
				for k := range constsIn(f.Test.Expr) {
					seen[k] = true
				}
			}
		}
		var missing []string
		for _, want := range []string{"id", "class", "href"} {
			if !seen[want] && !seen["hash:"+strings.ToUpper(want[:1])+want[1:]] {
				missing = append(missing, want)
			}
		}
		c.R.Check(len(missing) == 0, rule, fmt.Sprintf("svg.Minifier.Minify/numeric rewrite of an attribute value#%d", n), c.pos(a), "id, class and href are excluded", "the value of every attribute that looks like a number is shortened, without excluding "+strings.Join(missing, ", ")+": `id=\"1000\"` becomes `id=\"1e3\"` while `href=\"#1000\"` keeps pointing at the old name")
	}
	c.R.Floor(rule, "numeric rewrites of attribute values", n, 1)
}

// R05.8: an exponent is only written into a number that has none.
func (c *Ctx) r058(pk *packages.Package) {
	const rule = "R05.8"
	c.R.Rule(rule, "package svg: every store of the byte 'e' / 'E' into a byte slice (turning the tail of a number into an exponent, `100` → `1e2`) is reached only through the true outcome of a flag that is cleared inside a scan of the same slice on finding '.', 'e' or 'E' — i.e. after establishing that the number is a plain integer. `1e100` would otherwise become `1e1e2` and `2e-100` become `2e-1e2`, which are not numbers")
	info := pk.TypesInfo
	n := 0
	for _, fd := range load.FuncDecls(pk) {
		if fd.Body == nil {
			continue
		}
		g := c.graph(pk, fd)
		for _, y := range g.Nodes {
			as, ok := y.Stmt.(*ast.AssignStmt)
			if !ok || y.Kind != flow.KStmt || len(as.Lhs) != 1 || len(as.Rhs) != 1 {
				continue
			}
			ix, isIx := ast.Unparen(as.Lhs[0]).(*ast.IndexExpr)
			if !isIx || !isByteSlice(info.TypeOf(ix.X)) {
				continue
			}
			k, isK := intConst(info, as.Rhs[0])
			if !isK || k != 'e' && k != 'E' {
				continue
			}
			n++
			slice := str(ix.X)
			construct := fmt.Sprintf("svg.%s/exponent written into %s", load.FuncName(fd), slice)
			// flags: identifiers with a true outcome dominating the store
			okFlag := ""
			for _, f := range g.DomFacts(y) {
				if f.Test.Kind != flow.KCond || !f.Value {
					continue
				}
				id, isId := ast.Unparen(f.Test.Expr).(*ast.Ident)
				if !isId {
					continue
				}
				obj := info.Uses[id]
				// an assignment `flag = false` inside a range over the same slice, dominated by tests of the element against '.', 'e', 'E'
				for _, z := range g.Nodes {
					rhs, isAs := assignsTo(z, func(l ast.Expr) bool {
						li, ok := ast.Unparen(l).(*ast.Ident)
						return ok && info.Uses[li] == obj
					})
					if !isAs || str(rhs) != "false" {
						continue
					}
					seen := map[int64]bool{}
					inScan := false
					for _, zf := range g.DomFacts(z) {
						if zf.Test.Kind == flow.KRange {
							if rs, ok := zf.Test.Stmt.(*ast.RangeStmt); ok && str(rs.X) == slice {
								inScan = true
							}
						}
					}
					// the comparisons may be a disjunction: collect every `x == 'c'` test in the enclosing if
					if ifs, ok := c.P.Parent(c.P.Parent(z.Stmt)).(*ast.IfStmt); ok {
						ast.Inspect(ifs.Cond, func(q ast.Node) bool {
							if be, ok := q.(*ast.BinaryExpr); ok && be.Op == token.EQL {
								if cv, ok := intConst(info, be.Y); ok {
									seen[cv] = true
								}
							}
							return true
						})
					}
					if inScan && seen['.'] && seen['e'] && seen['E'] {
						okFlag = id.Name
					}
				}
			}
			c.R.Check(okFlag != "", rule, construct, c.pos(as), "only when the scan found no '.', 'e', 'E' ("+okFlag+")", "an exponent marker is stored into "+slice+" without first establishing that the number has no fraction or exponent: `1e100` becomes `1e1e2`")
		}
	}
	c.R.Floor(rule, "exponent stores", n, 1)
}

// R05.7: a start tag and its end tag are renamed together.
func (c *Ctx) r057(pk *packages.Package) {
	const rule = "R05.7"
	c.R.Rule(rule, "in svg.(*Minifier).Minify every rewrite of an element name in the StartTagToken case (an assignment of a non-nil value to t.Data under a test against a package-level prefix constant, e.g. the removal of the `svg:` prefix) has a counterpart in the EndTagToken case that tests the same constant: otherwise `<svg:g>…</svg:g>` becomes `<g>…</svg:g>`, which is not well-formed")
	info := pk.TypesInfo
	fd := c.fn(rule, pk, "Minifier.Minify")
	if fd == nil {
		return
	}
	g := c.graph(pk, fd)
	pkgVarsIn := func(e ast.Expr) map[types.Object]bool {
		out := map[types.Object]bool{}
		ast.Inspect(e, func(x ast.Node) bool {
			if id, ok := x.(*ast.Ident); ok {
				if v, isVar := info.Uses[id].(*types.Var); isVar && v.Parent() == pk.Types.Scope() && isByteSlice(v.Type()) {
					out[v] = true
				}
			}
			return true
		})
		return out
	}
	// constants tested in the end-tag case
	endVars := map[types.Object]bool{}
	for _, y := range g.Nodes {
		if y.Kind == flow.KCond && y.Expr != nil && c.caseLabel(y.Expr) == "case xml.EndTagToken" {
			for v := range pkgVarsIn(y.Expr) {
				endVars[v] = true
			}
		}
	}
	n := 0
	for _, y := range g.Nodes {
		as, ok := y.Stmt.(*ast.AssignStmt)
		if !ok || y.Kind != flow.KStmt || c.caseLabel(as) != "case xml.StartTagToken" {
			continue
		}
		for i, l := range as.Lhs {
			if str(l) != "t.Data" || i >= len(as.Rhs) || isNilExpr(as.Rhs[i]) {
				continue
			}
			n++
			guards := map[types.Object]bool{}
			for _, f := range g.DomFacts(y) {
				if f.Test.Kind == flow.KCond && f.Value && c.caseLabel(f.Test.Expr) == "case xml.StartTagToken" {
					for v := range pkgVarsIn(f.Test.Expr) {
						guards[v] = true
					}
				}
			}
			var names []string
			mirrored := false
			for v := range guards {
				names = append(names, v.Name())
				if endVars[v] {
					mirrored = true
				}
			}
			sort.Strings(names)
			construct := fmt.Sprintf("svg.Minifier.Minify/start tag rename under %s", strings.Join(names, ","))
			if len(guards) == 0 {
				c.R.Unres(rule, "svg.Minifier.Minify/start tag rewrite "+str0(as), c.pos(as), "the rewrite of the start tag is not guarded by a test against a prefix constant: its counterpart for the end tag cannot be identified")
				continue
			}
			c.R.Check(mirrored, rule, construct, c.pos(as), "the EndTagToken case tests the same prefix", "the start tag's name is rewritten under a test of "+strings.Join(names, ",")+" but the EndTagToken case never tests that constant: the end tag keeps the old name (`<svg:g>…</svg:g>` → `<g>…</svg:g>`)")
		}
	}
	c.R.Floor(rule, "start tag rewrites", n, 1)
}

// R05.5: smooth-curve reflection state is cleared by every command of another family.
func (c *Ctx) r055(pk *packages.Package) {
	const rule = "R05.5"
	c.R.Rule(rule, "S/s (T/t) take the reflection of the previous control point only when the previous command is C/c/S/s (Q/q/T/t); after any other command the control point is the current point (SVG 1.1 §8.3.6/8.3.7). In svg.(*PathData).copyInstruction the remembered control point (cx,cy) [(qx,qy)] drives the C→S [Q→T] rewrite, so: (a) under the stipulation that cmd is none of C c S s [Q q T t], every path through one iteration of the coordinate loop passes an assignment of math.NaN() to p.cx and p.cy [p.qx and p.qy]; (b) the closepath branch (return without coordinates) passes such an assignment for all four fields. A stale control point turns a C/Q after a command of another family into S/T, which a renderer then draws with the current point as control point")
	fd := c.fn(rule, pk, "PathData.copyInstruction")
	if fd == nil {
		return
	}
	g := c.graph(pk, fd)
	recv := fd.Recv.List[0].Names[0].Name
	resets := func(field string) func(*flow.Node) bool {
		return func(y *flow.Node) bool {
			as, ok := y.Stmt.(*ast.AssignStmt)
			if !ok || y.Kind != flow.KStmt {
				return false
			}
			for i, l := range as.Lhs {
				if str(l) != recv+"."+field {
					continue
				}
				if len(as.Rhs) == len(as.Lhs) {
					if call, isCall := ast.Unparen(as.Rhs[i]).(*ast.CallExpr); isCall && calleeName(pk.TypesInfo, call) == "math.NaN" {
						return true
					}
				}
				// whole-struct reset of the receiver is not used; anything else is not a reset
			}
			return false
		}
	}
	// the coordinate loop: the for statement whose body assigns `cmd = origCmd`
	var loop *ast.ForStmt
	ast.Inspect(fd.Body, func(x ast.Node) bool {
		if f, ok := x.(*ast.ForStmt); ok && loop == nil && f.Post != nil && len(f.Body.List) > 0 {
			loop = f
		}
		return true
	})
	if loop == nil {
		c.R.Unres(rule, "svg.PathData.copyInstruction/coordinate loop", c.pos(fd), "for loop not found")
		return
	}
	first := firstNodeIn(g, loop.Body.List[0])
	post := g.NodeOf(loop.Post)
	if first == nil || post == nil {
		c.R.Unres(rule, "svg.PathData.copyInstruction/coordinate loop", c.pos(loop), "loop nodes not found in the graph")
		return
	}
	families := []struct {
		name    string
		letters []string
		fields  []string
	}{
		{"cubic", []string{"C", "c", "S", "s"}, []string{"cx", "cy"}},
		{"quadratic", []string{"Q", "q", "T", "t"}, []string{"qx", "qy"}},
	}
	n := 0
	for _, fam := range families {
		assume := map[string]bool{}
		tests := 0
		for _, l := range fam.letters {
			assume["cmd == '"+l+"'"] = false
		}
		for _, y := range g.Nodes {
			if y.Kind == flow.KCond {
				if _, ok := assume[str(y.Expr)]; ok {
					tests++
				}
			}
		}
		if tests < 4 {
			c.R.Unres(rule, "svg.PathData.copyInstruction/"+fam.name+" family tests", c.pos(loop), "the tests cmd == '"+strings.Join(fam.letters, "'/'")+"' were not all found: the stipulation cannot be expressed")
			continue
		}
		for _, f := range fam.fields {
			n++
			p := g.Path(flow.Search{From: []*flow.Node{first}, IncludeFrom: true, Goal: func(y *flow.Node) bool { return y == post || y.Kind == flow.KExit }, Avoid: resets(f), AssumeRaw: assume})
			c.R.Check(p == nil, rule, "svg.PathData.copyInstruction/"+recv+"."+f+" cleared by commands outside the "+fam.name+" family", c.pos(loop), "reset to NaN on every path", "a command that is not "+strings.Join(fam.letters, "/")+" can leave "+recv+"."+f+" set: the next curve of the "+fam.name+" family may be rewritten to its smooth form against a stale control point: "+pathStr(c, g, p))
		}
	}
	// (b) closepath: the return inside the n == 0 branch
	var zret *flow.Node
	for _, y := range g.Nodes {
		if r, ok := y.Stmt.(*ast.ReturnStmt); ok && y.Kind == flow.KStmt && len(r.Results) == 1 && str(r.Results[0]) == "1" {
			zret = y
		}
	}
	if zret == nil {
		c.R.Unres(rule, "svg.PathData.copyInstruction/closepath branch", c.pos(fd), "`return 1` of the closepath branch not found")
		return
	}
	for _, f := range []string{"cx", "cy", "qx", "qy"} {
		n++
		p := g.MustPassBefore(zret, resets(f), flow.Search{})
		c.R.Check(p == nil, rule, "svg.PathData.copyInstruction/closepath clears "+recv+"."+f, c.pos(zret.Stmt), "reset to NaN", "closepath leaves "+recv+"."+f+" set: `M0 0Q5 10 10 0zQ-5-10 8 8` becomes `…zT8 8`, which a renderer draws with the current point as control point")
	}
	c.R.Floor(rule, "reflection-state obligations", n, 8)
}

func (c *Ctx) r051(pk *packages.Package) {
	const rule = "R05.1"
	c.R.Rule(rule, "in svg.(*PathData).copyInstruction every node that writes into the destination parameter (element store or copy into b / b[j:]) is followed, on every path to a return, by an assignment to p.state (whole or a field): the state records the last emitted command letter, and a stale state makes the next command letter be elided wrongly (`M2 2Z L3 3` → `M2 2z 3 3`)")
	info := pk.TypesInfo
	fd := c.fn(rule, pk, "PathData.copyInstruction")
	if fd == nil {
		return
	}
	g := c.graph(pk, fd)
	dst := fd.Type.Params.List[0].Names[0].Name
	recv := fd.Recv.List[0].Names[0].Name
	stateSet := func(y *flow.Node) bool {
		_, ok := assignsTo(y, func(l ast.Expr) bool {
			s := str(l)
			return s == recv+".state" || strings.HasPrefix(s, recv+".state.")
		})
		return ok
	}
	n := 0
	for _, y := range g.Nodes {
		if y.Kind != flow.KStmt || y.Ast() == nil {
			continue
		}
		writes := false
		if as, ok := y.Stmt.(*ast.AssignStmt); ok {
			for _, l := range as.Lhs {
				if ix, isIx := ast.Unparen(l).(*ast.IndexExpr); isIx && str(ix.X) == dst {
					writes = true
				}
			}
		}
		flowInspectCalls(y.Ast(), func(call *ast.CallExpr) {
			if id, ok := call.Fun.(*ast.Ident); ok && id.Name == "copy" && len(call.Args) == 2 {
				if r := rootIdent(call.Args[0]); r != nil && r.Name == dst {
					writes = true
				}
			}
		})
		if !writes {
			continue
		}
		n++
		construct := fmt.Sprintf("svg.PathData.copyInstruction/write#%d %s", n, str0(y.Ast()))
		// state assigned between this write and the exit, or already assigned in the same straight-line region before it
		p := g.MustPassAfter(y, stateSet, flow.Search{})
		c.R.Check(p == nil, rule, construct, c.pos(y.Ast()), "p.state updated before returning", "command bytes are emitted but p.state keeps the previous command: the next instruction's letter is decided against a stale state: "+pathStr(c, g, p))
	}
	_ = info
	c.R.Floor(rule, "writes into the destination", n, 3)
}

func (c *Ctx) r052(pk *packages.Package) {
	const r2, r3 = "R05.2", "R05.3"
	c.R.Rule(r2, "in the AttributeToken case of svg.(*Minifier).Minify every `continue` (attribute not written) is dominated by exactly one of: (a) t.Text == nil (attribute removed earlier); (b) the default-value condition, whose every (attribute, value) pair is a documented SVG default for that attribute — pairs are extracted from the condition and evaluated; (c) a namespace-prefix test (IndexByte(t.Text, ':')) that is also dominated by the negative outcomes of comparisons of the prefix with \"xlink\" and \"xml\" (functional namespaces are kept)")
	c.R.Rule(r3, "in the StartTagToken case every `t.Data = nil` (element dropped with its subtree) is dominated by one of the enumerated guards: tag == Metadata; a namespace prefix in the tag name; tag == Defs with an immediately following void close")
	info := pk.TypesInfo
	fd := c.fn(r2, pk, "Minifier.Minify")
	if fd == nil {
		return
	}
	g := c.graph(pk, fd)
	h := c.loadHash(r2, "svg")
	if h == nil {
		return
	}
	evalStr := func(e ast.Expr) (string, bool) {
		v, err := c.Ev.Expr(pk, e)
		if err != nil {
			return "", false
		}
		switch x := v.(type) {
		case []byte:
			return string(x), true
		case string:
			return x, true
		}
		return "", false
	}
	conts := 0
	for _, y := range g.Nodes {
		b, ok := y.Stmt.(*ast.BranchStmt)
		if y.Kind != flow.KStmt || !ok || b.Tok != token.CONTINUE || c.caseLabel(b) != "case xml.AttributeToken" {
			continue
		}
		conts++
		facts := g.DomFacts(y)
		kind := ""
		for _, f := range facts {
			if f.Test.Kind != flow.KCond {
				continue
			}
			s := nospace(c.expandLocals(pk, g, f.Test))
			if f.Value && s == "t.Text==nil" {
				kind = "removed"
			}
			if f.Value && strings.Contains(s, "IndexByte(t.Text,':')") {
				kind = "namespace"
			}
		}
		switch kind {
		case "removed":
			c.R.OK(r2, "svg.Minifier.Minify/attribute skip: already removed", c.pos(b), "t.Text == nil")
		case "namespace":
			exempt := map[string]bool{}
			for _, f := range facts {
				if f.Value || f.Test.Kind != flow.KCond {
					continue
				}
				if call := isCall(info, ast.Unparen(f.Test.Expr), "bytes.Equal"); call != nil {
					for _, a := range call.Args {
						if v, ok := evalStr(a); ok {
							exempt[v] = true
						}
					}
				}
			}
			var missing []string
			for _, p := range []string{"xlink", "xml"} {
				if !exempt[p] {
					missing = append(missing, p+":")
				}
			}
			c.R.Check(len(missing) == 0, r2, "svg.Minifier.Minify/attribute skip: namespace skip", c.pos(b), "xlink: and xml: attributes are exempt",
				"every attribute with a namespace prefix is dropped, including the functional "+strings.Join(missing, " and ")+" attributes (`<use xlink:href=\"#a\"/>` → `<use/>`: the reference is lost)")
		default:
			// default-value skip: the enclosing if's condition
			var ifs *ast.IfStmt
			for x := c.P.Parent(b); x != nil; x = c.P.Parent(x) {
				if i, ok := x.(*ast.IfStmt); ok {
					ifs = i
					break
				}
			}
			if ifs == nil {
				c.R.Bad(r2, "svg.Minifier.Minify/attribute skip: unconditional", c.pos(b), "an attribute is skipped unconditionally")
				continue
			}
			drops, undecided := c.dropCases(pk, h, ifs.Cond)
			if undecided != "" {
				c.R.Unres(r2, "svg.Minifier.Minify/attribute skip: default-value condition", c.pos(ifs.Cond), "the condition is not a function of attr, tag, val and evaluable tables: "+undecided)
				continue
			}
			if len(drops) == 0 {
				c.R.Bad(r2, "svg.Minifier.Minify/attribute skip: unrecognised guard", c.pos(b), "attribute dropped under a condition that is neither `already removed`, a default-value test nor a namespace test: "+str(ifs.Cond))
				continue
			}
			for _, d := range drops {
				elem := d.tag
				construct := fmt.Sprintf("svg.Minifier.Minify/attribute skip: default value %s=%q", d.attr, d.value)
				if elem != "*" {
					construct = fmt.Sprintf("svg.Minifier.Minify/attribute skip: default value %s %s=%q", elem, d.attr, d.value)
				}
				switch {
				case d.attr == "*":
					c.R.Bad(r2, construct, c.pos(ifs.Cond), "an attribute is dropped whatever its name")
				case d.value == "*" && d.attr == "xmlns" && elem == "svg":
					c.R.OK(r2, construct, c.pos(ifs.Cond), "xmlns on an inline <svg> (the HTML parser assigns the namespace); only with o.Inline")
				case d.value == "*":
					c.R.Bad(r2, construct, c.pos(ifs.Cond), "attribute "+d.attr+" is dropped whatever its value")
				default:
					want, known := ref.SVGDefaultAttrValues[elem+" "+d.attr]
					if !known {
						want, known = ref.SVGDefaultAttrValues["* "+d.attr]
					}
					switch {
					case !known:
						c.R.Bad(r2, construct, c.pos(ifs.Cond), fmt.Sprintf("attribute %s=%q is dropped on <%s>, but no unconditional default %q is documented for that attribute on that element (e.g. x/y default to -10%% on mask and filter and are inherited through href on pattern): the attribute's value is lost", d.attr, d.value, elem, d.value))
					case want != d.value:
						c.R.Bad(r2, construct, c.pos(ifs.Cond), fmt.Sprintf("attribute %s is dropped when it equals %q, but its default is %q: dropping it changes the document (%s)", d.attr, d.value, want, ref.SVGDefaultWhy[d.attr]))
					default:
						c.R.OK(r2, construct, c.pos(ifs.Cond), "documented default")
					}
				}
			}
		}
	}
	c.R.Floor(r2, "attribute skip sites", conts, 3)

	// R05.3
	drops := 0
	for _, y := range g.Nodes {
		rhs, ok := assignsTo(y, func(l ast.Expr) bool { return str(l) == "t.Data" })
		if !ok || !isNilExpr(rhs) {
			continue
		}
		drops++
		guard := ""
		for _, f := range g.DomFacts(y) {
			if f.Test.Kind != flow.KCond {
				continue
			}
			s := nospace(c.expandLocals(pk, g, f.Test))
			switch {
			case f.Value && s == "tag==Metadata":
				guard = "metadata element"
			case f.Value && strings.Contains(s, "IndexByte(t.Data,':')"):
				if guard == "" {
					guard = "foreign-namespace element"
				}
			case f.Value && s == "tag==Defs":
				guard = "empty defs"
			}
		}
		c.R.Check(guard != "", r3, fmt.Sprintf("svg.Minifier.Minify/element dropped#%d", drops), c.pos(y.Stmt), guard, "an element (with its subtree) is dropped under a guard that is not one of the documented ones (metadata, foreign namespace, empty defs)")
	}
	c.R.Floor(r3, "element drop sites", drops, 3)
	// the metadata guard must be exactly that hash
	if v, ok := h.consts["Metadata"]; ok {
		t, _ := h.decode(v)
		c.R.Check(t == "metadata", r3, "svg.Hash/Metadata spells metadata", "-", t, "Metadata constant decodes to "+t)
	}
	_ = load.Mod
}

type attrPair struct {
	hash     int64
	value    string
	anyValue bool
	at       ast.Node
}

// attrValuePairs extracts (attr == Hash, bytes.Equal(val, const)) pairs from a default-value condition.
func (c *Ctx) attrValuePairs(pk *packages.Package, cond ast.Expr) []attrPair {
	info := pk.TypesInfo
	var out []attrPair
	var walk func(e ast.Expr)
	walk = func(e ast.Expr) {
		e = ast.Unparen(e)
		b, ok := e.(*ast.BinaryExpr)
		if !ok {
			return
		}
		if b.Op == token.LOR {
			walk(b.X)
			walk(b.Y)
			return
		}
		if b.Op != token.LAND {
			return
		}
		// flatten conjuncts
		var conj []ast.Expr
		var flat func(x ast.Expr)
		flat = func(x ast.Expr) {
			x = ast.Unparen(x)
			if bb, ok := x.(*ast.BinaryExpr); ok && bb.Op == token.LAND {
				flat(bb.X)
				flat(bb.Y)
				return
			}
			conj = append(conj, x)
		}
		flat(b)
		var hash int64 = -1
		var value *string
		var at ast.Node
		for _, x := range conj {
			if bb, ok := x.(*ast.BinaryExpr); ok && bb.Op == token.EQL && str(bb.X) == "attr" {
				if v, ok := intConst(info, bb.Y); ok {
					hash, at = v, bb
				}
			}
			if call := isCall(info, x, "bytes.Equal"); call != nil && str(call.Args[0]) == "val" {
				if v, err := c.Ev.Expr(pk, call.Args[1]); err == nil {
					if bs, ok := v.([]byte); ok {
						s := string(bs)
						value = &s
					}
				}
			}
			if bb, ok := x.(*ast.BinaryExpr); ok && bb.Op == token.LOR {
				walk(bb)
			}
		}
		if hash >= 0 {
			if value != nil {
				out = append(out, attrPair{hash: hash, value: *value, at: at})
			} else {
				out = append(out, attrPair{hash: hash, anyValue: true, at: at})
			}
		}
	}
	walk(cond)
	return out
}

// expandLocals renders a condition with every identifier that is defined by a dominating
// `id := expr` (e.g. an if-init) replaced by that expression's text.
func (c *Ctx) expandLocals(pk *packages.Package, g *flow.Graph, test *flow.Node) string {
	info := pk.TypesInfo
	out := str(test.Expr)
	be, isBin := ast.Unparen(test.Expr).(*ast.BinaryExpr)
	if !isBin {
		return out
	}
	ast.Inspect(test.Expr, func(x ast.Node) bool {
		id, ok := x.(*ast.Ident)
		if !ok || (ast.Unparen(be.X) != ast.Expr(id) && ast.Unparen(be.Y) != ast.Expr(id)) {
			return true
		}
		obj := info.Uses[id]
		if obj == nil {
			return true
		}
		for _, n := range g.Nodes {
			if n.Kind != flow.KStmt || !g.Dominates(n, test) {
				continue
			}
			as, ok := n.Stmt.(*ast.AssignStmt)
			if !ok || as.Tok != token.DEFINE || len(as.Lhs) != len(as.Rhs) {
				continue
			}
			for i, l := range as.Lhs {
				if lid, ok := l.(*ast.Ident); ok && info.Defs[lid] == obj {
					out = strings.ReplaceAll(out, id.Name, "("+str(as.Rhs[i])+")")
				}
			}
		}
		return true
	})
	return out
}

type dropCase struct{ tag, attr, value string }

// dropCases evaluates the attribute-dropping condition over the finite domain
// attr ∈ {hashes mentioned, other} × tag ∈ {hashes mentioned or keys of indexed tables, other} ×
// val ∈ {constants mentioned, other} (free atoms such as o.Inline take both values) and
// returns every (tag, attr, value) for which the attribute can be dropped ("*" = any / other).
func (c *Ctx) dropCases(pk *packages.Package, h *hashTable, cond ast.Expr) ([]dropCase, string) {
	info := pk.TypesInfo
	attrs, tags, vals := map[int64]bool{}, map[int64]bool{}, map[string]bool{}
	tables := map[string]map[int64]bool{}
	var free []string
	freeSeen := map[string]bool{}
	undecided := ""
	var collect func(e ast.Expr)
	collect = func(e ast.Expr) {
		e = ast.Unparen(e)
		switch x := e.(type) {
		case *ast.UnaryExpr:
			if x.Op == token.NOT {
				collect(x.X)
				return
			}
		case *ast.BinaryExpr:
			if x.Op == token.LAND || x.Op == token.LOR {
				collect(x.X)
				collect(x.Y)
				return
			}
			if x.Op == token.EQL || x.Op == token.NEQ {
				if v, ok := intConst(info, x.Y); ok && (str(x.X) == "attr" || str(x.X) == "tag") {
					if str(x.X) == "attr" {
						attrs[v] = true
					} else {
						tags[v] = true
					}
					return
				}
			}
		case *ast.CallExpr:
			if call := isCall(info, x, "bytes.Equal"); call != nil && str(call.Args[0]) == "val" {
				if v, err := c.Ev.Expr(pk, call.Args[1]); err == nil {
					if bs, ok := v.([]byte); ok {
						vals[string(bs)] = true
						return
					}
				}
			}
		case *ast.IndexExpr:
			if str(x.Index) == "tag" || str(x.Index) == "attr" {
				if v, err := c.Ev.Expr(pk, x.X); err == nil {
					if m, ok := v.(*eval.Map); ok {
						t := map[int64]bool{}
						for _, en := range m.Entries {
							k, _ := en.Key.(int64)
							bv, _ := en.Value.(bool)
							t[k] = bv
							if str(x.Index) == "tag" {
								tags[k] = true
							} else {
								attrs[k] = true
							}
						}
						tables[str(x)] = t
						return
					}
				}
			}
		}
		// free boolean atom
		k := str(e)
		if tv, ok := info.Types[e]; ok && tv.Type != nil && types.TypeString(tv.Type, nil) == "bool" || true {
			if !freeSeen[k] {
				freeSeen[k] = true
				free = append(free, k)
			}
		}
	}
	collect(cond)
	if len(free) > 8 {
		return nil, "too many free atoms"
	}
	var evalB func(e ast.Expr, a, t int64, v string, fv map[string]bool) bool
	evalB = func(e ast.Expr, a, t int64, v string, fv map[string]bool) bool {
		e = ast.Unparen(e)
		switch x := e.(type) {
		case *ast.UnaryExpr:
			if x.Op == token.NOT {
				return !evalB(x.X, a, t, v, fv)
			}
		case *ast.BinaryExpr:
			switch x.Op {
			case token.LAND:
				return evalB(x.X, a, t, v, fv) && evalB(x.Y, a, t, v, fv)
			case token.LOR:
				return evalB(x.X, a, t, v, fv) || evalB(x.Y, a, t, v, fv)
			case token.EQL, token.NEQ:
				if k, ok := intConst(info, x.Y); ok && (str(x.X) == "attr" || str(x.X) == "tag") {
					cur := a
					if str(x.X) == "tag" {
						cur = t
					}
					return (cur == k) == (x.Op == token.EQL)
				}
			}
		case *ast.CallExpr:
			if call := isCall(info, x, "bytes.Equal"); call != nil && str(call.Args[0]) == "val" {
				if cv, err := c.Ev.Expr(pk, call.Args[1]); err == nil {
					if bs, ok := cv.([]byte); ok {
						return v == string(bs)
					}
				}
			}
		case *ast.IndexExpr:
			if tb, ok := tables[str(x)]; ok {
				if str(x.Index) == "tag" {
					return tb[t]
				}
				return tb[a]
			}
		}
		return fv[str(e)]
	}
	const other = int64(-1)
	const otherVal = "\x00other"
	name := func(hv int64) string {
		if hv == other {
			return "*"
		}
		n, _ := h.decode(hv)
		return n
	}
	seen := map[dropCase]bool{}
	var out []dropCase
	al := append(keysI(attrs), other)
	tl := append(keysI(tags), other)
	vl := append(sortedKeys(vals), otherVal)
	for _, a := range al {
		for _, t := range tl {
			for _, v := range vl {
				dropped := false
				for m := 0; m < 1<<len(free); m++ {
					fv := map[string]bool{}
					for i, f := range free {
						fv[f] = m&(1<<i) != 0
					}
					if evalB(cond, a, t, v, fv) {
						dropped = true
					}
				}
				if !dropped {
					continue
				}
				vs := v
				if v == otherVal {
					vs = "*"
				}
				d := dropCase{name(t), name(a), vs}
				if !seen[d] {
					seen[d] = true
					out = append(out, d)
				}
			}
		}
	}
	// collapse: if an (attr, value) is dropped for every tag including other, report it once with tag "*"
	var res []dropCase
	byAV := map[[2]string][]string{}
	for _, d := range out {
		k := [2]string{d.attr, d.value}
		byAV[k] = append(byAV[k], d.tag)
	}
	done := map[[2]string]bool{}
	for _, d := range out {
		k := [2]string{d.attr, d.value}
		if len(byAV[k]) == len(tl) {
			if !done[k] {
				done[k] = true
				res = append(res, dropCase{"*", d.attr, d.value})
			}
			continue
		}
		res = append(res, d)
	}
	// a value-independent drop subsumes its specific values
	var fin []dropCase
	for _, d := range res {
		if d.value != "*" {
			sub := false
			for _, e := range res {
				if e.value == "*" && e.attr == d.attr && e.tag == d.tag {
					sub = true
				}
			}
			if sub {
				continue
			}
		}
		fin = append(fin, d)
	}
	return fin, undecided
}

func keysI(m map[int64]bool) []int64 {
	var out []int64
	for k := range m {
		out = append(out, k)
	}
	sort.Slice(out, func(i, j int) bool { return out[i] < out[j] })
	return out
}

// firstNodeIn returns the node that executes first inside statement st: the graph node with the
// smallest source position inside it (init statement, else the leftmost condition leaf).
func firstNodeIn(g *flow.Graph, st ast.Node) *flow.Node {
	var best *flow.Node
	for _, n := range g.Nodes {
		a := n.Ast()
		if a == nil || n.Kind == flow.KTrue || n.Kind == flow.KFalse {
			continue
		}
		if st.Pos() <= a.Pos() && a.End() <= st.End() {
			if best == nil || a.Pos() < best.Ast().Pos() {
				best = n
			}
		}
	}
	return best
}

// R05.13: coordinates are compared exactly where a comparison removes information.
func (c *Ctx) r0513(pk *packages.Package) {
	const rule = "R05.13"
	c.R.Rule(rule, "svg.(*PathData).copyInstruction drops a zero-length line and turns L into H / V when a coordinate equals the current one. Relative coordinates add up: whatever such a decision discards is missing from every later point of the subpath. The function therefore compares coordinates only with == / != on float64 operands — it calls no predicate of two float64 values and compares no difference or math.Abs(…) with a bound (a tolerance of 1e-5 per segment drops `l4e-6 0` entirely and bends a shallow slope by 8e-4 after a hundred segments)")
	info := pk.TypesInfo
	fd := c.fn(rule, pk, "PathData.copyInstruction")
	if fd == nil {
		return
	}
	var bad []string
	n := 0
	isF64 := func(t types.Type) bool {
		b, ok := t.Underlying().(*types.Basic)
		return ok && b.Kind() == types.Float64
	}
	ast.Inspect(fd.Body, func(x ast.Node) bool {
		switch e := x.(type) {
		case *ast.CallExpr:
			fo, _ := callee(info, e).(*types.Func)
			if fo == nil {
				return true
			}
			sig := fo.Type().(*types.Signature)
			if sig.Results().Len() == 1 && sig.Params().Len() >= 2 {
				if rb, ok := sig.Results().At(0).Type().Underlying().(*types.Basic); ok && rb.Kind() == types.Bool {
					allF := true
					for i := 0; i < sig.Params().Len(); i++ {
						if !isF64(sig.Params().At(i).Type()) {
							allF = false
						}
					}
					if allF {
						bad = append(bad, "predicate "+str(e)+" at "+c.pos(e))
					}
				}
			}
			if calleeName(info, e) == "math.Abs" {
				bad = append(bad, str(e)+" at "+c.pos(e))
			}
		case *ast.BinaryExpr:
			switch e.Op {
			case token.EQL, token.NEQ:
				if tx, ty := info.TypeOf(e.X), info.TypeOf(e.Y); tx != nil && ty != nil && isF64(tx) && isF64(ty) {
					n++
				}
			case token.LSS, token.LEQ, token.GTR, token.GEQ:
				if tx, ty := info.TypeOf(e.X), info.TypeOf(e.Y); tx != nil && ty != nil && isF64(tx) && isF64(ty) {
					// an ordering of two float64 values: only a difference against a bound is a tolerance test
					if _, isSub := ast.Unparen(e.X).(*ast.BinaryExpr); isSub {
						bad = append(bad, "tolerance test "+str(e)+" at "+c.pos(e))
					}
					if _, isSub := ast.Unparen(e.Y).(*ast.BinaryExpr); isSub {
						bad = append(bad, "tolerance test "+str(e)+" at "+c.pos(e))
					}
				}
			}
		}
		return true
	})
	c.R.Check(len(bad) == 0 && n >= 10, rule, "svg.PathData.copyInstruction/coordinates compared exactly", c.pos(fd), fmt.Sprintf("%d exact float64 comparisons, no tolerance", n), "coordinates are compared approximately ("+strings.Join(bad, "; ")+"): displacements below the tolerance are discarded and the error accumulates over relative commands")
}

// R05.14: element depth is counted over balanced token pairs.
func (c *Ctx) r0514(pk *packages.Package) {
	const rule = "R05.14"
	c.R.Rule(rule, "svg.skipTag and svg.printTag find the end of an element by counting depth over the token stream. In the XML token stream an element is opened by one StartTagToken and closed by exactly one of EndTagToken / StartTagCloseVoidToken; StartTagCloseToken, StartTagClosePIToken and the other kinds belong to no pair. So the depth counter is raised only under StartTagToken and lowered (or the walk ended at depth 0) only under EndTagToken / StartTagCloseVoidToken — with any other kind in either set, `<metadata><?pi?>…</metadata>` ends the skip at the `?>` and the rest of the dropped element is printed")
	info := pk.TypesInfo
	for _, name := range []string{"skipTag", "printTag"} {
		fd := c.fn(rule, pk, name)
		if fd == nil {
			continue
		}
		// token kinds under which a node is reached: the case list of an enclosing `switch ….TokenType`, or the
		// ||-atoms `….TokenType == K` of an enclosing if whose then-branch holds the node
		var stack []ast.Node
		kindsOf := func() (map[string]bool, bool) {
			for i := len(stack) - 1; i > 0; i-- {
				switch p := stack[i-1].(type) {
				case *ast.CaseClause:
					// find the switch
					for j := i - 1; j > 0; j-- {
						if sw, ok := stack[j-1].(*ast.SwitchStmt); ok {
							if sel, ok := sw.Tag.(*ast.SelectorExpr); ok && sel.Sel.Name == "TokenType" {
								ks := map[string]bool{}
								for _, e := range p.List {
									ks[str(e)] = true
								}
								return ks, true
							}
							break
						}
					}
				case *ast.IfStmt:
					if stack[i] != ast.Node(p.Body) {
						continue
					}
					ks := map[string]bool{}
					pure := true
					var walk func(e ast.Expr)
					walk = func(e ast.Expr) {
						e = ast.Unparen(e)
						if b, ok := e.(*ast.BinaryExpr); ok {
							if b.Op == token.LOR {
								walk(b.X)
								walk(b.Y)
								return
							}
							if b.Op == token.EQL {
								for _, pair := range [][2]ast.Expr{{b.X, b.Y}, {b.Y, b.X}} {
									if sel, ok := pair[0].(*ast.SelectorExpr); ok && sel.Sel.Name == "TokenType" {
										ks[str(pair[1])] = true
										return
									}
								}
							}
						}
						pure = false
					}
					walk(p.Cond)
					if pure && len(ks) > 0 {
						return ks, true
					}
				}
			}
			return nil, false
		}
		ups, downs := map[string]bool{}, map[string]bool{}
		okAll := true
		nUp, nDown := 0, 0
		var visit func(n ast.Node) bool
		visit = func(n ast.Node) bool {
			if n == nil {
				stack = stack[:len(stack)-1]
				return false
			}
			stack = append(stack, n)
			if s, ok := n.(*ast.IncDecStmt); ok {
				if id, ok := s.X.(*ast.Ident); ok {
					if b, ok := info.TypeOf(id).Underlying().(*types.Basic); ok && b.Info()&types.IsInteger != 0 {
						ks, found := kindsOf()
						if !found {
							okAll = false
						}
						for k := range ks {
							if s.Tok == token.INC {
								ups[k] = true
							} else {
								downs[k] = true
							}
						}
						if s.Tok == token.INC {
							nUp++
						} else {
							nDown++
						}
					}
				}
			}
			return true
		}
		ast.Inspect(fd.Body, func(n ast.Node) bool {
			if n == nil {
				stack = stack[:len(stack)-1]
				return false
			}
			return visit(n)
		})
		want := func(m map[string]bool, names ...string) bool {
			if len(m) != len(names) {
				return false
			}
			for _, n := range names {
				if !m["xml."+n] {
					return false
				}
			}
			return true
		}
		good := okAll && nUp >= 1 && nDown >= 1 && want(ups, "StartTagToken") && want(downs, "EndTagToken", "StartTagCloseVoidToken")
		c.R.Check(good, rule, "svg."+name+"/depth pairs", c.pos(fd), "raised under StartTagToken, lowered under EndTagToken / StartTagCloseVoidToken", fmt.Sprintf("the depth counter is raised under %v and lowered under %v (every change under a token-kind test: %v): a kind that belongs to no open/close pair ends the element early or late", sortedKeys(ups), sortedKeys(downs), okAll))
	}
}

// R05.15: a command's coordinates are emitted in one piece.
func (c *Ctx) r0515(pk *packages.Package) {
	const rule = "R05.15"
	c.R.Rule(rule, "svg.(*PathData).copyInstruction gives the first coordinate pair of M/m the meaning `moveto` and all further pairs the meaning `lineto`, and it decides per call whether the command letter can be left out. It must therefore receive the whole coordinate run of a command at once: in ShortenPathData every call of copyInstruction inside the scanning loop is dominated by the outcome `a command letter was read` (the test on pathCmds[…]); the only other call follows the loop. A flush in the middle of a run (`M` followed by 2100 implicit lineto pairs, cut after 4200 numbers) turns a lineto into a moveto and `z` closes to the wrong point")
	fd := c.fn(rule, pk, "PathData.ShortenPathData")
	if fd == nil {
		return
	}
	info := pk.TypesInfo
	g := c.graph(pk, fd)
	var loop *ast.ForStmt
	ast.Inspect(fd.Body, func(q ast.Node) bool {
		if fs, ok := q.(*ast.ForStmt); ok && loop == nil {
			loop = fs
		}
		return true
	})
	if loop == nil {
		c.R.Unres(rule, "svg.PathData.ShortenPathData/scanning loop", c.pos(fd), "no for loop found")
		return
	}
	n, inLoop := 0, 0
	for _, y := range g.Nodes {
		a := y.Ast()
		if a == nil || y.Kind != flow.KStmt {
			continue
		}
		for _, call := range findCalls(info, a, false, load.Mod+"/svg.(PathData).copyInstruction") {
			n++
			if call.Pos() < loop.Pos() || call.End() > loop.End() {
				c.R.OK(rule, fmt.Sprintf("svg.PathData.ShortenPathData/copyInstruction#%d at a command boundary", n), c.pos(call), "after the scanning loop (end of the path data)")
				continue
			}
			inLoop++
			good := false
			for _, f := range g.DomFacts(y) {
				if f.Value && f.Test.Kind == flow.KCond && strings.Contains(str(f.Test.Expr), "pathCmds[") {
					good = true
				}
			}
			c.R.Check(good, rule, fmt.Sprintf("svg.PathData.ShortenPathData/copyInstruction#%d at a command boundary", n), c.pos(call), "only where a command letter was read", "the coordinates read so far are emitted although no new command letter was read: the rest of the same command is later emitted by a second call, whose first pair is taken for a moveto (M) and whose command letter is decided afresh")
		}
	}
	c.R.Floor(rule, "copyInstruction calls in ShortenPathData", n, 2)
	c.R.Floor(rule, "copyInstruction calls inside the scanning loop", inLoop, 1)
}

// R05.16: a token that was normalised in place is not written raw.
func (c *Ctx) r0516(pk *packages.Package) {
	const rule = "R05.16"
	c.R.Rule(rule, "svg.(*TokenBuffer).read normalises the value of every quoted attribute in place (parse.ReplaceMultipleWhitespaceAndEntities on a sub-slice of the token's Data), so the raw bytes of an attribute token are no longer what the input said: the tail of the old value is still there behind the shortened one. In package svg no write of <token>.Data can therefore be reached for an attribute token — every w.Write(t.Data) lies in a case of the token-kind switch other than AttributeToken, or behind a test that excludes it; attributes are printed from Text and AttrVal. (`<foreignObject><div title=\"a   b\">` was copied raw as `title=\"a b b\"`)")
	info := pk.TypesInfo
	// premise: read() rewrites AttrVal in place
	premise := false
	if rd := load.Func(pk, "TokenBuffer.read"); rd != nil {
		for _, call := range findCalls(info, rd.Body, false, load.ParseMod+".ReplaceMultipleWhitespaceAndEntities", load.ParseMod+".ReplaceMultipleWhitespace", load.ParseMod+".ReplaceEntities") {
			if strings.HasSuffix(nospace(str(call.Args[0])), ".AttrVal") {
				premise = true
			}
		}
	}
	if !premise {
		c.R.OK(rule, "svg.TokenBuffer.read/attribute values rewritten in place", "-", "not rewritten in place any more: raw attribute bytes are intact, nothing to check")
		return
	}
	n := 0
	for _, fd := range load.FuncDecls(pk) {
		if fd.Body == nil {
			continue
		}
		g := c.graph(pk, fd)
		for _, y := range g.Nodes {
			a := y.Ast()
			if a == nil || y.Kind != flow.KStmt {
				continue
			}
			flowInspectCalls(a, func(call *ast.CallExpr) {
				sel, ok := call.Fun.(*ast.SelectorExpr)
				if !ok || sel.Sel.Name != "Write" || len(call.Args) != 1 {
					return
				}
				arg, ok := ast.Unparen(call.Args[0]).(*ast.SelectorExpr)
				if !ok || arg.Sel.Name != "Data" {
					return
				}
				tn := namedTypeName(info.TypeOf(arg.X))
				if !strings.HasSuffix(tn, "/svg.Token") {
					return
				}
				n++
				tok := nospace(str(arg.X))
				excluded := false
				for _, f := range g.DomFacts(y) {
					switch f.Test.Kind {
					case flow.KCase:
						if f.Value && strings.HasSuffix(nospace(str(f.Test.Tag)), ".TokenType") && !strings.Contains(str(f.Test.Expr), "AttributeToken") {
							// a positive case of another kind; a clause listing several kinds is a chain of case tests, any of them is positive here
							excluded = true
						}
					case flow.KCond:
						s := nospace(str(f.Test.Expr))
						if !f.Value && s == tok+".TokenType==xml.AttributeToken" || f.Value && (s == tok+".TokenType!=xml.AttributeToken" || strings.HasPrefix(s, tok+".TokenType==xml.") && !strings.HasSuffix(s, "AttributeToken")) {
							excluded = true
						}
					}
				}
				if !excluded {
					// the attribute kind is handled by a case that does not fall through to this write
					var attrCases []*flow.Node
					for _, k := range g.Nodes {
						if k.Kind == flow.KCase && nospace(str(k.Tag)) == tok+".TokenType" && strings.Contains(str(k.Expr), "AttributeToken") {
							for _, sc := range k.Succs {
								if sc.Kind == flow.KTrue {
									attrCases = append(attrCases, sc)
								}
							}
						}
					}
					if len(attrCases) > 0 {
						redefines := func(q *flow.Node) bool {
							if as, ok := q.Stmt.(*ast.AssignStmt); ok && q.Kind == flow.KStmt {
								for _, l := range as.Lhs {
									if nospace(str(l)) == tok {
										return true
									}
								}
							}
							return false
						}
						if g.Path(flow.Search{From: attrCases, Goal: func(q *flow.Node) bool { return q == y }, Avoid: redefines}) == nil {
							excluded = true
						}
					}
				}
				c.R.Check(excluded, rule, fmt.Sprintf("svg.%s/raw write of %s.Data#%d not for an attribute", load.FuncName(fd), tok, n), c.pos(call), "in a case of another token kind", "the raw bytes of the token are written whatever its kind: for an attribute they have been rewritten in place by TokenBuffer.read and contain the tail of the old value (`title=\"a   b\"` → `title=\"a b b\"`)")
			})
		}
	}
	c.R.Floor(rule, "raw token writes in package svg", n, 5)
}

// hexCompaction (R04.14 for css, R05.17 for svg): #rrggbb becomes #rgb only when the digits of every pair are equal.
func (c *Ctx) hexCompaction(rule, rel string, floor int) {
	c.R.Rule(rule, "package "+rel+": a hex colour is compacted in place — digit i of the short form is fetched from position 2i-1 (`v[2] = v[3]`, `v[3] = v[5]`, `v[4] = v[7]`) and the value is cut to `v[:k]` (k = 4 or 5). That is the same colour only when both digits of every channel are equal, so the cut is dominated by the true outcomes of v[1]==v[2], v[3]==v[4], v[5]==v[6] (and v[7]==v[8] for k = 5), and the stores are exactly the ones named. `#aabbc1` must not become `#abc`")
	pk := c.pkg(rule, rel)
	if pk == nil {
		return
	}
	info := pk.TypesInfo
	n := 0
	for _, fd := range load.FuncDecls(pk) {
		if fd.Body == nil {
			continue
		}
		var g *flow.Graph
		seen := 0
		ast.Inspect(fd.Body, func(x ast.Node) bool {
			blk, ok := x.(*ast.BlockStmt)
			if !ok {
				return true
			}
			// stores v[i] = v[j] and a cut v = v[:k] in one block
			var v string
			var cut *ast.AssignStmt
			var k int64
			stores := map[int64]int64{}
			for _, st := range blk.List {
				as, ok := st.(*ast.AssignStmt)
				if !ok || len(as.Lhs) != 1 || len(as.Rhs) != 1 {
					continue
				}
				if li, ok := as.Lhs[0].(*ast.IndexExpr); ok {
					if ri, ok := ast.Unparen(as.Rhs[0]).(*ast.IndexExpr); ok && nospace(str(li.X)) == nospace(str(ri.X)) {
						a, oka := intConst(info, li.Index)
						b, okb := intConst(info, ri.Index)
						if oka && okb {
							if v == "" || v == nospace(str(li.X)) {
								v = nospace(str(li.X))
								stores[a] = b
							}
						}
					}
				} else if se, ok := ast.Unparen(as.Rhs[0]).(*ast.SliceExpr); ok && se.Low == nil && se.High != nil && nospace(str(as.Lhs[0])) == nospace(str(se.X)) {
					if kk, ok := intConst(info, se.High); ok && (kk == 4 || kk == 5) && (v == "" || v == nospace(str(se.X))) {
						v, cut, k = nospace(str(se.X)), as, kk
					}
				}
			}
			if cut == nil || len(stores) == 0 {
				return true
			}
			n++
			seen++
			if g == nil {
				g = c.graph(pk, fd)
			}
			construct := fmt.Sprintf("%s.%s/%s cut to %d bytes#%d", pk.Name, load.FuncName(fd), v, k, seen)
			// stores exactly i <- 2i-1 for i = 2..k-1
			okStores := int64(len(stores)) == k-2
			for i := int64(2); i < k; i++ {
				if stores[i] != 2*i-1 {
					okStores = false
				}
			}
			have := map[string]bool{}
			if y := g.NodeOf(cut); y != nil {
				for _, f := range g.DomFacts(y) {
					if !f.Value || f.Test.Kind != flow.KCond {
						continue
					}
					b, ok := ast.Unparen(f.Test.Expr).(*ast.BinaryExpr)
					if !ok || b.Op != token.EQL {
						continue
					}
					xi, ok1 := ast.Unparen(b.X).(*ast.IndexExpr)
					yi, ok2 := ast.Unparen(b.Y).(*ast.IndexExpr)
					if !ok1 || !ok2 || nospace(str(xi.X)) != v || nospace(str(yi.X)) != v {
						continue
					}
					a, oka := intConst(info, xi.Index)
					bb, okb := intConst(info, yi.Index)
					if oka && okb {
						if a > bb {
							a, bb = bb, a
						}
						have[fmt.Sprintf("%d=%d", a, bb)] = true
					}
				}
			}
			var missing []string
			for i := int64(1); i < k; i++ {
				if !have[fmt.Sprintf("%d=%d", 2*i-1, 2*i)] {
					missing = append(missing, fmt.Sprintf("%s[%d]==%s[%d]", v, 2*i-1, v, 2*i))
				}
			}
			c.R.Check(okStores && len(missing) == 0, rule, construct, c.pos(cut), "all pairs compared, digits fetched from 2i-1", fmt.Sprintf("the colour is shortened although not every channel is known to have two equal digits (missing: %s; stores as expected: %v): `#aabbc1` would become `#abc`", strings.Join(missing, ", "), okStores))
			return true
		})
	}
	c.R.Floor(rule, "hex compaction sites", n, floor)
}

// R05.18: in the colour branch of the SVG minifier the value changes only by a table entry or a judged compaction.
func (c *Ctx) r0518(pk *packages.Package) {
	const rule = "R05.18"
	c.R.Rule(rule, "svg.Minifier.Minify, attribute values behind the true outcome of `colorAttrMap[attr]`: the value is reassigned only to (a) the result of a look-up in css.ShortenColorHex / css.ShortenColorName (tables checked by R17.colors) or (b) the cut of a judged hex compaction (R05.17), and its bytes are stored to only as part of (b). Any other rewrite of a colour value — a helper function, a case mapping — cannot be judged by these rules and is reported as undecided rather than passed")
	info := pk.TypesInfo
	fd := c.fn(rule, pk, "Minifier.Minify")
	if fd == nil {
		return
	}
	g := c.graph(pk, fd)
	inColour := func(y *flow.Node) bool {
		for _, f := range g.DomFacts(y) {
			if f.Value && f.Test.Kind == flow.KCond && strings.HasPrefix(nospace(str(f.Test.Expr)), "colorAttrMap[") {
				return true
			}
		}
		return false
	}
	n := 0
	for _, y := range g.Nodes {
		as, ok := y.Stmt.(*ast.AssignStmt)
		if !ok || y.Kind != flow.KStmt || !inColour(y) {
			continue
		}
		for i, l := range as.Lhs {
			base := l
			isElem := false
			if ie, ok := l.(*ast.IndexExpr); ok {
				base, isElem = ie.X, true
			}
			if nospace(str(base)) != "val" {
				continue
			}
			n++
			var rhs ast.Expr
			if len(as.Rhs) == len(as.Lhs) {
				rhs = as.Rhs[i]
			}
			ok := false
			what := "-"
			if rhs != nil {
				what = str(rhs)
				switch r := ast.Unparen(rhs).(type) {
				case *ast.Ident:
					// defined by a look-up in one of the two tables
					if o := info.Uses[r]; o != nil {
						ast.Inspect(fd.Body, func(z ast.Node) bool {
							d, isAs := z.(*ast.AssignStmt)
							if !isAs || len(d.Rhs) != 1 {
								return true
							}
							for _, dl := range d.Lhs {
								if id, isId := dl.(*ast.Ident); isId && info.Defs[id] == o {
									if ie, isIdx := ast.Unparen(d.Rhs[0]).(*ast.IndexExpr); isIdx {
										t := nospace(str(ie.X))
										if t == "css.ShortenColorHex" || t == "css.ShortenColorName" {
											ok = true
										}
									}
								}
							}
							return true
						})
					}
				case *ast.SliceExpr:
					if nospace(str(r.X)) == "val" && r.Low == nil {
						if k, isK := intConst(info, r.High); isK && (k == 4 || k == 5) {
							ok = true // judged by R05.17
						}
					}
				case *ast.IndexExpr:
					if isElem && nospace(str(r.X)) == "val" {
						ok = true // a digit move, judged by R05.17 together with its cut
					}
				}
			}
			if ok {
				c.R.OK(rule, fmt.Sprintf("svg.Minifier.Minify/colour value changed by %s#%d", nospace(what), n), c.pos(as), "table entry or judged compaction")
			} else {
				c.R.Unres(rule, fmt.Sprintf("svg.Minifier.Minify/colour value changed by %s#%d", nospace(what), n), c.pos(as), "a colour value is rewritten by `"+stmtText(as)+"`, which is neither a look-up in the colour tables nor the in-place compaction judged by R05.17: whether it yields the same colour cannot be decided by this rule")
			}
		}
	}
	c.R.Floor(rule, "rewrites of a colour value", n, 4)
}

// R05.19 (= R11.10): the text of a style element is not white-space-collapsed.
func (c *Ctx) r0519(pk *packages.Package, rule string) {
	c.R.Rule(rule, "the text of an SVG style element is a style sheet, in which runs of white space are significant inside strings (`content:\"x    y\"`, a quoted font family); the CSS minifier removes the insignificant ones itself. In svg.(*Minifier).Minify every call of parse.ReplaceMultipleWhitespace / parse.ReplaceMultipleWhitespaceAndEntities on the data of a text or CDATA token is dominated by the outcome `tag != Style` — the collapse is for character data of other elements only")
	info := pk.TypesInfo
	fd := c.fn(rule, pk, "Minifier.Minify")
	if fd == nil {
		return
	}
	g := c.graph(pk, fd)
	n := 0
	for _, y := range g.Nodes {
		a := y.Ast()
		if a == nil || y.Kind != flow.KStmt {
			continue
		}
		calls := findCalls(info, a, false, load.ParseMod+".ReplaceMultipleWhitespace", load.ParseMod+".ReplaceMultipleWhitespaceAndEntities")
		if len(calls) == 0 {
			continue
		}
		// only character data: the argument is t.Data / t.Text
		arg := nospace(str(calls[0].Args[0]))
		if arg != "t.Data" && arg != "t.Text" {
			continue
		}
		inText := false
		notStyle := false
		for _, f := range g.DomFacts(y) {
			if f.Test.Kind == flow.KCase && f.Value {
				cs := nospace(str(f.Test.Expr))
				if cs == "xml.TextToken" || cs == "xml.CDATAToken" {
					inText = true
				}
			}
			if f.Test.Kind == flow.KCond {
				cs := nospace(str(f.Test.Expr))
				if (cs == "tag==Style" || cs == "Style==tag") && !f.Value || (cs == "tag!=Style" || cs == "Style!=tag") && f.Value {
					notStyle = true
				}
			}
		}
		if !inText {
			continue
		}
		n++
		c.R.Check(notStyle, rule, fmt.Sprintf("svg.Minifier.Minify/white space of character data collapsed#%d not in a style element", n), c.pos(a), "behind tag != Style", "the white space of a text / CDATA token is collapsed also when it is the content of a style element: `<style>a{content:\"x    y\"}</style>` → `\"x y\"`, a different generated content (and a quoted font family `\"My  Font\"` no longer names the font)")
	}
	c.R.Floor(rule, "white space collapses of character data", n, 2)
}

// R05.20: numbers are shortened only in attributes that hold numbers.
func (c *Ctx) r0520(pk *packages.Package) {
	const rule = "R05.20"
	c.R.Rule(rule, "svg.(*Minifier).Minify rewrites an attribute value as a number with a unit (shortenDimension: leading zeros, trailing zeros, `px`, Precision) when it *looks like* one. Text-valued attributes can look like one — font-family=\"007\", unicode=\"1.0\", glyph-name, target, title-like metadata — and are then changed in meaning. The shortening applied to a whole attribute value must be licensed by what the attribute is: the call is dominated by a positive test of the attribute (a look-up in a set of numeric attributes, or comparisons `attr == K`), not merely by exclusions (`attr != Version && !isNameAttr(…)`)")
	info := pk.TypesInfo
	fd := c.fn(rule, pk, "Minifier.Minify")
	if fd == nil {
		return
	}
	g := c.graph(pk, fd)
	n := 0
	for _, y := range g.Nodes {
		a := y.Ast()
		if a == nil || y.Kind != flow.KStmt {
			continue
		}
		calls := findCalls(info, a, false, load.Mod+"/svg.(Minifier).shortenDimension")
		if len(calls) == 0 || nospace(str(calls[0].Args[0])) != "val" {
			continue
		}
		n++
		positive := false
		for _, f := range g.DomFacts(y) {
			if f.Test.Kind != flow.KCond {
				continue
			}
			cs := nospace(str(f.Test.Expr))
			if f.Value && (strings.HasPrefix(cs, "attr==") || strings.Contains(cs, "[attr]")) {
				positive = true
			}
		}
		c.R.Check(positive, rule, fmt.Sprintf("svg.Minifier.Minify/whole attribute value shortened as a number#%d only for numeric attributes", n), c.pos(a), "behind a positive test of the attribute", "every attribute whose value looks like a number is rewritten as one, except the listed exclusions: `<text font-family=\"007\">` → `font-family=\"7\"`, `<glyph unicode=\"1.0\">` → `unicode=\"1\"`, `<a target=\"1.0\">` → `target=\"1\"`")
	}
	c.R.Floor(rule, "whole-value number shortenings", n, 1)
}

// R05.22: path data with character references is not handed to the path parser.
func (c *Ctx) r0522(pk *packages.Package) {
	const rule = "R05.22"
	c.R.Rule(rule, "the XML lexer returns attribute values with their character references undecoded, and svg.(*Minifier).Minify does not decode them. The path data parser reads `&#13;` (a carriage return, white space in path data) as the number 13 and drops what it cannot parse: `d=\"M0 0&#13;L10 10\"` → `d=\"L10 10\"`. Every call of ShortenPathData in Minify is dominated by a test of the value for the byte '&' (the rewrite is skipped for such values)")
	info := pk.TypesInfo
	fd := c.fn(rule, pk, "Minifier.Minify")
	if fd == nil {
		return
	}
	g := c.graph(pk, fd)
	n := 0
	for _, y := range g.Nodes {
		a := y.Ast()
		if a == nil || y.Kind != flow.KStmt {
			continue
		}
		for _, call := range findCalls(info, a, false, load.Mod+"/svg.(PathData).ShortenPathData") {
			if len(call.Args) != 1 {
				continue
			}
			n++
			arg := nospace(str(call.Args[0]))
			good := false
			for _, f := range g.DomFacts(y) {
				if f.Test.Kind != flow.KCond {
					continue
				}
				chars, strs, _ := c.constsIn(pk, f.Test.Expr)
				if (chars['&'] || strs["&"]) && strings.Contains(nospace(str(f.Test.Expr)), arg) {
					good = true
				}
			}
			c.R.Check(good, rule, fmt.Sprintf("svg.Minifier.Minify/path data#%d without character references", n), c.pos(call), "behind a test of "+arg+" for '&'",
				"the path data is parsed although it may contain character references, which are not decoded: the digits of `&#13;` are read as a coordinate and the commands in front of it are lost")
		}
	}
	c.R.Floor(rule, "calls of ShortenPathData in Minify", n, 1)
}

// R05.23 (= R11.12): the element context ends with the element.
func (c *Ctx) r0523(pk *packages.Package, rule string) {
	c.R.Rule(rule, "svg.(*Minifier).Minify remembers the element it is in (`tag`) to treat the text of a style element as a style sheet. An end tag resets it; when the minifier swallows the end tag itself — `<style></style>` is collapsed to `<style/>` — the reset has to happen there: from the write of the void close (`/>`) in the StartTagCloseToken case every path to the next token passes an assignment to the element variable. Otherwise the character data that follows the empty element is still taken for its content: `<style></style><![CDATA[ a { color : red } ]]>` had the CDATA section minified as CSS")
	info := pk.TypesInfo
	fd := c.fn(rule, pk, "Minifier.Minify")
	if fd == nil {
		return
	}
	g := c.graph(pk, fd)
	// the element variable: assigned from t.Hash in the StartTagToken case
	var tagVar types.Object
	ast.Inspect(fd.Body, func(x ast.Node) bool {
		as, ok := x.(*ast.AssignStmt)
		if !ok || len(as.Lhs) != 1 || len(as.Rhs) != 1 || nospace(str(as.Rhs[0])) != "t.Hash" {
			return true
		}
		if id, ok := as.Lhs[0].(*ast.Ident); ok && strings.Contains(c.caseLabel(as), "xml.StartTagToken") {
			tagVar = info.Uses[id]
		}
		return true
	})
	if tagVar == nil {
		c.R.Unres(rule, "svg.Minifier.Minify/element variable", c.pos(fd), "no assignment `tag = t.Hash` in the StartTagToken case")
		return
	}
	isHead := func(q *flow.Node) bool {
		a := q.Ast()
		return a != nil && q.Kind == flow.KStmt && strings.Contains(nospace(str0(a)), ".Shift()") && c.enclosingLoopDepth(a) == 1
	}
	n := 0
	for _, y := range g.Nodes {
		a := y.Ast()
		if a == nil || y.Kind != flow.KStmt || !strings.Contains(c.caseLabel(a), "xml.StartTagCloseToken") {
			continue
		}
		void := false
		for _, ce := range allCalls(a) {
			if len(ce.Args) == 1 {
				if s, ok := c.exprBytesText(pk, ce.Args[0]); ok && s == "/>" {
					void = true
				}
			}
		}
		if !void {
			continue
		}
		n++
		p := g.Path(flow.Search{From: []*flow.Node{y}, Goal: isHead, Avoid: func(q *flow.Node) bool {
			as, ok := q.Stmt.(*ast.AssignStmt)
			if !ok || q.Kind != flow.KStmt {
				return false
			}
			for _, l := range as.Lhs {
				if id, ok := l.(*ast.Ident); ok && info.Uses[id] == tagVar {
					return true
				}
			}
			return false
		}})
		c.R.Check(p == nil, rule, fmt.Sprintf("svg.Minifier.Minify/collapsed element#%d resets the element context", n), c.pos(a), "the element variable is assigned before the next token", "an element whose end tag the minifier swallows leaves `"+c.P.NameOf(tagVar)+"` set: what follows `<style></style>` is still treated as the text of a style element: "+pathStr(c, g, p))
	}
	c.R.Floor(rule, "collapses of an empty element to a void tag", n, 1)
}

// R05.24: a DOCTYPE with an internal subset is kept, whatever white space precedes its `>`.
func (c *Ctx) r0524(pk *packages.Package) {
	const rule = "R05.24"
	c.R.Rule(rule, "svg.(*Minifier).Minify drops the DOCTYPE unless it has an internal subset (`[<!ENTITY x \"bar\">]`), whose entity declarations the document's references need. XML allows white space between the `]` and the `>` (doctypedecl ::= … ('[' intSubset ']' S?)? '>'). In case xml.DOCTYPEToken the byte that is compared with ']' is read from a value that went through a white space trimming helper (parse.TrimWhitespace, bytes.TrimSpace, bytes.TrimRight), or the subset is looked for by its opening '[' (bytes.IndexByte / bytes.Contains)")
	info := pk.TypesInfo
	fd := c.fn(rule, pk, "Minifier.Minify")
	if fd == nil {
		return
	}
	isTrim := func(e ast.Expr) bool {
		ce, ok := ast.Unparen(e).(*ast.CallExpr)
		if !ok {
			return false
		}
		nm := calleeName(info, ce)
		return strings.HasSuffix(nm, ".TrimWhitespace") || nm == "bytes.TrimSpace" || nm == "bytes.TrimRight" || nm == "bytes.TrimRightFunc"
	}
	var trimmed func(e ast.Expr, depth int) bool
	trimmed = func(e ast.Expr, depth int) bool {
		e = ast.Unparen(e)
		if isTrim(e) {
			return true
		}
		if id, ok := e.(*ast.Ident); ok && depth < 3 {
			if d := c.singleDef(pk, id); d != nil {
				return trimmed(d, depth+1)
			}
		}
		return false
	}
	n := 0
	ast.Inspect(fd.Body, func(x ast.Node) bool {
		cc, ok := x.(*ast.CaseClause)
		if !ok || len(cc.List) != 1 || !strings.HasSuffix(nospace(str(cc.List[0])), ".DOCTYPEToken") {
			return true
		}
		n++
		good, seen := false, false
		ast.Inspect(cc, func(z ast.Node) bool {
			switch v := z.(type) {
			case *ast.BinaryExpr:
				if v.Op != token.EQL && v.Op != token.NEQ {
					return true
				}
				for _, pair := range [][2]ast.Expr{{v.X, v.Y}, {v.Y, v.X}} {
					chars, _, _ := c.constsIn(pk, pair[1])
					ix, ok := ast.Unparen(pair[0]).(*ast.IndexExpr)
					if !ok || !chars[']'] {
						continue
					}
					seen = true
					if trimmed(ix.X, 0) {
						good = true
					}
				}
			case *ast.CallExpr:
				nm := calleeName(info, v)
				if nm == "bytes.IndexByte" || nm == "bytes.Contains" || nm == "bytes.ContainsRune" || nm == "bytes.LastIndexByte" {
					chars, strs, _ := c.constsIn(pk, v)
					if chars['['] || strs["["] {
						good, seen = true, true
					}
				}
				if nm == "bytes.HasSuffix" {
					chars, strs, _ := c.constsIn(pk, v)
					if (chars[']'] || strs["]"]) && len(v.Args) == 2 {
						seen = true
						if trimmed(v.Args[0], 0) {
							good = true
						}
					}
				}
			}
			return true
		})
		if !seen {
			// written whatever it holds, or dropped whatever it holds: the latter is R05.1's concern
			written := len(findCalls(info, cc, false, "(io.Writer).Write")) > 0
			c.R.Check(written, rule, "svg.Minifier.Minify/case xml.DOCTYPEToken/internal subset recognised behind white space", c.pos(cc), "no test of the subset: the DOCTYPE is written as it is", "the DOCTYPE is dropped without a look at its internal subset")
			return false
		}
		c.R.Check(good, rule, "svg.Minifier.Minify/case xml.DOCTYPEToken/internal subset recognised behind white space", c.pos(cc), "the `]` is looked for behind trimmed white space",
			"the internal subset is recognised by the last byte of the DOCTYPE's text being `]`: `<!DOCTYPE svg [<!ENTITY x \"bar\">] >` ends in a space, the DOCTYPE is dropped, and the reference `&x;` is left undefined — the output is not well-formed")
		return false
	})
	c.R.Floor(rule, "DOCTYPE cases", n, 1)
}

// R05.25: a smooth curve reflects the control point of the command written in front of it.
func (c *Ctx) r0525(pk *packages.Package) {
	const rule = "R05.25"
	c.R.Rule(rule, "S/s and T/t take their first control point from the command in front of them: the reflection of its last control point when that is a curve of the same family, the current point otherwise. copyInstruction turns degenerate curves into lines and drops zero-length lines, which changes what a following smooth command reflects: `C0 0 0 0 10 10S20 0 30 30` became `L10 10S20 0 30 30` (control point (10,10) instead of (20,20)), `C…l0 0s…` became `C…s…`. (a) ShortenPathData hands the command that follows to copyInstruction — a receiver field assigned in front of every call — and copyInstruction reads it; (b) the `continue` that drops a zero-length line is dominated by the false outcome of a test derived from that field, and no path reaches it from a reset of the control point fields (an assignment that is not a restoration of a value saved at the top of the iteration) without passing such a restoration — what is written next follows what was written before; (c) every curve-to-line conversion whose condition compares a control point with the start point mentions a test derived from the field")
	info := pk.TypesInfo
	fdS := c.fn(rule, pk, "PathData.ShortenPathData")
	fdC := c.fn(rule, pk, "PathData.copyInstruction")
	if fdS == nil || fdC == nil {
		return
	}
	// (a)
	var field *types.Var
	ncalls, okCalls := 0, true
	ast.Inspect(fdS.Body, func(x ast.Node) bool {
		bl, ok := x.(*ast.BlockStmt)
		if !ok {
			return true
		}
		for i, st := range bl.List {
			if len(findCalls(info, st, false, load.Mod+"/svg.(PathData).copyInstruction")) == 0 {
				continue
			}
			if _, isBlockish := st.(*ast.IfStmt); isBlockish {
				continue // the call is deeper
			}
			if _, isFor := st.(*ast.ForStmt); isFor {
				continue
			}
			ncalls++
			var f *types.Var
			if i > 0 {
				if as, ok := bl.List[i-1].(*ast.AssignStmt); ok && len(as.Lhs) == 1 {
					if sel, ok := as.Lhs[0].(*ast.SelectorExpr); ok {
						if v, ok := info.Uses[sel.Sel].(*types.Var); ok && v.IsField() {
							f = v
						}
					}
				}
			}
			if f == nil || field != nil && f != field {
				okCalls = false
			} else {
				field = f
			}
		}
		return true
	})
	reads := false
	if field != nil {
		ast.Inspect(fdC.Body, func(x ast.Node) bool {
			if sel, ok := x.(*ast.SelectorExpr); ok && info.Uses[sel.Sel] == field {
				reads = true
			}
			return true
		})
	}
	c.R.Check(ncalls >= 2 && okCalls && reads, rule, "svg.PathData.ShortenPathData/the command that follows is handed to copyInstruction", c.pos(fdS), fmt.Sprintf("%d calls, each behind an assignment of one receiver field that copyInstruction reads", ncalls),
		"copyInstruction does not know which command follows the one it rewrites: it cannot tell whether a degenerate curve may become a line (`M0 0C0 0 0 0 10 10S20 0 30 30` → `M0 0 10 10S20 0 30 30`, the S now starts at (10,10) instead of (20,20))")
	if field == nil {
		return
	}
	derived := func(e ast.Expr) bool {
		hit := false
		var walk func(e ast.Expr, depth int)
		walk = func(e ast.Expr, depth int) {
			ast.Inspect(e, func(z ast.Node) bool {
				switch v := z.(type) {
				case *ast.SelectorExpr:
					if info.Uses[v.Sel] == field {
						hit = true
					}
				case *ast.Ident:
					if _, ok := info.Uses[v].(*types.Var); ok && depth < 3 {
						if d := c.singleDef(pk, v); d != nil {
							walk(d, depth+1)
						}
					}
				}
				return !hit
			})
		}
		walk(e, 0)
		return hit
	}
	g := c.graph(pk, fdC)
	isCtl := func(e ast.Expr) bool {
		sel, ok := ast.Unparen(e).(*ast.SelectorExpr)
		if !ok {
			return false
		}
		v, ok := info.Uses[sel.Sel].(*types.Var)
		if !ok || !v.IsField() || !isFloat(v.Type()) {
			return false
		}
		// the control point fields: the float fields copyInstruction sets to NaN
		return c.nanFields(pk, fdC)[v]
	}
	// saved copies: locals defined from a control point field
	isSaved := func(e ast.Expr) bool {
		id, ok := ast.Unparen(e).(*ast.Ident)
		if !ok {
			return false
		}
		d := c.singleDef(pk, id)
		return d != nil && isCtl(d)
	}
	var resets, restores []*flow.Node
	for _, y := range g.Nodes {
		as, ok := y.Stmt.(*ast.AssignStmt)
		if !ok || y.Kind != flow.KStmt || len(as.Lhs) != len(as.Rhs) {
			continue
		}
		anyCtl, allSaved := false, true
		for i, l := range as.Lhs {
			if isCtl(l) {
				anyCtl = true
				if !isSaved(as.Rhs[i]) {
					allSaved = false
				}
			}
		}
		if !anyCtl {
			continue
		}
		if allSaved {
			restores = append(restores, y)
		} else {
			resets = append(resets, y)
		}
	}
	// (b)
	nd := 0
	for _, y := range g.Nodes {
		br, ok := y.Stmt.(*ast.BranchStmt)
		if !ok || y.Kind != flow.KStmt || br.Tok != token.CONTINUE {
			continue
		}
		nd++
		guarded := false
		for _, f := range g.DomFacts(y) {
			if f.Test.Kind == flow.KCond && derived(f.Test.Expr) {
				e, val := ast.Unparen(f.Test.Expr), f.Value
				for {
					u, ok := e.(*ast.UnaryExpr)
					if !ok || u.Op != token.NOT {
						break
					}
					e, val = ast.Unparen(u.X), !val
				}
				if !val {
					guarded = true
				}
			}
		}
		key := fmt.Sprintf("svg.PathData.copyInstruction/dropped command#%d", nd)
		c.R.Check(guarded, rule, key+" not in front of a smooth curve", c.pos(br), "behind the false outcome of a test of the command that follows",
			"a zero-length line is dropped whatever follows: in `C0 10 10 10 10 0l0 0s10 -10 10 0` the s starts at the current point, in the output `C0 10 10 10 10 0s10-10 10 0` it reflects the control point of the C")
		var bad []string
		for _, r := range resets {
			isRestore := func(q *flow.Node) bool {
				for _, s := range restores {
					if s == q {
						return true
					}
				}
				return false
			}
			if p := g.Path(flow.Search{From: []*flow.Node{r}, Goal: func(q *flow.Node) bool { return q == y }, Avoid: isRestore}); p != nil {
				bad = append(bad, c.pos(r.Stmt))
			}
		}
		c.R.Check(len(bad) == 0, rule, key+" leaves the control point state as it was", c.pos(br), fmt.Sprintf("%d resets, each followed by a restoration on the way to the drop", len(resets)),
			"the control point fields are reset ("+strings.Join(bad, ", ")+") for a command that is then dropped: the next command follows the previous one in the output, but is compared with the state of the dropped one — `C0 10 10 10 10 0l0 0c0 0 10 -10 10 0` became `C0 10 10 10 10 0s10-10 10 0`")
	}
	c.R.Floor(rule, "dropped commands in copyInstruction", nd, 1)
	// (c)
	nc := 0
	recv := ""
	if fdC.Recv != nil && len(fdC.Recv.List) > 0 && len(fdC.Recv.List[0].Names) > 0 {
		recv = fdC.Recv.List[0].Names[0].Name
	}
	ast.Inspect(fdC.Body, func(x ast.Node) bool {
		ifs, ok := x.(*ast.IfStmt)
		if !ok {
			return true
		}
		toLine := false
		for _, st := range ifs.Body.List {
			ast.Inspect(st, func(z ast.Node) bool {
				if as, ok := z.(*ast.AssignStmt); ok && len(as.Rhs) == 1 {
					if chars, _, _ := c.constsIn(pk, as.Rhs[0]); chars['l'] || chars['L'] {
						toLine = true
					}
				}
				return true
			})
		}
		cs := nospace(str(ifs.Cond))
		if !toLine || !(strings.Contains(cs, "=="+recv+".x") && strings.Contains(cs, "=="+recv+".y")) {
			return true
		}
		// only conversions of curves: the condition mentions a curve command letter
		chars, _, _ := c.constsIn(pk, ifs.Cond)
		if !(chars['C'] || chars['Q'] || chars['S'] || chars['T']) {
			return true
		}
		nc++
		c.R.Check(derived(ifs.Cond), rule, fmt.Sprintf("svg.PathData.copyInstruction/curve to line#%d looks at the command that follows", nc), c.pos(ifs), "the condition mentions the command that follows",
			"a curve whose last control point lies on its start point becomes a line whatever follows: a smooth curve behind it reflects that control point, behind a line it starts at the current point (`M0 0Q0 0 10 10T20 0` → `M0 0 10 10 20 0`, a straight line instead of a curve)")
		return true
	})
	c.R.Floor(rule, "curve to line conversions", nc, 2)
}

// nanFields returns the float fields of the receiver that fd sets to math.NaN().
func (c *Ctx) nanFields(pk *packages.Package, fd *ast.FuncDecl) map[*types.Var]bool {
	info := pk.TypesInfo
	out := map[*types.Var]bool{}
	ast.Inspect(fd.Body, func(x ast.Node) bool {
		as, ok := x.(*ast.AssignStmt)
		if !ok || len(as.Lhs) != len(as.Rhs) {
			return true
		}
		for i, l := range as.Lhs {
			sel, ok := l.(*ast.SelectorExpr)
			if !ok {
				continue
			}
			if ce, ok := ast.Unparen(as.Rhs[i]).(*ast.CallExpr); ok && calleeName(info, ce) == "math.NaN" {
				if v, ok := info.Uses[sel.Sel].(*types.Var); ok && v.IsField() {
					out[v] = true
				}
			}
		}
		return true
	})
	return out
}

func isFloat(t types.Type) bool {
	b, ok := t.Underlying().(*types.Basic)
	return ok && b.Info()&types.IsFloat != 0
}

// R05.26 (= R09.27): a coordinate that is not finite is not formatted.
func (c *Ctx) r0526(pk *packages.Package, rule string) {
	c.R.Rule(rule, "the alternative (absolute ↔ relative) form of a path command is computed in float64 and formatted with strconv.AppendFloat; a coordinate such as 1e999 is +Inf, and so is every sum with it: `M0 0L1e999 5` became `M0 0lInf 5`, which is not path data. Every AppendFloat call in package svg whose value is computed (not a constant) is dominated by the false outcome of a math.IsInf / math.IsNaN test of that value")
	info := pk.TypesInfo
	n := 0
	for _, fd := range load.FuncDecls(pk) {
		if fd.Body == nil {
			continue
		}
		calls := findCalls(info, fd.Body, false, "strconv.AppendFloat")
		if len(calls) == 0 {
			continue
		}
		g := c.graph(pk, fd)
		for _, call := range calls {
			if len(call.Args) < 2 {
				continue
			}
			if _, isK := info.Types[call.Args[1]]; isK && info.Types[call.Args[1]].Value != nil {
				continue
			}
			n++
			val := nospace(str(call.Args[1]))
			y := g.NodeOf(call)
			inf, nan := false, false
			if y != nil {
				for _, f := range g.DomFacts(y) {
					if f.Value || f.Test.Kind != flow.KCond {
						continue
					}
					ce, ok := ast.Unparen(f.Test.Expr).(*ast.CallExpr)
					if !ok || len(ce.Args) < 1 || nospace(str(ce.Args[0])) != val {
						continue
					}
					switch calleeName(info, ce) {
					case "math.IsInf":
						inf = true
					case "math.IsNaN":
						nan = true
					}
				}
			}
			c.R.Check(inf && nan, rule, fmt.Sprintf("svg.%s/formatted coordinate#%d is finite", load.FuncName(fd), n), c.pos(call), "behind !math.IsInf && !math.IsNaN of "+val,
				"a computed coordinate is formatted without a test that it is finite: `<path d=\"M0 0L1e999 5\"/>` is written as `d=\"M0 0lInf 5\"`")
		}
	}
	c.R.Floor(rule, "formatted computed coordinates", n, 1)
}

// R05.27: an attribute value is not case-folded as a whole.
func (c *Ctx) r0527(pk *packages.Package) {
	const rule = "R05.27"
	c.R.Rule(rule, "SVG attribute values hold case-sensitive parts: fragment identifiers, custom property names (`var(--brandBlue)`), colour profile names (`icc-color(PhotoRGB, …)`). parse.ToLower / ToUpper of the dependency rewrite their argument in place. In package svg no such call (and no `v = bytes.ToLower(v)`) is applied to a value as a whole — a variable one of whose definitions reads a token's AttrVal, Data or Text — except behind the true outcome of a test of the value against '#' (the digits of a hex colour are case-insensitive); the unit of a dimension, a slice of the value, may be folded")
	info := pk.TypesInfo
	examined, whole := 0, 0
	for _, fd := range load.FuncDecls(pk) {
		if fd.Body == nil {
			continue
		}
		isWhole := func(e ast.Expr) (types.Object, bool) {
			id, ok := ast.Unparen(e).(*ast.Ident)
			if !ok {
				return nil, false
			}
			obj := info.Uses[id]
			if obj == nil {
				return nil, false
			}
			hit := false
			ast.Inspect(fd.Body, func(z ast.Node) bool {
				as, ok := z.(*ast.AssignStmt)
				if !ok {
					return true
				}
				for i, l := range as.Lhs {
					lid, ok := l.(*ast.Ident)
					if !ok || (info.Defs[lid] != obj && info.Uses[lid] != obj) || i >= len(as.Rhs) {
						continue
					}
					if sel, ok := ast.Unparen(as.Rhs[i]).(*ast.SelectorExpr); ok && (sel.Sel.Name == "AttrVal" || sel.Sel.Name == "Data" || sel.Sel.Name == "Text") {
						hit = true
					}
				}
				return true
			})
			return obj, hit
		}
		g := c.graph(pk, fd)
		for _, y := range g.Nodes {
			a := y.Ast()
			if a == nil || y.Kind != flow.KStmt {
				continue
			}
			var folds []*ast.CallExpr
			for _, call := range findCalls(info, a, false, load.ParseMod+".ToLower", load.ParseMod+".ToUpper") {
				folds = append(folds, call)
			}
			if as, ok := a.(*ast.AssignStmt); ok && len(as.Lhs) == 1 && len(as.Rhs) == 1 {
				if ce, ok := ast.Unparen(as.Rhs[0]).(*ast.CallExpr); ok && len(ce.Args) == 1 {
					if cn := calleeName(info, ce); (cn == "bytes.ToLower" || cn == "bytes.ToUpper") && nospace(str(as.Lhs[0])) == nospace(str(ce.Args[0])) {
						folds = append(folds, ce)
					}
				}
			}
			for _, call := range folds {
				if len(call.Args) != 1 {
					continue
				}
				examined++
				obj, w := isWhole(call.Args[0])
				if !w {
					continue
				}
				whole++
				hex := false
				for _, f := range g.DomFacts(y) {
					if f.Value && f.Test.Kind == flow.KCond {
						if chars, _, _ := c.constsIn(pk, f.Test.Expr); chars['#'] && mentionsObject(info, f.Test.Expr, obj) {
							hex = true
						}
					}
				}
				c.R.Check(hex, rule, fmt.Sprintf("svg.%s/%s folded as a whole#%d only when it is a hex colour", load.FuncName(fd), obj.Name(), whole), c.pos(call), "behind a test of the value against '#'",
					"the attribute value "+obj.Name()+" is case-folded in place as a whole: `fill=\"var(--brandBlue)\"` → `var(--brandblue)`, `#CD853F icc-color(PhotoRGB, …)` → `… icc-color(photorgb, …)` — the reference to the custom property or colour profile is broken")
			}
		}
	}
	if whole == 0 {
		c.R.OK(rule, "svg/no value is case-folded as a whole", "-", fmt.Sprintf("%d case-folding calls examined, all on slices of a value", examined))
	}
	c.R.Floor(rule, "case-folding calls in package svg", examined, 1)
}

func mentionsObject(info *types.Info, e ast.Node, obj types.Object) bool {
	hit := false
	ast.Inspect(e, func(z ast.Node) bool {
		if id, ok := z.(*ast.Ident); ok && info.Uses[id] == obj {
			hit = true
		}
		return !hit
	})
	return hit
}
