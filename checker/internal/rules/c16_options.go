package rules

import (
	"fmt"
	"go/ast"
	"go/token"
	"go/types"
	"strings"

	"golang.org/x/tools/go/packages"

	"verif/checker/internal/flow"
	"verif/checker/internal/load"
	"verif/checker/internal/ref"
)

const jsMinVersion = load.Mod + "/js.(Minifier).minVersion"

func init() {
	register(&Property{
		ID:    "C16",
		Level: "other",
		Explain: "(R16.1) Every site of package js that generates syntax newer than ES5 — `**`, `??`, `?.` (setting Optional), template-literal quoting, optional catch binding, shorthand properties — is either pass-through of the same syntax in the input, or reachable only through the true outcome of Minifier.minVersion(c) with c ≥ the edition that introduced the syntax (gate in the function, lifted to all its call sites, or through a boolean parameter whose every actual is false or such a call). " +
			"(R16.2) every CLI flag bound with AddOpt to a field of one of the six option structs is spelled after that field, each struct is the one registered with the registry, and every exported option field has a flag. (R16.3) a frozen table of (option, effect) instances: the effect's code is unreachable on the CFG under the assumption that the Keep* option is set (or, for comments, the verbatim write is unavoidable); every exported option field is read in its package. " +
			"Not covered: `and nothing else` per option, precision semantics, option interactions.",
		Run: runC16,
	})
	mutant(&Mutant{Name: "c16-catch-binding-ungated", Property: "C16", File: "js/js.go",
		Old: "ok && v.Uses == 1 && m.o.minVersion(2019) {", New: "ok && v.Uses == 1 {",
		Rule: "R16.1", Construct: "optional catch binding"})
	mutant(&Mutant{Name: "c16-nullish-wrong-year", Property: "C16", File: "js/util.go",
		Old: "\t\tif m.o.minVersion(2020) {\n\t\t\tif nullishExpr, ok := toNullishExpr(expr); ok {", New: "\t\tif m.o.minVersion(2019) {\n\t\t\tif nullishExpr, ok := toNullishExpr(expr); ok {",
		Rule: "R16.1", Construct: "toNullishExpr"})
	mutant(&Mutant{Name: "c16-template-quotes-always", Property: "C16", File: "js/js.go",
		Old: "m.write(minifyString(expr.Data, m.o.minVersion(2015)))", New: "m.write(minifyString(expr.Data, true))",
		Rule: "R16.1", Construct: "template literal quoting"})
	mutant(&Mutant{Name: "c16-flag-bound-to-wrong-field", Property: "C16", File: "cmd/minify/main.go",
		Old: "f.AddOpt(&htmlMinifier.KeepQuotes, \"\", \"html-keep-quotes\"", New: "f.AddOpt(&htmlMinifier.KeepWhitespace, \"\", \"html-keep-quotes\"",
		Rule: "R16.2", Construct: "html-keep-quotes"})
	mutant(&Mutant{Name: "c16-json-keepnumbers-ignored", Property: "C16", File: "json/json.go",
		Old: "if !o.KeepNumbers && 0 < len(text)", New: "if 0 < len(text)",
		Rule: "R16.3", Construct: "json.KeepNumbers"})
	mutant(&Mutant{Name: "c16-keep-end-tags-p-only", Property: "C16", File: "html/html.go",
		Old: "\t\t\t\t\t} else if t.Hash == Optgroup {\n\t\t\t\t\t\ti := 0", New: "\t\t\t\t\t}\n\t\t\t\t}\n\t\t\t\t{\n\t\t\t\t\tif t.Hash == Optgroup {\n\t\t\t\t\t\ti := 0",
		Rule: "R16.3", Construct: "html.KeepEndTags"})
	mutant(&Mutant{Name: "c16-css2-exponent", Property: "C16", File: "css/css.go",
		Old: "\t\tif c.o.KeepCSS2 {\n\t\t\tnum = minify.Decimal(num, c.o.Precision) // don't use exponents\n\t\t} else {\n\t\t\tnum = minify.Number(num, c.o.Precision)\n\t\t}", New: "\t\tnum = minify.Number(num, c.o.Precision)",
		Rule: "R16.3", Construct: "css.KeepCSS2"})
	mutant(&Mutant{Name: "c16-svg-comments-dropped", Property: "C16", File: "svg/svg.go",
		Old: "\t\t\tif o.KeepComments {\n\t\t\t\tw.Write(t.Data)", New: "\t\t\tif o.KeepComments && len(t.Data) < 64 {\n\t\t\t\tw.Write(t.Data)",
		Rule: "R16.3", Construct: "svg.KeepComments"})
	mutant(&Mutant{Name: "c16-nested-html-default-options", Property: "C16", File: "html/html.go",
		Old: "if err := o.Minify(m, w, buffer.NewReader(t.Data[begin:end]), nil); err != nil {", New: "if err := Minify(m, w, buffer.NewReader(t.Data[begin:end]), nil); err != nil {",
		Rule: "R16.4", Construct: "html/nested"})
	mutant(&Mutant{Name: "c16-nested-html-fresh-minifier", Property: "C16", File: "html/html.go",
		Old: "if err := o.Minify(m, w, buffer.NewReader(t.Data[begin:end]), nil); err != nil {", New: "if err := (&Minifier{KeepSpecialComments: true}).Minify(m, w, buffer.NewReader(t.Data[begin:end]), nil); err != nil {",
		Rule: "R16.4", Construct: "html/nested"})
	mutant(&Mutant{Name: "c16-template-minifier-copied-before-parse", Property: "C16", File: "cmd/minify/main.go",
		Old: "\tphpMinifier := htmlMinifier\n", New: "",
		Old2: "\txmlMinifier := xml.Minifier{}\n", New2: "\txmlMinifier := xml.Minifier{}\n\tphpMinifier := htmlMinifier\n",
		Rule: "R16.2", Construct: "copy phpMinifier"})
	mutant(&Mutant{Name: "c16-svg-lookahead-swallows-comments", Property: "C16", File: "svg/svg.go",
		Old: "\t\t\tif next.TokenType == xml.TextToken && parse.IsAllWhitespace(next.Data) {\n\t\t\t\tnext = tb.Peek(1)\n\t\t\t\tskipExtra = true\n\t\t\t}", New: "\t\t\tif next.TokenType == xml.CommentToken || next.TokenType == xml.TextToken && parse.IsAllWhitespace(next.Data) {\n\t\t\t\tnext = tb.Peek(1)\n\t\t\t\tskipExtra = true\n\t\t\t}",
		Rule: "R16.5", Construct: "peeked comments"})
	mutant(&Mutant{Name: "c16-xml-whitespace-trim", Property: "C16", File: "xml/xml.go",
		Old: "\t\t\t\t\t\tif !o.KeepWhitespace {\n\t\t\t\t\t\t\tt.Data = t.Data[:len(t.Data)-1]\n\t\t\t\t\t\t\tomitSpace = false\n\t\t\t\t\t\t}", New: "\t\t\t\t\t\tt.Data = t.Data[:len(t.Data)-1]\n\t\t\t\t\t\tomitSpace = false",
		Rule: "R16.3", Construct: "xml.KeepWhitespace"})
}

func runC16(c *Ctx) {
	c.r161()
	c.r162()
	c.r163()
	c.r164()
	c.r165()
	c.r169()
	// xml.KeepWhitespace honoured: the white-space clauses of C06 are option clauses too
	c.alsoUnder(map[string]string{"R06.2": "R16.6", "R06.3": "R16.7"}, nil, func() { runC06(c) })
	// css.KeepCSS2 sends numbers to minify.Decimal: the value guarantee has to hold under the option too
	if pk := c.P.Pkg("css"); pk != nil {
		c.alsoUnder(map[string]string{"R04.28": "R16.8"}, nil, func() { c.r0428(pk) })
	}
}

// R16.5: with KeepComments no comment token is consumed without being written.
func (c *Ctx) r165() {
	const rule = "R16.5"
	c.R.Rule(rule, "svg.(*Minifier).Minify under the stipulation o.KeepComments: apart from the CommentToken case of the token switch (which writes the comment, R16.3) no token that a test has identified as a comment (true outcome of `X.TokenType == xml.CommentToken` on a peeked token) can reach a `tb.Shift()` whose result is discarded — a look-ahead that swallows comments together with white space drops them although the option is set (`<g><!-- layer --></g>` → `<g/>`)")
	pk := c.pkg(rule, "svg")
	if pk == nil {
		return
	}
	info := pk.TypesInfo
	fd := c.fn(rule, pk, "Minifier.Minify")
	if fd == nil {
		return
	}
	g := c.graph(pk, fd)
	discards := func(y *flow.Node) bool {
		es, ok := y.Stmt.(*ast.ExprStmt)
		if !ok || y.Kind != flow.KStmt {
			return false
		}
		call, isCall := ast.Unparen(es.X).(*ast.CallExpr)
		return isCall && strings.HasSuffix(calleeName(info, call), "TokenBuffer).Shift")
	}
	n, nd := 0, 0
	for _, y := range g.Nodes {
		if discards(y) {
			nd++
		}
	}
	var bad []string
	for _, y := range g.Nodes {
		if y.Kind != flow.KTrue || y.Of == nil || y.Of.Kind != flow.KCond {
			continue
		}
		be, ok := ast.Unparen(y.Of.Expr).(*ast.BinaryExpr)
		if !ok || be.Op != token.EQL || !strings.HasSuffix(str(be.X), ".TokenType") || str(be.Y) != "xml.CommentToken" {
			continue
		}
		if strings.HasPrefix(str(be.X), "t.") {
			continue // the token being processed, not a peeked one
		}
		n++
		if p := g.Path(flow.Search{From: []*flow.Node{y}, Goal: discards, Assume: map[string]bool{"o.KeepComments": true}, TrackFields: true}); p != nil {
			bad = append(bad, "comment recognised at "+c.pos(y.Of.Expr)+" is shifted away: "+pathStr(c, g, p))
		}
	}
	c.R.Check(len(bad) == 0, rule, "svg.Minifier.Minify/peeked comments are not swallowed when KeepComments", c.pos(fd), fmt.Sprintf("%d comment tests on peeked tokens, %d discarding shifts", n, nd), strings.Join(bad, "; "))
}

// R16.4: nested minification keeps the caller's options.
func (c *Ctx) r164() {
	const rule = "R16.4"
	c.R.Rule(rule, "options reach nested content: in every minifier package the package-level Minify (which runs `(&Minifier{}).Minify`, i.e. all options off) is never called from the package's own code, and every call of the package's own (*Minifier).Minify outside that wrapper has the enclosing method's receiver as its receiver — so HTML inside a conditional comment, inline SVG, etc. is minified with the options the user set, not with defaults")
	n := 0
	for _, rel := range libPkgs {
		if rel == "" {
			continue
		}
		pk := c.pkg(rule, rel)
		if pk == nil {
			continue
		}
		info := pk.TypesInfo
		wrapper := pk.Types.Scope().Lookup("Minify")
		mt, _ := pk.Types.Scope().Lookup("Minifier").(*types.TypeName)
		if wrapper == nil || mt == nil {
			c.R.Unres(rule, rel+".Minify / "+rel+".Minifier", "-", "package has no Minify wrapper or Minifier type")
			continue
		}
		n++
		var bad []string
		calls := 0
		for _, fd := range load.FuncDecls(pk) {
			if fd.Body == nil || info.Defs[fd.Name] == wrapper {
				continue
			}
			var recv types.Object
			if fd.Recv != nil && len(fd.Recv.List) == 1 && len(fd.Recv.List[0].Names) == 1 {
				recv = info.Defs[fd.Recv.List[0].Names[0]]
			}
			ast.Inspect(fd.Body, func(x ast.Node) bool {
				call, ok := x.(*ast.CallExpr)
				if !ok {
					return true
				}
				fo, _ := callee(info, call).(*types.Func)
				if fo == nil || fo.Pkg() != pk.Types {
					return true
				}
				if fo == wrapper {
					bad = append(bad, fmt.Sprintf("%s calls the default-options wrapper %s.Minify at %s", load.FuncName(fd), rel, c.pos(call)))
					return true
				}
				sig := fo.Type().(*types.Signature)
				if fo.Name() != "Minify" || sig.Recv() == nil || namedTypeName(sig.Recv().Type()) != pk.Types.Path()+".Minifier" {
					return true
				}
				calls++
				sel, _ := call.Fun.(*ast.SelectorExpr)
				var id *ast.Ident
				if sel != nil {
					id, _ = ast.Unparen(sel.X).(*ast.Ident)
				}
				if id == nil || recv == nil || info.Uses[id] != recv {
					bad = append(bad, fmt.Sprintf("%s calls (*Minifier).Minify on %s, not on its own receiver, at %s", load.FuncName(fd), str(call.Fun), c.pos(call)))
				}
				return true
			})
		}
		c.R.Check(len(bad) == 0, rule, rel+"/nested minification uses the caller's options", c.P.Pos(wrapper.Pos()), fmt.Sprintf("%d nested call(s), all on the receiver; wrapper not used internally", calls), strings.Join(bad, "; "))
	}
	c.R.Floor(rule, "minifier packages", n, 6)
}

// ---------------------------------------------------------------------------
// R16.1

type gateInfo struct {
	c    *Ctx
	pk   *packages.Package
	info *types.Info
}

// isGateOutcome: outcome node meaning "minVersion(k) is true" with k >= edition.
func (gi *gateInfo) isGateOutcome(y *flow.Node, edition int64) bool {
	if y.Kind != flow.KTrue || y.Of.Kind != flow.KCond {
		return false
	}
	call := isCall(gi.info, ast.Unparen(y.Of.Expr), jsMinVersion)
	if call == nil {
		return false
	}
	if k, ok := intConst(gi.info, call.Args[0]); ok {
		return k >= edition
	}
	// a level held in a local: every value the function assigns to it is a constant ≥ edition
	id, ok := ast.Unparen(call.Args[0]).(*ast.Ident)
	if !ok {
		return false
	}
	obj := gi.info.Uses[id]
	if v, isVar := obj.(*types.Var); !isVar || v.Parent() == nil || v.Parent() == v.Pkg().Scope() {
		return false
	}
	_, encl := gi.c.funcOfPos(gi.pk, id.Pos())
	if encl == nil {
		return false
	}
	min, defs, allConst := int64(1<<62), 0, true
	ast.Inspect(encl.Body, func(z ast.Node) bool {
		switch e := z.(type) {
		case *ast.AssignStmt:
			for i, l := range e.Lhs {
				lid, ok := l.(*ast.Ident)
				if !ok || (gi.info.Uses[lid] != obj && gi.info.Defs[lid] != obj) {
					continue
				}
				defs++
				if len(e.Rhs) != len(e.Lhs) {
					allConst = false
					continue
				}
				if k, ok := intConst(gi.info, e.Rhs[i]); ok && e.Tok != token.ADD_ASSIGN && e.Tok != token.SUB_ASSIGN {
					if k < min {
						min = k
					}
				} else {
					allConst = false
				}
			}
		case *ast.ValueSpec:
			for i, nm := range e.Names {
				if gi.info.Defs[nm] != obj {
					continue
				}
				defs++
				if i < len(e.Values) {
					if k, ok := intConst(gi.info, e.Values[i]); ok {
						if k < min {
							min = k
						}
						continue
					}
				}
				allConst = false
			}
		case *ast.IncDecStmt:
			if lid, ok := e.X.(*ast.Ident); ok && gi.info.Uses[lid] == obj {
				allConst = false
			}
		case *ast.UnaryExpr:
			if lid, ok := e.X.(*ast.Ident); ok && e.Op == token.AND && gi.info.Uses[lid] == obj {
				allConst = false
			}
		}
		return true
	})
	return defs > 0 && allConst && min >= edition
}

// gated reports whether node n of fd is reachable only through a version gate; depth-limited lifting to callers.
func (gi *gateInfo) gated(fd *ast.FuncDecl, n *flow.Node, edition int64, depth int) (bool, string) {
	g := gi.c.graph(gi.pk, fd)
	if p := g.MustPassBefore(n, func(y *flow.Node) bool { return gi.isGateOutcome(y, edition) }, flow.Search{}); p == nil {
		return true, "dominated by minVersion(≥" + fmt.Sprint(edition) + ") in " + load.FuncName(fd)
	}
	if depth >= 3 {
		return false, "lifting depth exceeded"
	}
	// lift: every call site of fd in the package must be gated
	obj := gi.info.Defs[fd.Name]
	sites := 0
	for _, caller := range load.FuncDecls(gi.pk) {
		cg := gi.c.graph(gi.pk, caller)
		for _, y := range cg.Nodes {
			a := y.Ast()
			if a == nil || y.Kind == flow.KSelect || y.Kind == flow.KRange {
				continue
			}
			hit := false
			flowInspectCalls(a, func(call *ast.CallExpr) {
				if callee(gi.info, call) == obj {
					hit = true
				}
			})
			if !hit {
				continue
			}
			sites++
			if ok, why := gi.gated(caller, y, edition, depth+1); !ok {
				return false, fmt.Sprintf("call site in %s at %s is not gated (%s)", load.FuncName(caller), gi.c.pos(a), why)
			}
		}
	}
	if sites == 0 {
		return false, "no gate in the function and no call sites to lift to"
	}
	return true, fmt.Sprintf("gate lifted to %d call site(s) of %s", sites, load.FuncName(fd))
}

func (c *Ctx) r161() {
	const rule = "R16.1"
	c.R.Rule(rule, "generation sites of post-ES5 syntax in package js (writes of expBytes [ES2016]; writes of optChainBytes and assignments X.Optional = true [ES2020]; construction of a BinaryExpr with js.NullishToken [ES2020]; choosing the backtick quote in minifyString [ES2015]; clearing TryStmt.Binding [ES2019]; omitting `name:` for a property whose value is the identically named variable [ES2015]) are pass-through (dominated by the same flag of the input node) or reachable only through the true outcome of minVersion(c), c ≥ edition, possibly lifted to all call sites (depth ≤ 3) or through a boolean parameter whose every actual argument is false or minVersion(c)")
	pk := c.pkg(rule, "js")
	if pk == nil {
		return
	}
	info := pk.TypesInfo
	gi := &gateInfo{c, pk, info}
	sites := 0
	report := func(fd *ast.FuncDecl, n *flow.Node, feature string, edition int64, at ast.Node) {
		sites++
		fname := load.FuncName(fd)
		c.R.Func("js." + fname)
		construct := fmt.Sprintf("js.%s/%s (ES%d)", fname, feature, edition)
		if cl := c.caseLabel(at); cl != "" {
			construct = fmt.Sprintf("js.%s/%s/%s (ES%d)", fname, cl, feature, edition)
		}
		ok, why := gi.gated(fd, n, edition, 0)
		c.R.Check(ok, rule, construct, c.pos(at), why,
			fmt.Sprintf("%s is ES%d syntax but can be emitted for any configured Version: output for an older target uses syntax the target does not parse (%s)", feature, edition, why))
	}
	for _, fd := range load.FuncDecls(pk) {
		g := c.graph(pk, fd)
		fname := load.FuncName(fd)
		for _, n := range g.Nodes {
			a := n.Ast()
			if a == nil || n.Kind != flow.KStmt {
				continue
			}
			// A: write of expBytes
			if mentionsObj(info, a, load.Mod+"/js.expBytes") {
				report(fd, n, "exponentiation operator **", 2016, a)
			}
			// B: write of optChainBytes: pass-through when dominated by X.Optional
			if mentionsObj(info, a, load.Mod+"/js.optChainBytes") {
				pass := false
				for _, f := range g.DomFacts(n) {
					if f.Value && f.Test.Kind == flow.KCond {
						if _, fld := fieldOf(info, f.Test.Expr); fld == "Optional" {
							pass = true
						}
					}
				}
				sites++
				construct := fmt.Sprintf("js.%s/%s/optional chaining ?. (ES2020)", fname, c.caseLabel(a))
				if pass {
					c.R.OK(rule, construct, c.pos(a), "pass-through: only when the input node is already optional")
				} else {
					report(fd, n, "optional chaining ?.", 2020, a)
				}
			}
			// C: X.Optional = true
			if rhs, ok := assignsTo(n, func(l ast.Expr) bool { _, f := fieldOf(info, l); return f == "Optional" }); ok && str(rhs) == "true" {
				report(fd, n, "optional chaining (Optional = true) in "+str(n.Stmt.(*ast.AssignStmt).Lhs[0]), 2020, a)
			}
			// D: BinaryExpr{js.NullishToken, …}
			if flow.Contains(a, func(x ast.Node) bool {
				cl, ok := x.(*ast.CompositeLit)
				if !ok || namedTypeName(info.TypeOf(cl)) != pjs+".BinaryExpr" || len(cl.Elts) == 0 {
					return false
				}
				first := cl.Elts[0]
				if kv, isKV := first.(*ast.KeyValueExpr); isKV {
					first = kv.Value
				}
				return usesObj(info, first, pjs+".NullishToken")
			}) {
				report(fd, n, "nullish coalescing ?? (new BinaryExpr)", 2020, a)
			}
			// D': a BinaryExpr built with another operator newer than ES5, named directly or taken from a table of the package
			flow.Contains(a, func(x ast.Node) bool {
				cl, ok := x.(*ast.CompositeLit)
				if !ok || namedTypeName(info.TypeOf(cl)) != pjs+".BinaryExpr" || len(cl.Elts) == 0 {
					return false
				}
				first := cl.Elts[0]
				if kv, isKV := first.(*ast.KeyValueExpr); isKV {
					if str(kv.Key) != "Op" {
						for _, e := range cl.Elts {
							if kv2, ok := e.(*ast.KeyValueExpr); ok && str(kv2.Key) == "Op" {
								first = kv2.Value
							}
						}
					} else {
						first = kv.Value
					}
				}
				if usesObj(info, first, pjs+".NullishToken") {
					return false // D
				}
				edition, what := c.tokenEdition(pk, fd, first)
				if edition > 0 {
					report(fd, n, what+" (new BinaryExpr)", edition, a)
				}
				return false
			})
			// F: X.Binding = nil on a TryStmt
			if rhs, ok := assignsTo(n, func(l ast.Expr) bool { return isField(info, l, pjs+".TryStmt", "Binding") }); ok && isNilExpr(rhs) {
				report(fd, n, "optional catch binding", 2019, a)
			}
		}
	}
	// E: backtick quote in minifyString through the boolean parameter
	if fd := c.fn(rule, pk, "minifyString"); fd != nil {
		g := c.graph(pk, fd)
		found := false
		for _, n := range g.Nodes {
			rhs, ok := assignsTo(n, func(l ast.Expr) bool { return str(l) == "quote" })
			if !ok || !strings.Contains(str(rhs), "'`'") {
				continue
			}
			found = true
			sites++
			construct := "js.minifyString/template literal quoting (ES2015)"
			// dominated by a boolean parameter being true
			var param *ast.Ident
			pidx := -1
			for _, f := range g.DomFacts(n) {
				if f.Value && f.Test.Kind == flow.KCond {
					if id, ok := ast.Unparen(f.Test.Expr).(*ast.Ident); ok {
						i := 0
						for _, fl := range fd.Type.Params.List {
							for _, nm := range fl.Names {
								if info.Defs[nm] == info.Uses[id] {
									param, pidx = id, i
								}
								i++
							}
						}
					}
				}
			}
			if param == nil {
				ok, why := gi.gated(fd, n, 2015, 0)
				c.R.Check(ok, rule, construct, c.pos(n.Stmt), why, "the backtick quote can be chosen for any Version ("+why+")")
				continue
			}
			var bad []string
			calls := 0
			for _, caller := range load.FuncDecls(pk) {
				for _, call := range findCalls(info, caller.Body, true, load.Mod+"/js.minifyString") {
					calls++
					arg := ast.Unparen(call.Args[pidx])
					if str(arg) == "false" {
						continue
					}
					if mv := isCall(info, arg, jsMinVersion); mv != nil {
						if k, ok := intConst(info, mv.Args[0]); ok && k >= 2015 {
							continue
						}
					}
					bad = append(bad, fmt.Sprintf("%s passes %s at %s", load.FuncName(caller), str(arg), c.pos(call)))
				}
			}
			c.R.Check(len(bad) == 0 && calls > 0, rule, construct, c.pos(n.Stmt), fmt.Sprintf("guarded by parameter %s; all %d call sites pass false or minVersion(≥2015)", param.Name, calls),
				"string literals can be re-quoted as template literals (ES2015) regardless of the configured Version: "+strings.Join(bad, "; "))
		}
		if !found {
			c.R.Unres(rule, "js.minifyString/template literal quoting (ES2015)", c.pos(fd), "backtick quote assignment not found")
		}
	}
	// G: shorthand property in minifyProperty
	if fd := c.fn(rule, pk, "jsMinifier.minifyProperty"); fd != nil {
		g := c.graph(pk, fd)
		sites++
		construct := "js.jsMinifier.minifyProperty/shorthand property {a} (ES2015)"
		// the printing of the value
		var valueN *flow.Node
		for _, n := range g.Nodes {
			if a := n.Ast(); a != nil && n.Kind == flow.KStmt {
				for _, call := range findCalls(info, a, false, load.Mod+"/js.(jsMinifier).minifyExpr") {
					if isField(info, call.Args[0], pjs+".Property", "Value") {
						valueN = n
					}
				}
			}
		}
		if valueN == nil {
			c.R.Unres(rule, construct, c.pos(fd), "printing of property.Value not found")
		} else {
			namePrinted := func(y *flow.Node) bool {
				a := y.Ast()
				return a != nil && y.Kind == flow.KStmt && len(findCalls(info, a, false, load.Mod+"/js.(jsMinifier).minifyPropertyName")) > 0
			}
			gate := func(y *flow.Node) bool { return gi.isGateOutcome(y, 2015) }
			spread := func(y *flow.Node) bool {
				// the spread branch prints `...` instead of a name
				return y.Kind == flow.KTrue && y.Of.Kind == flow.KCond && isField(info, y.Of.Expr, pjs+".Property", "Spread")
			}
			nameNil := func(y *flow.Node) bool {
				if (y.Kind != flow.KTrue && y.Kind != flow.KFalse) || y.Of.Kind != flow.KCond {
					return false
				}
				b, ok := ast.Unparen(y.Of.Expr).(*ast.BinaryExpr)
				if !ok || !isField(info, b.X, pjs+".Property", "Name") || !isNilExpr(b.Y) {
					return false
				}
				return (b.Op == token.EQL) == (y.Kind == flow.KTrue)
			}
			p := g.MustPassBefore(valueN, func(y *flow.Node) bool { return namePrinted(y) || gate(y) || spread(y) || nameNil(y) }, flow.Search{})
			c.R.Check(p == nil, rule, construct, c.pos(valueN.Ast()), "the `name:` prefix is only omitted under minVersion(≥2015)",
				"`{a:a}` is printed as the shorthand `{a}` (ES2015) for every configured Version: "+pathStr(c, g, p))
		}
	}
	c.R.Floor(rule, "post-ES5 generation sites", sites, 10)
}

// ---------------------------------------------------------------------------
// R16.2

func (c *Ctx) r162() {
	const rule = "R16.2"
	c.R.Rule(rule, "in cmd/minify.run every f.AddOpt(&v.Field, _, long, …) whose v is a local of type <pkg>.Minifier has long == <pkg>-<Field> up to dashes and case; each such v (or a copy of it) is registered with the registry by address; a value copy of such a v is taken only after f.Parse() (dominance in run's CFG); every exported field of the six Minifier structs has such a binding")
	pk := c.pkg(rule, "cmd/minify")
	if pk == nil {
		return
	}
	info := pk.TypesInfo
	fd := c.fn(rule, pk, "run")
	if fd == nil {
		return
	}
	bound := map[string]bool{} // pkg.Field
	vars := map[types.Object]string{}
	n := 0
	for _, call := range findCalls(info, fd.Body, true, "github.com/tdewolff/argp.(Argp).AddOpt") {
		if len(call.Args) < 3 {
			continue
		}
		u, ok := ast.Unparen(call.Args[0]).(*ast.UnaryExpr)
		if !ok || u.Op != token.AND {
			continue
		}
		sel, ok := ast.Unparen(u.X).(*ast.SelectorExpr)
		if !ok {
			continue
		}
		typ, field := fieldOf(info, sel)
		if !strings.HasPrefix(typ, load.Mod+"/") || !strings.HasSuffix(typ, ".Minifier") {
			continue
		}
		pkgName := strings.TrimSuffix(strings.TrimPrefix(typ, load.Mod+"/"), ".Minifier")
		long := ""
		if v, err := c.Ev.Expr(pk, call.Args[2]); err == nil {
			long, _ = v.(string)
		}
		n++
		norm := func(s string) string { return strings.ToLower(strings.ReplaceAll(s, "-", "")) }
		c.R.Check(norm(long) == norm(pkgName+field), rule, "main.run/flag --"+long, c.pos(call), "bound to "+pkgName+".Minifier."+field,
			fmt.Sprintf("flag --%s is bound to %s.Minifier.%s: the option the user sets is not the one its name says", long, pkgName, field))
		bound[pkgName+"."+field] = true
		if id := rootIdent(sel.X); id != nil {
			vars[info.Uses[id]] = pkgName
		}
	}
	c.R.Floor(rule, "option flag bindings", n, 15)
	// registration of those variables
	registered := map[types.Object]bool{}
	copies := map[types.Object]types.Object{}
	ast.Inspect(fd.Body, func(x ast.Node) bool {
		if as, ok := x.(*ast.AssignStmt); ok && as.Tok == token.DEFINE && len(as.Lhs) == 1 && len(as.Rhs) == 1 {
			if rid, ok := ast.Unparen(as.Rhs[0]).(*ast.Ident); ok {
				if lid, ok := as.Lhs[0].(*ast.Ident); ok {
					copies[info.Defs[lid]] = info.Uses[rid]
				}
			}
		}
		if call, ok := x.(*ast.CallExpr); ok {
			cn := calleeName(info, call)
			if strings.HasPrefix(cn, load.Mod+".(M).Add") && len(call.Args) == 2 {
				if u, ok := ast.Unparen(call.Args[1]).(*ast.UnaryExpr); ok && u.Op == token.AND {
					if id, ok := ast.Unparen(u.X).(*ast.Ident); ok {
						o := info.Uses[id]
						registered[o] = true
						if src, ok := copies[o]; ok {
							_ = src
						}
					}
				}
			}
		}
		return true
	})
	for o, pkgName := range vars {
		c.R.Check(registered[o], rule, "main.run/"+pkgName+" options registered", "-", c.P.NameOf(o)+" is registered by address", "the option struct the flags write to ("+c.P.NameOf(o)+") is not the one registered with the minifier registry: flags have no effect")
	}
	// value copies of a flag-bound option struct see the flags only when they are taken after the command line was parsed
	g := c.graph(pk, fd)
	var parseN []*flow.Node
	for _, y := range g.Nodes {
		if a := y.Ast(); a != nil && y.Kind != flow.KRange && y.Kind != flow.KSelect && len(findCalls(info, a, false, "github.com/tdewolff/argp.(Argp).Parse")) > 0 {
			parseN = append(parseN, y)
		}
	}
	nCopies := 0
	for _, y := range g.Nodes {
		as, ok := y.Stmt.(*ast.AssignStmt)
		if !ok || y.Kind != flow.KStmt || len(as.Lhs) != len(as.Rhs) {
			continue
		}
		for i, r := range as.Rhs {
			rid, isId := ast.Unparen(r).(*ast.Ident)
			if !isId {
				continue
			}
			pkgName, isBound := vars[info.Uses[rid]]
			if !isBound {
				continue
			}
			nCopies++
			after := false
			for _, pn := range parseN {
				if g.Dominates(pn, y) {
					after = true
				}
			}
			c.R.Check(after, rule, "main.run/copy "+str(as.Lhs[i])+" of the "+pkgName+" options", c.pos(as), "taken after the command line was parsed", str(as.Lhs[i])+" is a value copy of "+rid.Name+" taken before f.Parse(): the --"+pkgName+"-* flags given on the command line are not in the copy (the minifier registered for template file types ignores them)")
		}
	}
	if len(parseN) == 0 {
		c.R.Unres(rule, "main.run/command line parsed", c.pos(fd), "call of (*argp.Argp).Parse not found")
	}
	c.R.Floor(rule, "copies of option structs", nCopies, 3)
	// every exported field has a flag
	for _, rel := range formatPkgs {
		fp := c.P.Pkg(rel)
		if fp == nil {
			continue
		}
		tn, ok := fp.Types.Scope().Lookup("Minifier").(*types.TypeName)
		if !ok {
			continue
		}
		st := tn.Type().Underlying().(*types.Struct)
		for i := 0; i < st.NumFields(); i++ {
			f := st.Field(i)
			if !f.Exported() {
				continue
			}
			// not CLI-settable by design: Inline (set from params), TemplateDelims (derived from the file type), KeepCSS2 (deprecated, no flag upstream)
			if f.Name() == "Inline" || f.Name() == "TemplateDelims" || f.Name() == "KeepCSS2" {
				c.R.Exists(rule, "main.run/"+rel+"."+f.Name()+" flag", "-", "field is not a command-line option by design")
				continue
			}
			c.R.Check(bound[rel+"."+f.Name()], rule, "main.run/"+rel+"."+f.Name()+" flag", "-", "has a flag", "exported option "+rel+".Minifier."+f.Name()+" cannot be set from the command line")
		}
	}
}

// ---------------------------------------------------------------------------
// R16.3

// unreachableWhen reports a path to n that is feasible although the option condition `key` has value val.
func unreachableWhen(g *flow.Graph, n *flow.Node, key string, val bool) []*flow.Node {
	return g.ReachableUnder(n, map[string]bool{key: val}, true)
}

func (c *Ctx) r163() {
	const rule = "R16.3"
	c.R.Rule(rule, "frozen (option, effect) table, each effect identified by resolved callee / field and decided on the CFG by assuming the option's branch condition: json.KeepNumbers ⇒ no call of minify.Number and no write of the zero repair bytes; css.KeepCSS2 ⇒ no call of minify.Number in package css (Decimal instead) and no transparent→initial rewrite; html.KeepEndTags ⇒ no `omitEndTag = true`; html.KeepDocumentTags ⇒ the html/head/body tests are not reached; html.KeepDefaultAttrVals ⇒ no default-value comparison is reached; html.KeepWhitespace / xml.KeepWhitespace ⇒ no trim next to a block tag / tag and no `omitSpace = true` after block elements; html.KeepComments, svg.KeepComments ⇒ the comment token is written verbatim on every path; html.KeepQuotes is a disjunct of EscapeAttrVal's keep-quotes argument; every exported option field is read in its package")
	n := 0
	check := func(pkRel, fn, option, key string, effect func(pk *packages.Package, g *flow.Graph, y *flow.Node) bool, what string, floor int) {
		pk := c.pkg(rule, pkRel)
		if pk == nil {
			return
		}
		var fds []*ast.FuncDecl
		if fn == "*" {
			fds = load.FuncDecls(pk)
		} else if fd := c.fn(rule, pk, fn); fd != nil {
			fds = []*ast.FuncDecl{fd}
		}
		found := 0
		for _, fd := range fds {
			g := c.graph(pk, fd)
			k := 0
			for _, y := range g.Nodes {
				if !effect(pk, g, y) || !g.Reachable(y) {
					continue
				}
				found++
				k++
				n++
				c.R.Func(pk.Name + "." + load.FuncName(fd))
				construct := fmt.Sprintf("%s.%s ⇒ no %s in %s#%d", pkRel, option, what, load.FuncName(fd), k)
				p := unreachableWhen(g, y, key, true)
				pos := "-"
				if a := y.Ast(); a != nil {
					pos = c.pos(a)
				} else if y.Of != nil && y.Of.Ast() != nil {
					pos = c.pos(y.Of.Ast())
				}
				c.R.Check(p == nil, rule, construct, pos, "unreachable when the option is set", fmt.Sprintf("%s still happens with %s set: %s", what, option, pathStr(c, g, p)))
			}
		}
		c.R.Floor(rule, pkRel+"."+option+" effect sites ("+what+")", found, floor)
	}
	callTo := func(names ...string) func(pk *packages.Package, g *flow.Graph, y *flow.Node) bool {
		return func(pk *packages.Package, g *flow.Graph, y *flow.Node) bool {
			a := y.Ast()
			return a != nil && y.Kind != flow.KSelect && y.Kind != flow.KRange && len(findCalls(pk.TypesInfo, a, false, names...)) > 0
		}
	}
	numberCall := callTo(load.Mod + ".Number")
	check("json", "Minifier.Minify", "KeepNumbers", "o.KeepNumbers", numberCall, "number rewriting (minify.Number)", 1)
	check("json", "Minifier.Minify", "KeepNumbers", "o.KeepNumbers", func(pk *packages.Package, g *flow.Graph, y *flow.Node) bool {
		a := y.Ast()
		return a != nil && y.Kind == flow.KStmt && (mentionsObj(pk.TypesInfo, a, load.Mod+"/json.zeroBytes") || mentionsObj(pk.TypesInfo, a, load.Mod+"/json.minusZeroBytes"))
	}, "leading-zero repair write", 2)
	check("css", "*", "KeepCSS2", "c.o.KeepCSS2", numberCall, "exponent-capable number shortening (minify.Number)", 3)
	check("css", "*", "KeepCSS2", "c.o.KeepCSS2", func(pk *packages.Package, g *flow.Graph, y *flow.Node) bool {
		rhs, ok := assignsTo(y, func(l ast.Expr) bool { return strings.HasSuffix(str(l), ".Data") })
		if !ok || !usesObj(pk.TypesInfo, rhs, load.Mod+"/css.initialBytes") {
			return false
		}
		// only the rewrite of the CSS2 keyword `transparent` (currentcolor is itself CSS3)
		for _, f := range g.DomFacts(y) {
			if f.Value && f.Test.Kind == flow.KCond && strings.HasSuffix(str(f.Test.Expr), "== Transparent") {
				return true
			}
		}
		return false
	}, "transparent→initial rewrite (CSS3 keyword)", 1)
	check("html", "Minifier.Minify", "KeepEndTags", "o.KeepEndTags", func(pk *packages.Package, g *flow.Graph, y *flow.Node) bool {
		rhs, ok := assignsTo(y, func(l ast.Expr) bool { return str(l) == "omitEndTag" })
		return ok && str(rhs) == "true"
	}, "end tag omission (omitEndTag = true)", 3)
	tagRemovalTest := func(tags ...string) func(pk *packages.Package, g *flow.Graph, y *flow.Node) bool {
		return func(pk *packages.Package, g *flow.Graph, y *flow.Node) bool {
			if y.Kind != flow.KCond {
				return false
			}
			s := str(y.Expr)
			hit := false
			for _, tag := range tags {
				if s == "t.Hash == "+tag {
					hit = true
				}
			}
			if !hit {
				return false
			}
			// only the tests in the tag-skipping condition: the condition of the if statement whose body drops the tag with
			// an unlabelled break (possibly after a look-ahead); a test of t.Hash inside that look-ahead is not a removal test
			for p := c.P.Parent(y.Expr); p != nil; p = c.P.Parent(p) {
				ifs, ok := p.(*ast.IfStmt)
				if !ok {
					if _, isExpr := p.(ast.Expr); isExpr {
						continue
					}
					return false
				}
				if y.Expr.Pos() < ifs.Cond.Pos() || y.Expr.End() > ifs.Cond.End() {
					return false
				}
				drops := false
				ast.Inspect(ifs.Body, func(q ast.Node) bool {
					switch b := q.(type) {
					case *ast.ForStmt, *ast.RangeStmt, *ast.SwitchStmt, *ast.TypeSwitchStmt, *ast.SelectStmt, *ast.FuncLit:
						return false // a break in there leaves that statement, not the token switch
					case *ast.BranchStmt:
						if b.Tok == token.BREAK && b.Label == nil {
							drops = true
						}
					}
					return true
				})
				return drops
			}
			return false
		}
	}
	check("html", "Minifier.Minify", "KeepDocumentTags", "o.KeepDocumentTags", tagRemovalTest("Html", "Head", "Body"), "html/head/body tag removal test", 3)
	// an element's end tag goes with its start tag: html, head, body and colgroup are removed as pairs
	check("html", "Minifier.Minify", "KeepEndTags", "o.KeepEndTags", tagRemovalTest("Html", "Head", "Body", "Colgroup"), "removal of a start and end tag pair", 4)
	check("html", "Minifier.Minify", "KeepDefaultAttrVals", "o.KeepDefaultAttrVals", func(pk *packages.Package, g *flow.Graph, y *flow.Node) bool {
		if y.Kind != flow.KCond {
			return false
		}
		info := pk.TypesInfo
		for _, gname := range []string{"textBytes", "submitBytes", "getBytes", "formMimeBytes", "oneBytes", "rectBytes", "allBytes", "jsMimetypes", "onBytes"} {
			if mentionsObj(info, y.Expr, load.Mod+"/html."+gname) {
				return true
			}
		}
		// type=text/css on style / link
		if mentionsObj(info, y.Expr, load.Mod+"/html.cssMimeBytes") && strings.Contains(str(y.Expr), "EqualFold") {
			return true
		}
		return false
	}, "default attribute value comparison", 10)
	blockTrim := func(pk *packages.Package, g *flow.Graph, y *flow.Node) bool {
		dominatedByBlock := false
		for _, f := range g.DomFacts(y) {
			if f.Value && f.Test.Kind == flow.KCond && strings.Contains(nospace(str(f.Test.Expr)), "Traits&blockTag!=0") {
				dominatedByBlock = true
			}
		}
		if !dominatedByBlock {
			return false
		}
		if rhs, ok := assignsTo(y, func(l ast.Expr) bool { return str(l) == "omitSpace" }); ok && str(rhs) == "true" {
			return true
		}
		if rhs, ok := assignsTo(y, func(l ast.Expr) bool { return str(l) == "t.Data" }); ok && strings.HasPrefix(nospace(str(rhs)), "t.Data[:len(t.Data)-1]") {
			return true
		}
		return false
	}
	check("html", "Minifier.Minify", "KeepWhitespace", "o.KeepWhitespace", blockTrim, "whitespace removal next to a block tag", 3)
	check("xml", "Minifier.Minify", "KeepWhitespace", "o.KeepWhitespace", func(pk *packages.Package, g *flow.Graph, y *flow.Node) bool {
		rhs, ok := assignsTo(y, func(l ast.Expr) bool { return str(l) == "t.Data" })
		if !ok || !strings.HasPrefix(nospace(str(rhs)), "t.Data[:len(t.Data)-1]") {
			return false
		}
		// the trims before end-of-input, text and CDATA are unconditional by design; the remaining one is the tag-adjacent trim
		for _, f := range g.DomFacts(y) {
			if f.Value && f.Test.Kind == flow.KCond {
				s := str(f.Test.Expr)
				if s == "next.TokenType == xml.ErrorToken" || s == "next.TokenType == xml.TextToken" || s == "next.TokenType == xml.CDATAToken" {
					return false
				}
			}
		}
		return true
	}, "trim of the last space before a tag", 1)

	// comments written verbatim
	for _, sp := range []struct{ rel, key, caseExpr string }{{"html", "o.KeepComments", "html.CommentToken"}, {"svg", "o.KeepComments", "xml.CommentToken"}} {
		pk := c.pkg(rule, sp.rel)
		fd := c.fn(rule, pk, "Minifier.Minify")
		if fd == nil {
			continue
		}
		g := c.graph(pk, fd)
		construct := sp.rel + ".KeepComments ⇒ comment written verbatim"
		var start *flow.Node
		for _, y := range g.Nodes {
			if y.Kind == flow.KTrue && y.Of.Kind == flow.KCase && str(y.Of.Expr) == sp.caseExpr {
				start = y
			}
		}
		if start == nil {
			c.R.Unres(rule, construct, c.pos(fd), "case "+sp.caseExpr+" not found")
			continue
		}
		n++
		wname := c.P.NameOf(paramOfType(pk.TypesInfo, fd, "io.Writer"))
		writes := func(y *flow.Node) bool {
			a := y.Ast()
			if a == nil || y.Kind != flow.KStmt {
				return false
			}
			ok := false
			flowInspectCalls(a, func(call *ast.CallExpr) {
				if sel, isSel := call.Fun.(*ast.SelectorExpr); isSel && sel.Sel.Name == "Write" && str(sel.X) == wname && len(call.Args) == 1 && str(call.Args[0]) == "t.Data" {
					ok = true
				}
			})
			return ok
		}
		// end of the case: the next Shift of the token loop
		endOfCase := func(y *flow.Node) bool {
			if y.Kind == flow.KExit {
				return true
			}
			a := y.Ast()
			return a != nil && y.Kind == flow.KStmt && strings.Contains(str0(a), "tb.Shift()") && strings.HasPrefix(str0(a), "t :=")
		}
		p := g.Path(flow.Search{From: []*flow.Node{start}, Goal: endOfCase, Avoid: writes, Assume: map[string]bool{sp.key: true}, TrackFields: true})
		c.R.Check(p == nil, rule, construct, c.pos(start.Of.Expr), "w.Write(t.Data) on every path through the comment case when the option is set", "a comment can be dropped or altered although "+sp.key+" is set: "+pathStr(c, g, p))
	}
	// KeepQuotes
	if pk := c.pkg(rule, "html"); pk != nil {
		if fd := c.fn(rule, pk, "Minifier.Minify"); fd != nil {
			calls := findCalls(pk.TypesInfo, fd.Body, false, load.ParseMod+"/html.EscapeAttrVal")
			okAll := len(calls) > 0
			for _, call := range calls {
				var atoms []string
				boolAtoms(call.Args[3], &atoms, map[string]bool{})
				has := false
				for _, a := range atoms {
					if a == "o.KeepQuotes" {
						has = true
					}
				}
				// KeepQuotes ⇒ argument true
				if !has || !impliesArg(call.Args[3], "o.KeepQuotes") {
					okAll = false
				}
			}
			n++
			c.R.Check(okAll, rule, "html.KeepQuotes ⇒ EscapeAttrVal keeps quotes", c.pos(fd), fmt.Sprintf("%d call(s): keep-quotes argument is true whenever o.KeepQuotes", len(calls)), "o.KeepQuotes does not force the keep-quotes argument of html.EscapeAttrVal: quotes are removed although the option is set")
		}
	}
	c.R.Floor(rule, "option/effect instances", n, 25)
	// every exported option field is read in its package
	for _, rel := range formatPkgs {
		pk := c.P.Pkg(rel)
		if pk == nil {
			continue
		}
		tn, ok := pk.Types.Scope().Lookup("Minifier").(*types.TypeName)
		if !ok {
			continue
		}
		st := tn.Type().Underlying().(*types.Struct)
		for i := 0; i < st.NumFields(); i++ {
			f := st.Field(i)
			if !f.Exported() {
				continue
			}
			reads := 0
			for _, file := range pk.Syntax {
				ast.Inspect(file, func(x ast.Node) bool {
					if sel, ok := x.(*ast.SelectorExpr); ok && pk.TypesInfo.Uses[sel.Sel] == types.Object(f) {
						// not as assignment target
						if as, isAs := c.P.Parent(sel).(*ast.AssignStmt); isAs {
							for _, l := range as.Lhs {
								if l == ast.Expr(sel) {
									return true
								}
							}
						}
						reads++
					}
					return true
				})
			}
			c.R.Check(reads > 0, rule, rel+".Minifier."+f.Name()+" is read", "-", fmt.Sprintf("%d read(s)", reads), "the option field is never read in its package: setting it has no effect")
		}
	}
}

func isBreak(q *flow.Node) bool {
	b, ok := q.Stmt.(*ast.BranchStmt)
	return q.Kind == flow.KStmt && ok && b.Tok == token.BREAK
}

// impliesArg: atom ⇒ e (e is true whenever atom is true).
func impliesArg(e ast.Expr, atom string) bool {
	var atoms []string
	boolAtoms(e, &atoms, map[string]bool{})
	if len(atoms) > 12 {
		return false
	}
	for m := 0; m < 1<<len(atoms); m++ {
		val := map[string]bool{}
		for i, a := range atoms {
			val[a] = m&(1<<i) != 0
		}
		if val[atom] && !evalBool(e, val) {
			return false
		}
	}
	return true
}

func str0(n ast.Node) string {
	switch x := n.(type) {
	case ast.Expr:
		return str(x)
	case *ast.AssignStmt:
		var l, r []string
		for _, e := range x.Lhs {
			l = append(l, str(e))
		}
		for _, e := range x.Rhs {
			r = append(r, str(e))
		}
		return strings.Join(l, ", ") + " " + x.Tok.String() + " " + strings.Join(r, ", ")
	case *ast.ExprStmt:
		return str(x.X)
	}
	return ""
}

func nospace(s string) string { return strings.ReplaceAll(s, " ", "") }

// R16.9: no escape is decoded into a raw line or paragraph separator inside a string literal.
func (c *Ctx) r169() {
	const rule = "R16.9"
	c.R.Rule(rule, "U+2028 and U+2029 are line terminators: unescaped inside a '…' or \"…\" literal they are a syntax error before ES2019 (the JSON superset proposal), in a template literal they are allowed. js.replaceEscapes decodes `\\u2028` into the raw character and has no access to the target version: for Version ≤ 2018 the output used newer syntax than the input. The branch of replaceEscapes that decodes `\\u` escapes contains a test that names both code points (0x2028, 0x2029)")
	pk := c.pkg(rule, "js")
	if pk == nil {
		return
	}
	fd := c.fn(rule, pk, "replaceEscapes")
	if fd == nil {
		return
	}
	var branch *ast.IfStmt
	ast.Inspect(fd.Body, func(z ast.Node) bool {
		ifs, ok := z.(*ast.IfStmt)
		if !ok || branch != nil {
			return true
		}
		chars, _, _ := c.constsIn(pk, ifs.Cond)
		if chars['u'] && !chars['x'] {
			branch = ifs
		}
		return true
	})
	if branch == nil {
		c.R.Unres(rule, "js.replaceEscapes/\\u escapes", c.pos(fd), "the branch that decodes \\u escapes was not found")
		return
	}
	good := false
	ast.Inspect(branch.Body, func(z ast.Node) bool {
		if ifs, ok := z.(*ast.IfStmt); ok {
			_, _, ints := c.constsIn(pk, ifs.Cond)
			if ints[0x2028] && ints[0x2029] {
				good = true
			}
		}
		return true
	})
	c.R.Check(good, rule, "js.replaceEscapes/\\u escape not decoded into a raw line or paragraph separator", c.pos(branch), "the branch tests the code point for 0x2028 and 0x2029",
		"`\\u2028` and `\\u2029` are decoded like any other escape: `x=\"a\\u2028b\"` is printed with the raw separator inside the string literal, a syntax error for every target before ES2019")
}

// tokenEdition: the ECMAScript edition that an operator expression needs: a token constant of ref.JSTokenEdition, or a
// local defined by a look-up in a package-level map whose values are such constants (the newest of them).
func (c *Ctx) tokenEdition(pk *packages.Package, fd *ast.FuncDecl, e ast.Expr) (int64, string) {
	info := pk.TypesInfo
	best, what := int64(0), ""
	scan := func(n ast.Node) {
		ast.Inspect(n, func(z ast.Node) bool {
			sel, ok := z.(*ast.SelectorExpr)
			if !ok {
				return true
			}
			if k, isConst := info.Uses[sel.Sel].(*types.Const); isConst && k.Pkg() != nil && k.Pkg().Path() == pjs {
				if ed, ok := ref.JSTokenEdition[k.Name()]; ok && ed > best {
					best, what = ed, "operator js."+k.Name()
				}
			}
			return true
		})
	}
	e = ast.Unparen(e)
	if id, ok := e.(*ast.Ident); ok {
		obj := info.Uses[id]
		if v, isVar := obj.(*types.Var); isVar && v.Parent() != nil && v.Parent() != pk.Types.Scope() && fd.Body != nil {
			// the definitions of the local
			ast.Inspect(fd.Body, func(z ast.Node) bool {
				var lhs []ast.Expr
				var rhs []ast.Expr
				switch s := z.(type) {
				case *ast.AssignStmt:
					lhs, rhs = s.Lhs, s.Rhs
				default:
					return true
				}
				for i, l := range lhs {
					lid, ok := l.(*ast.Ident)
					if !ok || (info.Uses[lid] != obj && info.Defs[lid] != obj) {
						continue
					}
					r := rhs[0]
					if len(rhs) == len(lhs) {
						r = rhs[i]
					}
					if ie, ok := ast.Unparen(r).(*ast.IndexExpr); ok {
						if mid, ok := ast.Unparen(ie.X).(*ast.Ident); ok {
							if mv, isVar := info.Uses[mid].(*types.Var); isVar && mv.Parent() == pk.Types.Scope() {
								if vs := c.varSpecValue(pk, mv); vs != nil {
									if cl, ok := vs.(*ast.CompositeLit); ok {
										for _, el := range cl.Elts {
											if kv, ok := el.(*ast.KeyValueExpr); ok {
												scan(kv.Value)
											}
										}
										if best > 0 {
											what += " (newest value of table " + mv.Name() + ")"
										}
										continue
									}
								}
							}
						}
					}
					scan(r)
				}
				return true
			})
			return best, what
		}
	}
	scan(e)
	return best, what
}

// varSpecValue: the initialiser of a package-level variable.
func (c *Ctx) varSpecValue(pk *packages.Package, v *types.Var) ast.Expr {
	for _, f := range pk.Syntax {
		for _, d := range f.Decls {
			gd, ok := d.(*ast.GenDecl)
			if !ok {
				continue
			}
			for _, sp := range gd.Specs {
				vs, ok := sp.(*ast.ValueSpec)
				if !ok {
					continue
				}
				for i, nm := range vs.Names {
					if pk.TypesInfo.Defs[nm] == v && i < len(vs.Values) {
						return vs.Values[i]
					}
				}
			}
		}
	}
	return nil
}

// funcOfPos: the function declaration of the package that contains a position.
func (c *Ctx) funcOfPos(pk *packages.Package, pos token.Pos) (*ast.File, *ast.FuncDecl) {
	for _, f := range pk.Syntax {
		if pos < f.Pos() || pos > f.End() {
			continue
		}
		for _, d := range f.Decls {
			if fd, ok := d.(*ast.FuncDecl); ok && fd.Pos() <= pos && pos <= fd.End() {
				return f, fd
			}
		}
	}
	return nil, nil
}
