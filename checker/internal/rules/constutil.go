package rules

import (
	"go/constant"
	"go/types"
)

func constantInt64(k *types.Const) (int64, bool) {
	return constant.Int64Val(constant.ToInt(k.Val()))
}

func constantValInt64(tv types.TypeAndValue) (int64, bool) {
	if tv.Value == nil || (tv.Value.Kind() != constant.Int && tv.Value.Kind() != constant.Float) {
		return 0, false
	}
	return constant.Int64Val(constant.ToInt(tv.Value))
}
