package rules

import (
	"fmt"
	"go/ast"
	"go/token"
	"go/types"
	"strings"

	"golang.org/x/tools/go/packages"

	"verif/checker/internal/eval"
	"verif/checker/internal/flow"
	"verif/checker/internal/load"
)

const (
	mMimetype = load.Mod + ".(M).MinifyMimetype"
	mMinify   = load.Mod + ".(M).Minify"
	mBytes    = load.Mod + ".(M).Bytes"
	mString   = load.Mod + ".(M).String"
	updErrPos = load.Mod + ".UpdateErrorPosition"
	errNotEx  = load.Mod + ".ErrNotExist"
)

func init() {
	mutant(&Mutant{Name: "c11-minified-payload-used-only-when-shorter", Property: "C11", File: "common.go",
		Old: "\tdata, _ = m.Bytes(string(mediatype), data)\n", New: "\tif minified, err := m.Bytes(string(mediatype), data); err == nil && len(minified) < len(data) {\n\t\tdata = minified\n\t}\n",
		Rule: "R11.11", Construct: "is the payload that is encoded"})
	mutant(&Mutant{Name: "c11-attribute-code-decoded-in-the-token-buffer", Property: "C11", File: "html/html.go",
		Old: "m.MinifyMimetype(jsMimeBytes, attrMinifyBuffer, buffer.NewReader(decodeAttrVal(parse.Copy(val))), inlineParams)", New: "m.MinifyMimetype(jsMimeBytes, attrMinifyBuffer, buffer.NewReader(decodeAttrVal(val)), inlineParams)",
		Rule: "R11.9", Construct: "decodes a copy of the attribute value"})
	mutant(&Mutant{Name: "c11-escaper-stops-at-the-last-semicolon", Property: "C11", File: "html/html.go",
		Old: "\tn := 0\n\tfor i := 0; i+1 < len(b); i++ {\n\t\tif b[i] == '&' && isRefStart(b[i+1]) {", New: "\tend := bytes.LastIndexByte(b, ';')\n\tn := 0\n\tfor i := 0; i < end; i++ {\n\t\tif b[i] == '&' && isRefStart(b[i+1]) {",
		Old2: "if c == '&' && i+1 < len(b) && isRefStart(b[i+1]) {", New2: "if c == '&' && i < end && isRefStart(b[i+1]) {",
		Rule: "R11.9", Construct: "escapes by looking at each byte and its successor only"})
	register(&Property{
		ID:    "C11",
		Level: "other",
		Explain: "Every call from a minifier into the registry (MinifyMimetype / Minify / Bytes / String, and HTML's recursive call for conditional comments) is enumerated and its error discipline decided on the CFG (R11.1): the error is bound; a non-nil error other than ErrNotExist leaves the function through minify.UpdateErrorPosition(err, <outer input>, <token>.Offset); " +
			"on ErrNotExist the unmodified embedded bytes are written (direct-writer idiom) or the scratch buffer's contents are only consumed on success (buffer idiom). (R11.2) the params argument is the {\"inline\":\"1\"} map exactly when the reader is built over an attribute value (and for the SVG-in-HTML token), and nil / the element's own type parameters otherwise. " +
			"(R11.3) the media type chosen per element is the documented default (script → application/javascript, style → text/css, iframe → text/html, svg → image/svg+xml, math → application/mathml+xml; SVG style → text/css), overridden only by the element's own type attribute. Not covered: re-escaping for the host syntax (byte-level).",
		Run: runC11,
	})
	mutant(&Mutant{Name: "c11-event-handler-minified-undecoded", Property: "C11", File: "html/html.go",
		Old: "m.MinifyMimetype(jsMimeBytes, attrMinifyBuffer, buffer.NewReader(decodeAttrVal(parse.Copy(val))), inlineParams)", New: "m.MinifyMimetype(jsMimeBytes, attrMinifyBuffer, buffer.NewReader(val), inlineParams)",
		Rule: "R11.9", Construct: "reads decoded text"})
	mutant(&Mutant{Name: "c11-style-attribute-ampersands-not-escaped", Property: "C11", File: "html/html.go",
		Old: "buffer.NewReader(decodeAttrVal(parse.Copy(val))), inlineParams); err == nil {\n\t\t\t\t\t\t\t\tval = escapeAttrAmp(attrMinifyBuffer.Bytes())\n\t\t\t\t\t\t\t} else if err != minify.ErrNotExist {\n\t\t\t\t\t\t\t\treturn minify.UpdateErrorPosition(err, z, attr.Offset)\n\t\t\t\t\t\t\t}\n\t\t\t\t\t\t\tif len(val) == 0 {\n\t\t\t\t\t\t\t\tcontinue\n\t\t\t\t\t\t\t}\n\t\t\t\t\t\t} else if 2 < len(attr.Text)", New: "buffer.NewReader(decodeAttrVal(parse.Copy(val))), inlineParams); err == nil {\n\t\t\t\t\t\t\t\tval = attrMinifyBuffer.Bytes()\n\t\t\t\t\t\t\t} else if err != minify.ErrNotExist {\n\t\t\t\t\t\t\t\treturn minify.UpdateErrorPosition(err, z, attr.Offset)\n\t\t\t\t\t\t\t}\n\t\t\t\t\t\t\tif len(val) == 0 {\n\t\t\t\t\t\t\t\tcontinue\n\t\t\t\t\t\t\t}\n\t\t\t\t\t\t} else if 2 < len(attr.Text)",
		Rule: "R11.9", Construct: "result has its ampersands escaped"})
	mutant(&Mutant{Name: "c11-svg-style-type-becomes-document-default", Property: "C11", File: "svg/svg.go",
		Old: "\t\t\tif tag == Svg && attr == ContentStyleType {\n", New: "\t\t\tif tag == Svg && attr == ContentStyleType || tag == Style && attr == Type {\n",
		Rule: "R11.3", Construct: "svg"})
	mutant(&Mutant{Name: "c11-raw-type-cleared-only-when-used", Property: "C11", File: "html/html.go",
		Old: "\t\t\t\t\trawTagHash = t.Hash\n\t\t\t\t\trawTagMediatype = nil\n", New: "\t\t\t\t\trawTagHash = t.Hash\n",
		Rule: "R11.4", Construct: "type cleared on entering"})
	mutant(&Mutant{Name: "c11-math-error-swallowed", Property: "C11", File: "html/html.go",
		Old:  "\t\t\tif err := m.MinifyMimetype(mathMimeBytes, w, buffer.NewReader(t.Data), nil); err != nil {\n\t\t\t\tif err != minify.ErrNotExist {\n\t\t\t\t\treturn minify.UpdateErrorPosition(err, z, t.Offset)\n\t\t\t\t}\n\t\t\t\tw.Write(t.Data)\n\t\t\t}\n",
		New:  "\t\t\tif err := m.MinifyMimetype(mathMimeBytes, w, buffer.NewReader(t.Data), nil); err != nil {\n\t\t\t\tw.Write(t.Data)\n\t\t\t}\n",
		Rule: "R11.1", Construct: "case html.MathToken"})
	mutant(&Mutant{Name: "c11-style-attr-partial-output", Property: "C11", File: "html/html.go",
		Old:  "\t\t\t\t\t\t\tif err := m.MinifyMimetype(cssMimeBytes, attrMinifyBuffer, buffer.NewReader(val), inlineParams); err == nil {\n\t\t\t\t\t\t\t\tval = attrMinifyBuffer.Bytes()\n\t\t\t\t\t\t\t} else if err != minify.ErrNotExist {\n\t\t\t\t\t\t\t\treturn minify.UpdateErrorPosition(err, z, attr.Offset)\n\t\t\t\t\t\t\t}\n",
		New:  "\t\t\t\t\t\t\tif err := m.MinifyMimetype(cssMimeBytes, attrMinifyBuffer, buffer.NewReader(val), inlineParams); err == nil || err == minify.ErrNotExist {\n\t\t\t\t\t\t\t\tval = attrMinifyBuffer.Bytes()\n\t\t\t\t\t\t\t} else {\n\t\t\t\t\t\t\t\treturn minify.UpdateErrorPosition(err, z, attr.Offset)\n\t\t\t\t\t\t\t}\n",
		Rule: "R11.1", Construct: "MinifyMimetype(cssMimeBytes"})
	mutant(&Mutant{Name: "c11-svg-notexist-drops-style", Property: "C11", File: "svg/svg.go",
		Old:  "\t\t\t\t\tif err != minify.ErrNotExist {\n\t\t\t\t\t\treturn minify.UpdateErrorPosition(err, z, t.Offset)\n\t\t\t\t\t}\n\t\t\t\t\tw.Write(t.Data)\n\t\t\t\t}\n\t\t\t} else {",
		New:  "\t\t\t\t\tif err != minify.ErrNotExist {\n\t\t\t\t\t\treturn minify.UpdateErrorPosition(err, z, t.Offset)\n\t\t\t\t\t}\n\t\t\t\t}\n\t\t\t} else {",
		Rule: "R11.1", Construct: "svg.Minifier.Minify/case xml.TextToken"})
	mutant(&Mutant{Name: "c11-onclick-not-inline", Property: "C11", File: "html/html.go",
		Old: "m.MinifyMimetype(jsMimeBytes, attrMinifyBuffer, buffer.NewReader(val), inlineParams)", New: "m.MinifyMimetype(jsMimeBytes, attrMinifyBuffer, buffer.NewReader(val), nil)",
		Rule: "R11.2", Construct: "MinifyMimetype(jsMimeBytes"})
	mutant(&Mutant{Name: "c11-script-element-inline", Property: "C11", File: "html/html.go",
		Old: "\t\t\t\t\tvar params map[string]string\n\t\t\t\t\tif rawTagHash == Iframe {", New: "\t\t\t\t\tparams := inlineParams\n\t\t\t\t\tif rawTagHash == Iframe {",
		Rule: "R11.2", Construct: "MinifyMimetype(mimetype"})
	mutant(&Mutant{Name: "c11-iframe-as-js", Property: "C11", File: "html/html.go",
		Old: "\t\t\t\t\tif rawTagHash == Iframe {\n\t\t\t\t\t\tmimetype = htmlMimeBytes", New: "\t\t\t\t\tif rawTagHash == Iframe {\n\t\t\t\t\t\tmimetype = jsMimeBytes",
		Rule: "R11.3", Construct: "case html.TextToken/MinifyMimetype(mimetype"})
	mutant(&Mutant{Name: "c11-type-recorded-only-if-kept", Property: "C11", File: "html/html.go",
		Old: "\t\t\t\t\t\tif rawTagHash != 0 && attr.Hash == Type {\n\t\t\t\t\t\t\trawTagMediatype = parse.Copy(val)\n\t\t\t\t\t\t}\n", New: "\t\t\t\t\t\tif rawTagHash != 0 && attr.Hash == Type && o.KeepDefaultAttrVals {\n\t\t\t\t\t\t\trawTagMediatype = parse.Copy(val)\n\t\t\t\t\t\t}\n",
		Rule: "R11.4", Construct: "type attribute recorded"})
	mutant(&Mutant{Name: "c11-error-position-of-inner", Property: "C11", File: "html/html.go",
		Old:  "\t\t\tif err := m.MinifyMimetype(svgMimeBytes, w, buffer.NewReader(t.Data), inlineParams); err != nil {\n\t\t\t\tif err != minify.ErrNotExist {\n\t\t\t\t\treturn minify.UpdateErrorPosition(err, z, t.Offset)",
		New:  "\t\t\tif err := m.MinifyMimetype(svgMimeBytes, w, buffer.NewReader(t.Data), inlineParams); err != nil {\n\t\t\t\tif err != minify.ErrNotExist {\n\t\t\t\t\treturn err",
		Rule: "R11.1", Construct: "case html.SvgToken"})
}

func runC11(c *Ctx) {
	c.r111()
	c.r114()
	c.r115()
	c.r118()
	c.r119()
	c.r1111("R11.11")
	// a data URI rewritten inside url(…) must still be one URL token afterwards: same rule as R09.8
	c.alsoUnder(map[string]string{"R09.8": "R11.6", "R09.9": "R11.7"}, nil, func() { c.r098() })
	// the style sheet embedded in an SVG document reaches its minifier as written
	if pk := c.P.Pkg("svg"); pk != nil {
		c.r0519(pk, "R11.10")
		c.r0523(pk, "R11.12")
	}
}

// R11.5: the data URI's payload minifier is looked up under the media type as parsed.
func (c *Ctx) r115() {
	const rule = "R11.5"
	c.R.Rule(rule, "in minify.DataURI the media type handed to the registry lookup (first argument of m.Bytes / m.Minify…) is string(<the variable bound to the first result of parse.DataURI>) and no assignment to that variable can reach the lookup: shortening the media type for output (dropping the default text/plain, charset=us-ascii) must happen after the payload's minifier has been chosen from the declared type")
	pk := c.pkg(rule, "")
	if pk == nil {
		return
	}
	info := pk.TypesInfo
	fd := c.fn(rule, pk, "DataURI")
	if fd == nil {
		return
	}
	g := c.graph(pk, fd)
	construct := "minify.DataURI/lookup under the parsed media type"
	var parseN, lookupN *flow.Node
	mediaVar := ""
	for _, n := range g.Nodes {
		if n.Kind != flow.KStmt || n.Ast() == nil {
			continue
		}
		if as, ok := n.Stmt.(*ast.AssignStmt); ok && len(as.Rhs) == 1 && isCall(info, as.Rhs[0], load.ParseMod+".DataURI") != nil && len(as.Lhs) >= 1 {
			parseN, mediaVar = n, str(as.Lhs[0])
		}
		if len(findCalls(info, n.Ast(), false, mBytes, mString, mMinify, mMimetype)) > 0 {
			lookupN = n
		}
	}
	if parseN == nil || lookupN == nil {
		c.R.Unres(rule, construct, c.pos(fd), "parse.DataURI call or registry lookup not found")
		return
	}
	call := findCalls(info, lookupN.Ast(), false, mBytes, mString, mMinify, mMimetype)[0]
	arg := nospace(str(call.Args[0]))
	var bad []string
	if arg != "string("+mediaVar+")" && arg != mediaVar {
		bad = append(bad, "the lookup uses "+str(call.Args[0])+", not the parsed media type "+mediaVar)
	}
	for _, n := range g.Nodes {
		if n == parseN {
			continue
		}
		if _, ok := assignsTo(n, func(l ast.Expr) bool { return str(l) == mediaVar }); ok {
			if g.Path(flow.Search{From: []*flow.Node{n}, Goal: func(y *flow.Node) bool { return y == lookupN }}) != nil {
				bad = append(bad, "the media type is rewritten at "+c.pos(n.Stmt)+" before the lookup: a payload declared text/plain (or with charset=us-ascii) is looked up under a different type than the one it declares")
			}
		}
	}
	c.R.Check(len(bad) == 0, rule, construct, c.pos(call), "m.Bytes(string("+mediaVar+"), …) with no rewrite in between", strings.Join(bad, "; "))
}

// R11.4: the type attribute of a raw-text element is recorded before the attribute can be skipped.
func (c *Ctx) r114() {
	const rule = "R11.4"
	c.R.Rule(rule, "in the attribute loop of html.(*Minifier).Minify, under the stipulations `rawTagHash != 0` (inside a script/style/… start tag), `attr.Hash == Type` (every comparison of attr.Hash with a constant is decided accordingly), attribute not removed and not a template: every path from the start of the iteration to a `continue` or to the end of the iteration passes the assignment that records the attribute's value in rawTagMediatype — so the media type of the element's content is chosen from its type attribute even when the attribute itself is dropped as a default value")
	pk := c.pkg(rule, "html")
	if pk == nil {
		return
	}
	info := pk.TypesInfo
	fd := c.fn(rule, pk, "Minifier.Minify")
	if fd == nil {
		return
	}
	g := c.graph(pk, fd)
	construct := "html.Minifier.Minify/type attribute recorded before any skip"
	// the recording assignment
	var rec *flow.Node
	for _, n := range g.Nodes {
		if rhs, ok := assignsTo(n, func(l ast.Expr) bool { return str(l) == "rawTagMediatype" }); ok && !isNilExpr(rhs) {
			rec = n
		}
	}
	// the iteration start: attr := *tb.Shift()
	var start *flow.Node
	for _, n := range g.Nodes {
		if as, ok := n.Stmt.(*ast.AssignStmt); ok && n.Kind == flow.KStmt && as.Tok == token.DEFINE && str(as.Lhs[0]) == "attr" && strings.Contains(str(as.Rhs[0]), "Shift()") {
			start = n
		}
	}
	if rec == nil || start == nil {
		c.R.Unres(rule, construct, c.pos(fd), "recording assignment to rawTagMediatype or the attribute loop head not found")
		return
	}
	typeConst, okT := int64(0), false
	if k, ok := pk.Types.Scope().Lookup("Type").(*types.Const); ok {
		typeConst, okT = constantInt64(k)
	}
	if !okT {
		c.R.Unres(rule, construct, c.pos(fd), "hash constant Type not found")
		return
	}
	raw := map[string]bool{"rawTagHash != 0": true, "rawTagHash == 0": false, "attr.Text == nil": false, "attr.HasTemplate": false,
		"attr.TokenType != html.AttributeToken": false, "t.Traits != 0": true}
	for _, n := range g.Nodes {
		if n.Kind != flow.KCond {
			continue
		}
		if b, ok := ast.Unparen(n.Expr).(*ast.BinaryExpr); ok && (b.Op == token.EQL || b.Op == token.NEQ) && str(b.X) == "attr.Hash" {
			if v, ok := intConst(info, b.Y); ok {
				raw[str(n.Expr)] = (v == typeConst) == (b.Op == token.EQL)
			}
		}
	}
	goal := func(y *flow.Node) bool {
		if y == start {
			return true
		}
		b, ok := y.Stmt.(*ast.BranchStmt)
		return y.Kind == flow.KStmt && ok && (b.Tok == token.CONTINUE || b.Tok == token.BREAK)
	}
	// the recorded type belongs to one element: entering a raw-text element clears it before any attribute is read
	nEnter := 0
	for _, n := range g.Nodes {
		rhs, ok := assignsTo(n, func(l ast.Expr) bool { return str(l) == "rawTagHash" })
		if !ok {
			continue
		}
		if k, isK := intConst(info, rhs); isK && k == 0 {
			continue // leaving the element
		}
		nEnter++
		reset := func(y *flow.Node) bool {
			r2, ok := assignsTo(y, func(l ast.Expr) bool { return str(l) == "rawTagMediatype" })
			return ok && isNilExpr(r2)
		}
		var mainHead *flow.Node
		for _, q := range g.Nodes {
			if as, ok := q.Stmt.(*ast.AssignStmt); ok && q.Kind == flow.KStmt && as.Tok == token.DEFINE && str(as.Lhs[0]) == "t" && strings.Contains(str(as.Rhs[0]), "Shift()") {
				mainHead = q
			}
		}
		pe := g.Path(flow.Search{From: []*flow.Node{n}, Goal: func(y *flow.Node) bool { return y == start || y == mainHead || y.Kind == flow.KExit }, Avoid: reset})
		c.R.Check(pe == nil, rule, fmt.Sprintf("html.Minifier.Minify/type cleared on entering a raw-text element #%d", nEnter), c.pos(n.Stmt), "rawTagMediatype = nil before the attributes are read", "a raw-text element is entered without forgetting the type recorded for an earlier one: `<script type=application/ld+json src=x></script><script>var a = 1</script>` sends the second script to the minifier of the first one's type: "+pathStr(c, g, pe))
	}
	c.R.Floor(rule, "raw-text element entries", nEnter, 1)
	p := g.Path(flow.Search{From: []*flow.Node{start}, Goal: goal, Avoid: func(y *flow.Node) bool { return y == rec }, AssumeRaw: raw})
	c.R.Check(p == nil, rule, construct, c.pos(rec.Stmt), "recorded on every path of a type attribute of a raw-text element",
		"a type attribute of a script/style element can be skipped (e.g. dropped as a default value) before its value is recorded: the element's content is then sent to the default minifier instead of the one for its declared type: "+pathStr(c, g, p))
}

type embedSite struct {
	pk      *packages.Package
	fd      *ast.FuncDecl
	g       *flow.Graph
	n       *flow.Node
	call    *ast.CallExpr
	callee  string
	label   string
	mimeArg ast.Expr
	wArg    ast.Expr
	rArg    ast.Expr
	pArg    ast.Expr
}

func (c *Ctx) embedSites(rule string) []*embedSite {
	var out []*embedSite
	for _, rel := range []string{"", "css", "html", "js", "json", "svg", "xml"} {
		pk := c.pkg(rule, rel)
		if pk == nil {
			continue
		}
		info := pk.TypesInfo
		for _, fd := range load.FuncDecls(pk) {
			fname := load.FuncName(fd)
			// wrappers of the registry itself are not embedded-resource sites
			if rel == "" && (strings.HasPrefix(fname, "M.") || strings.HasPrefix(fname, "responseWriter.") || strings.HasPrefix(fname, "writer.") || fname == "MinifierFunc.Minify") {
				continue
			}
			names := []string{mMimetype, mMinify, mBytes, mString}
			if rel != "" {
				names = append(names, load.Mod+"/"+rel+".(Minifier).Minify")
			}
			g := c.graph(pk, fd)
			for _, n := range g.Nodes {
				a := n.Ast()
				if a == nil || n.Kind == flow.KSelect || n.Kind == flow.KRange {
					continue
				}
				for _, call := range findCalls(info, a, false, names...) {
					cn := calleeName(info, call)
					// the package-level wrapper func Minify(m, w, r, params) { return (&Minifier{}).Minify(...) } is not a site
					if fname == "Minify" {
						continue
					}
					s := &embedSite{pk: pk, fd: fd, g: g, n: n, call: call, callee: cn}
					switch cn {
					case mMimetype:
						s.mimeArg, s.wArg, s.rArg, s.pArg = call.Args[0], call.Args[1], call.Args[2], call.Args[3]
					case mMinify:
						s.mimeArg, s.wArg, s.rArg = call.Args[0], call.Args[1], call.Args[2]
					case mBytes, mString:
						s.mimeArg, s.rArg = call.Args[0], call.Args[1]
					default:
						s.wArg, s.rArg, s.pArg = call.Args[1], call.Args[2], call.Args[3]
					}
					lbl := pk.Name + "." + fname
					if cl := c.caseLabel(call); cl != "" {
						lbl += "/" + cl
					}
					s.label = lbl + "/" + shortCall(call)
					out = append(out, s)
				}
			}
		}
	}
	return out
}

func shortCall(call *ast.CallExpr) string {
	s := str(call.Fun)
	if i := strings.LastIndex(s, "."); i >= 0 {
		s = s[i+1:]
	}
	arg := ""
	if len(call.Args) > 0 {
		arg = str(call.Args[0])
	}
	return s + "(" + arg + ", …)"
}

// readerSource returns the expression the reader argument is built over: buffer.NewReader(X) -> X.
func readerSource(info *types.Info, r ast.Expr) ast.Expr {
	if call := isCall(info, ast.Unparen(r), load.ParseMod+"/buffer.NewReader"); call != nil {
		return call.Args[0]
	}
	return r
}

func (c *Ctx) r111() {
	const r1, r2, r3 = "R11.1", "R11.2", "R11.3"
	c.R.Rule(r1, "at every call from a minifier into the registry: the error result is bound to a variable; every path on which it is non-nil passes a comparison with minify.ErrNotExist or returns; on the `other error` outcome every path returns minify.UpdateErrorPosition(err, z, X.Offset) with z the function's own *parse.Input; on the ErrNotExist outcome, when the minifier was given the function's output writer, every path writes the reader's source bytes to that writer; when it was given a scratch buffer, that buffer's Bytes() is consumed only under err == nil")
	c.R.Rule(r2, "the params argument evaluates to the map {\"inline\":\"1\"} exactly when the reader's source is an attribute value (derived from .AttrVal) or the site is HTML's SvgToken; otherwise it is nil, a nil-valued variable, or the parameters split from the element's own type attribute")
	c.R.Rule(r3, "the media type argument at element sites is a package-level constant equal to the documented default for the element guarded by the dominating test (Iframe → text/html, Script → application/javascript, Style → text/css; SvgToken → image/svg+xml; MathToken → application/mathml+xml; style/on* attributes → text/css / application/javascript; SVG → text/css unless contentStyleType), or the result of parse.Mediatype on the element's type attribute under a non-empty test")
	sites := c.embedSites(r1)
	c.R.Sites += len(sites)
	for _, s := range sites {
		info := s.pk.TypesInfo
		g := s.g
		c.R.Func(s.pk.Name + "." + load.FuncName(s.fd))
		// ---- R11.1
		e := assignedErr(info, s.n, s.call)
		if e == nil {
			c.R.Bad(r1, s.label, c.pos(s.call), "the error of the embedded minifier is discarded: a failing embedded resource does not fail the outer call (and its possibly partial output is used)")
		} else {
			var bad []string
			isNotExistCmp := func(y *flow.Node) (isCmp bool, eqOutcomeTrue bool) {
				if y.Kind != flow.KCond {
					return false, false
				}
				b, ok := ast.Unparen(y.Expr).(*ast.BinaryExpr)
				if !ok || (b.Op != token.EQL && b.Op != token.NEQ) {
					return false, false
				}
				var other ast.Expr
				if usesObj(info, b.Y, errNotEx) {
					other = b.X
				} else if usesObj(info, b.X, errNotEx) {
					other = b.Y
				} else {
					return false, false
				}
				id, ok := ast.Unparen(other).(*ast.Ident)
				if !ok || info.Uses[id] != e {
					return false, false
				}
				return true, b.Op == token.EQL
			}
			retUpd := func(y *flow.Node) bool {
				r := retStmt(y)
				if r == nil || len(r.Results) != 1 {
					return false
				}
				call := isCall(info, ast.Unparen(r.Results[0]), updErrPos)
				if call == nil || len(call.Args) != 3 {
					return false
				}
				id, ok := ast.Unparen(call.Args[0]).(*ast.Ident)
				if !ok || info.Uses[id] != e {
					return false
				}
				if namedTypeName(info.TypeOf(call.Args[1])) != load.ParseMod+".Input" {
					return false
				}
				_, f := fieldOf(info, call.Args[2])
				return f == "Offset"
			}
			isDirect := s.callee != mMimetype && s.callee != mMinify && s.callee != mBytes && s.callee != mString // recursive direct call cannot yield ErrNotExist
			var nonNil []*flow.Node
			for _, y := range g.Nodes {
				if errOutcome(info, y, e, false) {
					nonNil = append(nonNil, y)
				}
			}
			if len(nonNil) == 0 {
				bad = append(bad, "the error is never tested against nil")
			}
			endOfSite := func(y *flow.Node) bool { return y.Kind == flow.KExit || y.Kind == flow.KRange || y == s.n }
			for _, y := range nonNil {
				if isDirect {
					if p := g.Path(flow.Search{From: []*flow.Node{y}, Goal: endOfSite, Avoid: retUpd}); p != nil {
						bad = append(bad, "a failure of the nested call does not return minify.UpdateErrorPosition(err, z, ….Offset): "+pathStr(c, g, p))
					}
					continue
				}
				if p := g.Path(flow.Search{From: []*flow.Node{y}, Goal: endOfSite, Avoid: func(q *flow.Node) bool {
					is, _ := isNotExistCmp(q)
					return is || retUpd(q)
				}}); p != nil {
					bad = append(bad, "a non-nil error continues without being compared with ErrNotExist or returned: the outer document is emitted as if the embedded minifier had succeeded: "+pathStr(c, g, p))
				}
			}
			if !isDirect {
				cmps := 0
				for _, y := range g.Nodes {
					is, eqTrue := isNotExistCmp(y)
					if !is {
						continue
					}
					cmps++
					for _, o := range y.Succs {
						if o.Kind != flow.KTrue && o.Kind != flow.KFalse {
							continue
						}
						isNotExistOutcome := (o.Kind == flow.KTrue) == eqTrue
						if !isNotExistOutcome {
							// other error: must return UpdateErrorPosition on all paths
							if p := g.Path(flow.Search{From: []*flow.Node{o}, Goal: endOfSite, Avoid: retUpd}); p != nil {
								bad = append(bad, "an embedded minifier error other than ErrNotExist does not leave through minify.UpdateErrorPosition(err, z, ….Offset) (error lost or not located in the outer document): "+pathStr(c, g, p))
							}
						} else if s.wArg != nil && isWriterParam(info, s.fd, s.wArg) {
							src := str(readerSource(info, s.rArg))
							wname := str(s.wArg)
							writesSrc := func(q *flow.Node) bool {
								a := q.Ast()
								if a == nil || q.Kind != flow.KStmt {
									return false
								}
								ok := false
								flowInspectCalls(a, func(call *ast.CallExpr) {
									if sel, isSel := call.Fun.(*ast.SelectorExpr); isSel && sel.Sel.Name == "Write" && str(sel.X) == wname && len(call.Args) == 1 && str(call.Args[0]) == src {
										ok = true
									}
								})
								return ok
							}
							if p := g.Path(flow.Search{From: []*flow.Node{o}, Goal: endOfSite, Avoid: writesSrc}); p != nil {
								bad = append(bad, "when no minifier is registered the embedded bytes ("+src+") are not written unchanged: the content disappears: "+pathStr(c, g, p))
							}
						}
					}
				}
				if cmps == 0 {
					bad = append(bad, "the error is never compared with minify.ErrNotExist")
				}
				// scratch buffer consumed only on success
				if s.wArg != nil && !isWriterParam(info, s.fd, s.wArg) {
					bname := str(s.wArg)
					for _, y := range g.Nodes {
						a := y.Ast()
						if a == nil || y.Kind == flow.KSelect || !g.Dominates(s.n, y) {
							continue
						}
						uses := flow.Contains(a, func(x ast.Node) bool {
							call, ok := x.(*ast.CallExpr)
							if !ok {
								return false
							}
							sel, ok := call.Fun.(*ast.SelectorExpr)
							return ok && sel.Sel.Name == "Bytes" && str(sel.X) == bname
						})
						if !uses {
							continue
						}
						succ := false
						for _, f := range g.DomFacts(y) {
							for _, o := range f.Test.Succs {
								if (o.Kind == flow.KTrue) == f.Value && errOutcome(info, o, e, true) {
									succ = true
								}
							}
						}
						// a later site resets the buffer; only uses before the next Reset count
						if !succ && !c.resetBetween(g, s.n, y, bname) {
							bad = append(bad, "the scratch buffer "+bname+" is consumed at "+c.pos(a)+" although the embedded minifier may have failed or not exist (empty / partial output replaces the content)")
						}
					}
				}
			}
			c.R.Check(len(bad) == 0, r1, s.label, c.pos(s.call), "bound; other errors → UpdateErrorPosition; not-exist → content unchanged", strings.Join(bad, "; "))
		}
		// ---- R11.2
		if s.pArg != nil && s.callee == mMimetype {
			src := readerSource(info, s.rArg)
			isAttr := c.derivesFromAttrVal(s.pk, src)
			inline := c.paramsKind(s.pk, s.pArg)
			wantInline := isAttr || c.caseLabel(s.call) == "case html.SvgToken"
			detail := fmt.Sprintf("source %s (attribute: %v), params %s = %s", str(src), isAttr, str(s.pArg), inline)
			switch {
			case inline == "unknown":
				c.R.Unres(r2, s.label, c.pos(s.call), "cannot evaluate the params argument "+str(s.pArg))
			case wantInline && inline != "inline":
				c.R.Bad(r2, s.label, c.pos(s.call), "attribute content must be minified in inline mode (declaration list / statement list without wrapper): "+detail)
			case !wantInline && inline == "inline":
				c.R.Bad(r2, s.label, c.pos(s.call), "element content must not be minified in inline mode (a stylesheet would be parsed as a declaration list): "+detail)
			default:
				c.R.OK(r2, s.label, c.pos(s.call), detail)
			}
		}
		// ---- R11.3
		if s.mimeArg != nil && s.callee == mMimetype {
			c.checkMediaType(r3, s)
		}
	}
	c.R.Floor(r1, "embedded minifier call sites", len(sites), 10)
}

func isWriterParam(info *types.Info, fd *ast.FuncDecl, e ast.Expr) bool {
	id, ok := ast.Unparen(e).(*ast.Ident)
	if !ok {
		return false
	}
	return info.Uses[id] == paramOfType(info, fd, "io.Writer")
}

// resetBetween: is there a <buf>.Reset() on every path from a to b (so the use at b belongs to a later site)?
func (c *Ctx) resetBetween(g *flow.Graph, a, b *flow.Node, buf string) bool {
	reset := func(q *flow.Node) bool {
		x := q.Ast()
		if x == nil || q.Kind != flow.KStmt {
			return false
		}
		ok := false
		flowInspectCalls(x, func(call *ast.CallExpr) {
			if sel, isSel := call.Fun.(*ast.SelectorExpr); isSel && sel.Sel.Name == "Reset" && str(sel.X) == buf {
				ok = true
			}
		})
		return ok
	}
	return g.Path(flow.Search{From: []*flow.Node{a}, Goal: func(q *flow.Node) bool { return q == b }, Avoid: reset}) == nil
}

// derivesFromAttrVal: the expression is X.AttrVal or a local whose defining chain starts at X.AttrVal.
func (c *Ctx) derivesFromAttrVal(pk *packages.Package, e ast.Expr) bool {
	info := pk.TypesInfo
	e = ast.Unparen(e)
	if _, f := fieldOf(info, e); f != "" {
		return f == "AttrVal"
	}
	// a value passed through functions over byte slices (a copy, a decoder) is still that value
	if call, isCall := e.(*ast.CallExpr); isCall && len(call.Args) == 1 {
		if _, isConv := info.Types[call.Fun]; !isConv || !info.Types[call.Fun].IsType() {
			return c.derivesFromAttrVal(pk, call.Args[0])
		}
	}
	id, ok := e.(*ast.Ident)
	if !ok {
		return false
	}
	obj := info.Uses[id]
	fd := c.P.EnclosingFunc(id)
	if fd == nil || obj == nil {
		return false
	}
	// the declaring definition `val := <expr>`
	var def ast.Expr
	ast.Inspect(fd.Body, func(x ast.Node) bool {
		as, ok := x.(*ast.AssignStmt)
		if !ok || as.Tok != token.DEFINE {
			return true
		}
		for i, l := range as.Lhs {
			if lid, ok := l.(*ast.Ident); ok && info.Defs[lid] == obj && len(as.Lhs) == len(as.Rhs) {
				def = as.Rhs[i]
			}
		}
		return true
	})
	if def == nil {
		return false
	}
	_, f := fieldOf(info, def)
	return f == "AttrVal"
}

// paramsKind classifies a params argument: "inline", "nil", "own" (split from the type attribute), "unknown".
func (c *Ctx) paramsKind(pk *packages.Package, e ast.Expr) string {
	info := pk.TypesInfo
	e = ast.Unparen(e)
	if isNilExpr(e) {
		return "nil"
	}
	classify := func(v eval.Value, err error) string {
		if err != nil {
			return "unknown"
		}
		switch m := v.(type) {
		case nil:
			return "nil"
		case *eval.Map:
			if len(m.Entries) == 1 && eval.Equal(m.Entries[0].Key, "inline") && eval.Equal(m.Entries[0].Value, "1") {
				return "inline"
			}
			if len(m.Entries) == 0 {
				return "nil"
			}
		}
		return "unknown"
	}
	id, ok := e.(*ast.Ident)
	if !ok {
		return classify(c.Ev.Expr(pk, e))
	}
	obj, _ := info.Uses[id].(*types.Var)
	if obj == nil {
		return "unknown"
	}
	if obj.Parent() == pk.Types.Scope() {
		return classify(c.Ev.Expr(pk, e))
	}
	// local: all definitions
	fd := c.P.EnclosingFunc(id)
	kinds := map[string]bool{}
	ast.Inspect(fd.Body, func(x ast.Node) bool {
		switch s := x.(type) {
		case *ast.AssignStmt:
			for i, l := range s.Lhs {
				lid, ok := l.(*ast.Ident)
				if !ok || (info.Defs[lid] != obj && info.Uses[lid] != obj) {
					continue
				}
				if len(s.Lhs) == len(s.Rhs) {
					// a map literal whose keys are constants other than "inline" carries document parameters
					if cl, ok := ast.Unparen(s.Rhs[i]).(*ast.CompositeLit); ok {
						if _, isMap := info.TypeOf(cl).Underlying().(*types.Map); isMap && len(cl.Elts) > 0 {
							plain := true
							for _, el := range cl.Elts {
								kv, ok := el.(*ast.KeyValueExpr)
								if !ok {
									plain = false
									break
								}
								tv, ok := info.Types[kv.Key]
								if !ok || tv.Value == nil || tv.Value.ExactString() == `"inline"` {
									plain = false
								}
							}
							if plain {
								kinds["own"] = true
								continue
							}
						}
					}
					kinds[classify(c.Ev.Expr(pk, s.Rhs[i]))] = true
				} else if len(s.Rhs) == 1 && isCall(info, s.Rhs[0], load.ParseMod+".Mediatype") != nil {
					kinds["own"] = true
				} else {
					kinds["unknown"] = true
				}
			}
		case *ast.ValueSpec:
			for i, lid := range s.Names {
				if info.Defs[lid] == obj {
					if i < len(s.Values) {
						kinds[classify(c.Ev.Expr(pk, s.Values[i]))] = true
					} else {
						kinds["nil"] = true
					}
				}
			}
		}
		return true
	})
	switch {
	case kinds["unknown"]:
		return "unknown"
	case kinds["inline"] && len(kinds) == 1:
		return "inline"
	case kinds["inline"]:
		return "inline" // may be inline
	case len(kinds) == 0:
		return "unknown"
	}
	return "nil/own"
}

var documentedDefaults = map[string]string{
	"Iframe": "text/html", "Script": "application/javascript", "Style": "text/css",
	"case html.SvgToken": "image/svg+xml", "case html.MathToken": "application/mathml+xml",
}

func (c *Ctx) checkMediaType(rule string, s *embedSite) {
	info := s.pk.TypesInfo
	label := s.label
	arg := ast.Unparen(s.mimeArg)
	evalBytes := func(e ast.Expr) (string, bool) {
		v, err := c.Ev.Expr(s.pk, e)
		if err != nil {
			return "", false
		}
		b, ok := v.([]byte)
		return string(b), ok
	}
	id, isId := arg.(*ast.Ident)
	if !isId {
		c.R.Unres(rule, label, c.pos(s.call), "media type argument is not an identifier")
		return
	}
	obj, _ := info.Uses[id].(*types.Var)
	if obj != nil && obj.Parent() == s.pk.Types.Scope() {
		val, ok := evalBytes(arg)
		if !ok {
			c.R.Unres(rule, label, c.pos(s.call), "cannot evaluate "+id.Name)
			return
		}
		want := ""
		cl := c.caseLabel(s.call)
		if w, ok := documentedDefaults[cl]; ok {
			want = w
		} else {
			// attribute sites: guarded by attr.Hash == Style or the on* prefix test
			for _, f := range s.g.DomFacts(s.n) {
				if f.Value && f.Test.Kind == flow.KCond {
					t := str(f.Test.Expr)
					if strings.HasSuffix(t, "== Style") {
						want = "text/css"
					}
					if strings.Contains(t, "attr.Text[1] == 'n'") || strings.Contains(t, "attr.Text[0] == 'o'") {
						want = "application/javascript"
					}
				}
			}
		}
		if want == "" {
			c.R.Unres(rule, label, c.pos(s.call), "no documented default known for this site")
			return
		}
		c.R.Check(val == want, rule, label, c.pos(s.call), val, fmt.Sprintf("embedded content is sent to the minifier for %q, the documented default is %q", val, want))
		return
	}
	// local variable: every assignment
	fd := s.fd
	n := 0
	var bad []string
	seenDefault := map[string]bool{}
	for _, y := range s.g.Nodes {
		rhs, ok := assignsTo(y, func(l ast.Expr) bool {
			lid, ok := ast.Unparen(l).(*ast.Ident)
			return ok && (info.Uses[lid] == obj || info.Defs[lid] == obj)
		})
		if !ok {
			continue
		}
		n++
		if call := isCall(info, ast.Unparen(rhs), load.ParseMod+".Mediatype"); call != nil {
			// type attribute override: under a non-empty test of the same variable
			okGuard := false
			for _, f := range s.g.DomFacts(y) {
				if f.Value && f.Test.Kind == flow.KCond && strings.Contains(str(f.Test.Expr), "len("+str(call.Args[0])+")") {
					okGuard = true
				}
			}
			if !okGuard {
				bad = append(bad, "type attribute used without a non-empty test at "+c.pos(y.Stmt))
			}
			continue
		}
		val, okv := evalBytes(rhs)
		if !okv {
			// svg: defaultStyleType = val is the document-wide override by the root element's contentStyleType
			// attribute; any other element changing it would leak its own type into the rest of the document
			if s.pk.Name == "svg" {
				root, cst := false, false
				for _, f := range s.g.DomFacts(y) {
					if f.Value && f.Test.Kind == flow.KCond {
						switch nospace(str(f.Test.Expr)) {
						case "tag==Svg":
							root = true
						case "attr==ContentStyleType":
							cst = true
						}
					}
				}
				if !root || !cst {
					bad = append(bad, "the document-wide style type is overwritten at "+c.pos(y.Stmt)+" outside the test tag == Svg && attr == ContentStyleType: the type of one element leaks into every later style attribute and style element")
				}
				continue
			}
			bad = append(bad, "cannot evaluate "+str(rhs))
			continue
		}
		// which element guards it?
		elem := ""
		for _, f := range s.g.DomFacts(y) {
			if f.Value && f.Test.Kind == flow.KCond {
				if b, ok := ast.Unparen(f.Test.Expr).(*ast.BinaryExpr); ok && b.Op == token.EQL {
					if idr, ok := ast.Unparen(b.Y).(*ast.Ident); ok {
						if _, known := documentedDefaults[idr.Name]; known && elem == "" {
							elem = idr.Name
						}
					}
				}
			}
		}
		if s.pk.Name == "svg" {
			if val != "text/css" {
				bad = append(bad, fmt.Sprintf("SVG style default is %q, documented text/css", val))
			}
			continue
		}
		if elem == "" {
			bad = append(bad, "media type "+val+" assigned without an element test at "+c.pos(y.Stmt))
			continue
		}
		seenDefault[elem] = true
		if documentedDefaults[elem] != val {
			bad = append(bad, fmt.Sprintf("%s content is sent to the minifier for %q, documented default %q", elem, val, documentedDefaults[elem]))
		}
	}
	if s.pk.Name == "html" {
		for _, e := range []string{"Iframe", "Script", "Style"} {
			if !seenDefault[e] {
				bad = append(bad, "no default media type for "+e)
			}
		}
	}
	_ = fd
	if n == 0 {
		// initialised at declaration
		if def := c.singleDef(s.pk, id); def != nil {
			if val, ok := evalBytes(def); ok {
				c.R.Check(val == "text/css", rule, label, c.pos(s.call), val, "default style type is "+val+", documented text/css")
				return
			}
		}
		c.R.Unres(rule, label, c.pos(s.call), "no assignment to the media type variable found")
		return
	}
	c.R.Check(len(bad) == 0, rule, label, c.pos(s.call), fmt.Sprintf("%d assignment(s) agree with the documented defaults", n), strings.Join(bad, "; "))
}

// R11.8: the payload given to the embedded minifier is the payload the data URI denotes.
func (c *Ctx) r118() {
	const rule = "R11.8"
	c.R.Rule(rule, "minify.DataURI obtains the payload from parse.DataURI of the pinned dependency, which decodes a non-base64 payload with parse.DecodeURL. A data URI is a URL (RFC 2397, RFC 3986): only %XX triplets are escapes; `+` is a literal plus sign (it stands for a space only in application/x-www-form-urlencoded data). The rule reads the source of parse.DecodeURL: every store into the decoded slice is the value of a %XX triplet — no other byte is mapped to a different one. (`<script src=\"data:application/javascript,x=a+b\">` → `…,x=a%20b`: the embedded program is `x=a b`)")
	dep := c.P.Dep(load.ParseMod)
	if dep == nil {
		c.R.Unres(rule, "parse.DecodeURL", "-", "dependency package not loaded")
		return
	}
	fd := load.Func(dep, "DecodeURL")
	if fd == nil {
		c.R.Unres(rule, "parse.DecodeURL", "-", "function not found in the dependency")
		return
	}
	info := dep.TypesInfo
	// the data URI path really uses it
	uses := false
	if du := load.Func(dep, "DataURI"); du != nil {
		uses = len(findCalls(info, du.Body, false, load.ParseMod+".DecodeURL")) > 0
	}
	if !uses {
		c.R.OK(rule, "parse.DataURI/decoder", "-", "parse.DataURI no longer decodes through parse.DecodeURL: nothing to check here")
		return
	}
	g := c.graph(dep, fd)
	n := 0
	for _, y := range g.Nodes {
		as, ok := y.Stmt.(*ast.AssignStmt)
		if !ok || y.Kind != flow.KStmt || len(as.Lhs) != 1 || len(as.Rhs) != 1 {
			continue
		}
		if _, isIx := as.Lhs[0].(*ast.IndexExpr); !isIx {
			continue
		}
		n++
		// a constant byte stored under a comparison of the same element with another constant: a byte-for-byte mapping
		tv, isConst := info.Types[as.Rhs[0]]
		if !isConst || tv.Value == nil {
			c.R.OK(rule, fmt.Sprintf("parse.DecodeURL/store %s#%d", stmtText(as), n), c.pos(as), "computed from the escape's hex digits")
			continue
		}
		from := ""
		for _, f := range g.DomFacts(y) {
			if f.Value && f.Test.Kind == flow.KCond && strings.Contains(nospace(str(f.Test.Expr)), nospace(str(as.Lhs[0]))+"==") {
				from = str(f.Test.Expr)
			}
		}
		c.R.Bad(rule, fmt.Sprintf("parse.DecodeURL/store %s#%d", stmtText(as), n), c.pos(as), "the decoder replaces a literal byte ("+from+") by another one ("+str(as.Rhs[0])+"): in a data URI that byte stands for itself, so the payload the embedded minifier sees — and the one written back — is not the payload of the input")
	}
	c.R.Floor(rule, "stores into the decoded slice", n, 1)
}

// R11.9: code embedded in an attribute is decoded before, and its ampersands escaped after, its minifier.
func (c *Ctx) r119() {
	const rule = "R11.9"
	c.R.Rule(rule, "an attribute value reaches the HTML minifier's embedded calls after parse.ReplaceEntities, which is an escaping normaliser and not a decoder: it deliberately keeps `&amp;` in front of a letter, digit or `#` (and references without a shorter form). Handed to the JS or CSS minifier as it is, `onclick=\"a&amp;&amp;b()\"` is parsed as `a && amp; b()` and comes back as `a&&amp,b()`. In html.(*Minifier).Minify every MinifyMimetype call whose reader is built from the attribute value (`val`) reads from the result of a function of package html that decodes character references (its body calls html.UnescapeString of the standard library), and the value taken over from the output buffer passes a function whose body writes `amp;` (an ampersand in minified code that could start a reference must be escaped again)")
	pk := c.pkg(rule, "html")
	if pk == nil {
		return
	}
	info := pk.TypesInfo
	fd := c.fn(rule, pk, "Minifier.Minify")
	if fd == nil {
		return
	}
	bodyHas := func(call *ast.CallExpr, pred func(ast.Node) bool) bool {
		fo, _ := callee(info, call).(*types.Func)
		if fo == nil || fo.Pkg() != pk.Types {
			return false
		}
		d := load.Func(pk, fo.Name())
		if d == nil || d.Body == nil {
			return false
		}
		hit := false
		ast.Inspect(d.Body, func(z ast.Node) bool {
			if pred(z) {
				hit = true
			}
			return true
		})
		return hit
	}
	decodes := func(z ast.Node) bool {
		ce, ok := z.(*ast.CallExpr)
		return ok && calleeName(info, ce) == "html.UnescapeString"
	}
	writesAmp := func(z ast.Node) bool {
		bl, ok := z.(*ast.BasicLit)
		return ok && bl.Kind == token.STRING && strings.Contains(bl.Value, "amp;")
	}
	n := 0
	ast.Inspect(fd.Body, func(x ast.Node) bool {
		ifs, ok := x.(*ast.IfStmt)
		if !ok || ifs.Init == nil {
			return true
		}
		as, ok := ifs.Init.(*ast.AssignStmt)
		if !ok || len(as.Rhs) != 1 {
			return true
		}
		call, ok := ast.Unparen(as.Rhs[0]).(*ast.CallExpr)
		if !ok || !strings.HasSuffix(calleeName(info, call), ".(M).MinifyMimetype") || len(call.Args) < 3 {
			return true
		}
		rd, ok := ast.Unparen(call.Args[2]).(*ast.CallExpr)
		if !ok || len(rd.Args) != 1 {
			return true
		}
		mentionsVal := false
		ast.Inspect(rd.Args[0], func(z ast.Node) bool {
			if id, ok := z.(*ast.Ident); ok && id.Name == "val" {
				mentionsVal = true
			}
			return true
		})
		if !mentionsVal {
			return true
		}
		n++
		// (a) the reader's source is decoded
		dec := false
		ast.Inspect(rd.Args[0], func(z ast.Node) bool {
			if ce, ok := z.(*ast.CallExpr); ok && bodyHas(ce, decodes) {
				dec = true
			}
			return true
		})
		// (c) a decoder that rewrites its argument in place gets a copy: the value itself is still needed when no
		// minifier is registered (it is written as it is)
		ast.Inspect(rd.Args[0], func(z ast.Node) bool {
			ce, ok := z.(*ast.CallExpr)
			if !ok || !bodyHas(ce, decodes) || len(ce.Args) != 1 {
				return true
			}
			fo, _ := callee(info, ce).(*types.Func)
			d := load.Func(pk, fo.Name())
			inPlace := false
			if d != nil && d.Type.Params != nil && len(d.Type.Params.List) > 0 && len(d.Type.Params.List[0].Names) > 0 {
				pobj := info.Defs[d.Type.Params.List[0].Names[0]]
				ast.Inspect(d.Body, func(w ast.Node) bool {
					switch e := w.(type) {
					case *ast.AssignStmt:
						for _, l := range e.Lhs {
							if ie, ok := l.(*ast.IndexExpr); ok {
								if id, ok := ast.Unparen(ie.X).(*ast.Ident); ok && info.Uses[id] == pobj {
									inPlace = true
								}
							}
						}
					case *ast.CallExpr:
						if fid, ok := e.Fun.(*ast.Ident); ok && fid.Name == "copy" && len(e.Args) == 2 {
							ast.Inspect(e.Args[0], func(v ast.Node) bool {
								if id, ok := v.(*ast.Ident); ok && info.Uses[id] == pobj {
									inPlace = true
								}
								return true
							})
						}
					}
					return true
				})
			}
			if !inPlace {
				return true
			}
			fresh := false
			if ac, ok := ast.Unparen(ce.Args[0]).(*ast.CallExpr); ok {
				switch cn := calleeName(info, ac); {
				case cn == load.ParseMod+".Copy", cn == "bytes.Clone":
					fresh = true
				case cn == "append" || str(ac.Fun) == "append":
					if len(ac.Args) >= 1 {
						a0 := nospace(str(ac.Args[0]))
						fresh = a0 == "[]byte(nil)" || a0 == "[]byte{}" || strings.HasPrefix(a0, "make(")
					}
				}
			}
			c.R.Check(fresh, rule, fmt.Sprintf("html.Minifier.Minify/embedded call#%d decodes a copy of the attribute value", n), c.pos(ce), "the in-place decoder is given parse.Copy(val)", "the decoder rewrites its argument in place and is handed the attribute value itself ("+str(ce.Args[0])+"): when no minifier is registered for the embedded type the value is written as it is — now half decoded, with the stale tail repeated (`onclick=\"go('a.php?x=1&amp;y=2')\"` → `go('a.php?x=1&y=2')=2')`)")
			return true
		})
		c.R.Check(dec, rule, fmt.Sprintf("html.Minifier.Minify/embedded call#%d on an attribute value reads decoded text", n), c.pos(call), "through a function that calls html.UnescapeString", "the attribute value goes to the embedded minifier as parse.ReplaceEntities left it, with `&amp;` still in place in front of letters and digits: `onclick=\"a&amp;&amp;b()\"` is minified as the script `a&&amp;b()` and comes back as `a&&amp,b()`; `x=a&amp;b` is split into two statements")
		// (b) the result taken from the buffer is escaped
		esc, took := false, false
		ast.Inspect(ifs.Body, func(z ast.Node) bool {
			a2, ok := z.(*ast.AssignStmt)
			if !ok || len(a2.Lhs) != 1 || len(a2.Rhs) != 1 || str(a2.Lhs[0]) != "val" {
				return true
			}
			took = true
			if ce, ok := ast.Unparen(a2.Rhs[0]).(*ast.CallExpr); ok && bodyHas(ce, writesAmp) {
				esc = true
			}
			return true
		})
		c.R.Check(took && esc, rule, fmt.Sprintf("html.Minifier.Minify/embedded call#%d result has its ampersands escaped", n), c.pos(ifs), "through a function that writes amp;", "the minified code is written into the attribute as it is: an `&` in front of a name (`a&&lt` with a variable lt, `a&copy`) is read back as a character reference by the browser")
		// … on every path: a value taken over without the escaper does not leave the success branch unescaped (the minifier
		// creates ampersands the source did not have: `if(ok)copy()` → `ok&&copy()`)
		if took && esc {
			g := c.graph(pk, fd)
			isEscAssign := func(y *flow.Node) bool {
				a2, ok := y.Stmt.(*ast.AssignStmt)
				if y.Kind != flow.KStmt || !ok || len(a2.Lhs) != 1 || len(a2.Rhs) != 1 || str(a2.Lhs[0]) != "val" {
					return false
				}
				ce, ok := ast.Unparen(a2.Rhs[0]).(*ast.CallExpr)
				return ok && bodyHas(ce, writesAmp)
			}
			var from []*flow.Node
			for _, y := range g.Nodes {
				a2, ok := y.Stmt.(*ast.AssignStmt)
				if y.Kind != flow.KStmt || !ok || a2.Pos() < ifs.Body.Pos() || a2.End() > ifs.Body.End() {
					continue
				}
				if len(a2.Lhs) == 1 && str(a2.Lhs[0]) == "val" && !isEscAssign(y) {
					from = append(from, y)
				}
			}
			if len(from) > 0 {
				p := g.Path(flow.Search{From: from, Goal: func(y *flow.Node) bool {
					a := y.Ast()
					return y.Kind == flow.KExit || a != nil && (a.Pos() < ifs.Pos() || a.Pos() >= ifs.End())
				}, Avoid: isEscAssign})
				c.R.Check(p == nil, rule, fmt.Sprintf("html.Minifier.Minify/embedded call#%d result has its ampersands escaped on every path", n), c.pos(ifs), "no path from the take-over of the buffer leaves the success branch without the escaper",
					"the escaper is skipped on a path: "+pathStr(c, g, p)+" — the minifier creates ampersands the source did not have (`onclick=\"if (ok) copy()\"` → `ok&&copy()`, which the browser reads as `ok&©()`)")
			}
		}
		return true
	})
	c.R.Floor(rule, "embedded calls on attribute values", n, 2)
	// (d) the escaper decides byte by byte: its conditions mention only the data, the loop variables and its length
	for _, efd := range load.FuncDecls(pk) {
		if efd.Body == nil || efd.Recv != nil || efd.Type.Params == nil || len(efd.Type.Params.List) != 1 {
			continue
		}
		isEsc := false
		ast.Inspect(efd.Body, func(z ast.Node) bool {
			if writesAmp(z) {
				isEsc = true
			}
			return true
		})
		if !isEsc || len(efd.Type.Params.List[0].Names) != 1 {
			continue
		}
		data := info.Defs[efd.Type.Params.List[0].Names[0]]
		loopVars := map[types.Object]bool{}
		ast.Inspect(efd.Body, func(z ast.Node) bool {
			switch e := z.(type) {
			case *ast.RangeStmt:
				for _, kv := range []ast.Expr{e.Key, e.Value} {
					if id, ok := kv.(*ast.Ident); ok {
						loopVars[info.Defs[id]] = true
					}
				}
			case *ast.ForStmt:
				if as, ok := e.Init.(*ast.AssignStmt); ok {
					for _, l := range as.Lhs {
						if id, ok := l.(*ast.Ident); ok {
							loopVars[info.Defs[id]] = true
						}
					}
				}
			}
			return true
		})
		var foreign []string
		checkCond := func(e ast.Expr) {
			if e == nil {
				return
			}
			ast.Inspect(e, func(z ast.Node) bool {
				id, ok := z.(*ast.Ident)
				if !ok {
					return true
				}
				o := info.Uses[id]
				v, isVar := o.(*types.Var)
				if !isVar || v == data || loopVars[o] || v.Parent() == pk.Types.Scope() {
					return true
				}
				// the counter of escapes needed (compared with 0 to skip the allocation) is fine
				if bt, ok := v.Type().Underlying().(*types.Basic); ok && bt.Info()&types.IsInteger != 0 {
					onlyCount := true
					ast.Inspect(efd.Body, func(w ast.Node) bool {
						if as, ok := w.(*ast.AssignStmt); ok {
							for i, l := range as.Lhs {
								if lid, ok := l.(*ast.Ident); ok && info.ObjectOf(lid) == o && i < len(as.Rhs) {
									if k, isK := intConst(info, as.Rhs[i]); !isK || k != 0 {
										onlyCount = false
									}
								}
							}
						}
						return true
					})
					if onlyCount {
						return true
					}
				}
				foreign = append(foreign, id.Name)
				return true
			})
		}
		ast.Inspect(efd.Body, func(z ast.Node) bool {
			switch e := z.(type) {
			case *ast.IfStmt:
				checkCond(e.Cond)
			case *ast.ForStmt:
				checkCond(e.Cond)
			}
			return true
		})
		construct := "html." + load.FuncName(efd) + "/escapes by looking at each byte and its successor only"
		if len(foreign) == 0 {
			c.R.OK(rule, construct, c.pos(efd), "conditions over the data, the loop variables and the length")
		} else {
			c.R.Unres(rule, construct, c.pos(efd), "the escaper's conditions depend on "+strings.Join(foreign, ", ")+", a value computed from the data as a whole (a position beyond which nothing is escaped, a flag): whether every `&` that can start a reference is still escaped cannot be judged — references without a semicolon (`&lt`, `&copy`) are decoded in attribute values too, so `f(a&amp;lt)` must not become `f(a&lt)`")
		}
		// (e) the escaper does not wait for a semicolon: the legacy names (&copy, &lt, &not, &reg …) are decoded in an attribute
		// value without one whenever the next character is not a letter, a digit or `=`. A decision that looks for `;` is
		// acceptable only when it is made by the standard decoder (html.UnescapeString knows the legacy names)
		semi, decoder := false, false
		var scan func(d *ast.FuncDecl, depth int)
		scan = func(d *ast.FuncDecl, depth int) {
			if d == nil || d.Body == nil {
				return
			}
			if chars, _, _ := c.constsIn(pk, d.Body); chars[';'] {
				semi = true
			}
			ast.Inspect(d.Body, func(z ast.Node) bool {
				ce, ok := z.(*ast.CallExpr)
				if !ok {
					return true
				}
				if calleeName(info, ce) == "html.UnescapeString" {
					decoder = true
				}
				if fo, _ := callee(info, ce).(*types.Func); fo != nil && fo.Pkg() == pk.Types && depth < 2 {
					scan(load.Func(pk, fo.Name()), depth+1)
				}
				return true
			})
		}
		scan(efd, 0)
		c.R.Check(!semi || decoder, rule, "html."+load.FuncName(efd)+"/does not wait for a semicolon", c.pos(efd), "no test against ';' in the escaper and the predicates it calls (or the decision is made by html.UnescapeString)",
			"the escaper (or a predicate it calls) looks for the `;` that closes a reference: the legacy names are decoded in attribute values without one — `onclick=\"ok&amp;&amp;copy(x)\"` is written as `ok&&copy(x)`, which the browser reads as `ok&©(x)`")
	}
}
