// Package load loads the type-checked syntax of /repo (and of all its dependencies)
// with go/packages, and lazily builds SSA and a VTA call graph on request.
package load

import (
	"fmt"
	"go/ast"
	"go/token"
	"go/types"
	"os"
	"sort"
	"strings"

	"golang.org/x/tools/go/callgraph"
	"golang.org/x/tools/go/callgraph/cha"
	"golang.org/x/tools/go/callgraph/vta"
	"golang.org/x/tools/go/packages"
	"golang.org/x/tools/go/ssa"
	"golang.org/x/tools/go/ssa/ssautil"
)

const (
	Mod      = "github.com/tdewolff/minify/v2"
	ParseMod = "github.com/tdewolff/parse/v2"
)

type Config struct {
	Dir     string            // repository root
	Overlay map[string][]byte // file name -> replacement content (self-test mutants)
	GOOS    string
	GOARCH  string
	// RawNames: do not canonicalise local names (used when dumping the reference table)
	RawNames bool
}

type Program struct {
	Cfg   Config
	Fset  *token.FileSet
	Roots []*packages.Package          // packages of the module under analysis
	All   map[string]*packages.Package // every loaded package by import path
	Deps  map[string]string            // module path -> version
	// Renamed: number of locals given their recorded (pinned-tree) name, see canon.go
	Renamed    int
	CanonNotes []string
	canonName  map[types.Object]string

	ssaProg  *ssa.Program
	ssaPkgs  map[string]*ssa.Package
	cg       *callgraph.Graph
	declOf   map[*types.Func]*ast.FuncDecl
	fileOf   map[*ast.File]*packages.Package
	parentOf map[ast.Node]ast.Node
}

func (c Config) Label() string {
	goos, goarch := c.GOOS, c.GOARCH
	if goos == "" {
		goos = "linux"
	}
	if goarch == "" {
		goarch = "amd64"
	}
	return goos + "/" + goarch
}

func Load(c Config) (*Program, error) {
	env := []string{}
	for _, kv := range os.Environ() {
		k := kv
		if i := strings.IndexByte(kv, '='); i >= 0 {
			k = kv[:i]
		}
		switch k {
		case "GOFLAGS", "GOPROXY", "GOSUMDB", "GOTOOLCHAIN", "GOWORK", "CGO_ENABLED", "GOOS", "GOARCH":
			continue
		}
		env = append(env, kv)
	}
	env = append(env, "GOFLAGS=-mod=mod", "GOPROXY=off", "GOSUMDB=off", "GOTOOLCHAIN=local", "GOWORK=off", "CGO_ENABLED=0")
	if c.GOOS != "" {
		env = append(env, "GOOS="+c.GOOS)
	}
	if c.GOARCH != "" {
		env = append(env, "GOARCH="+c.GOARCH)
	}
	fset := token.NewFileSet()
	cfg := &packages.Config{
		Mode:    packages.LoadAllSyntax | packages.NeedModule,
		Dir:     c.Dir,
		Env:     env,
		Fset:    fset,
		Tests:   false,
		Overlay: c.Overlay,
	}
	pkgs, err := packages.Load(cfg, "./...")
	if err != nil {
		return nil, fmt.Errorf("packages.Load: %v", err)
	}
	p := &Program{Cfg: c, Fset: fset, All: map[string]*packages.Package{}, Deps: map[string]string{}}
	var errs []string
	packages.Visit(pkgs, nil, func(pk *packages.Package) {
		p.All[pk.PkgPath] = pk
		if pk.Module != nil && pk.Module.Path != Mod {
			p.Deps[pk.Module.Path] = pk.Module.Version
		}
	})
	for _, pk := range pkgs {
		if strings.HasPrefix(pk.PkgPath, Mod+"/bindings") {
			continue
		}
		for _, e := range pk.Errors {
			errs = append(errs, pk.PkgPath+": "+e.Error())
		}
		if len(pk.Syntax) == 0 {
			continue
		}
		p.Roots = append(p.Roots, pk)
	}
	sort.Slice(p.Roots, func(i, j int) bool { return p.Roots[i].PkgPath < p.Roots[j].PkgPath })
	if len(errs) > 0 {
		return nil, fmt.Errorf("type errors in module packages:\n  %s", strings.Join(errs, "\n  "))
	}
	if len(p.Roots) == 0 {
		return nil, fmt.Errorf("no packages loaded from %s", c.Dir)
	}
	if !c.RawNames {
		p.Renamed, p.CanonNotes = p.Canonicalise()
		p.CanonComparisons()
		p.CanonIfElse()
	}
	return p, nil
}

// Pkg returns the module package with the given path relative to the module root
// ("" = root package, "js", "cmd/minify").
func (p *Program) Pkg(rel string) *packages.Package {
	path := Mod
	if rel != "" {
		path = Mod + "/" + rel
	}
	return p.All[path]
}

// Dep returns a loaded dependency package by full import path.
func (p *Program) Dep(path string) *packages.Package { return p.All[path] }

func (p *Program) Pos(pos token.Pos) string {
	if !pos.IsValid() {
		return "-"
	}
	pp := p.Fset.Position(pos)
	f := pp.Filename
	if strings.HasPrefix(f, p.Cfg.Dir+"/") {
		f = f[len(p.Cfg.Dir)+1:]
	} else if i := strings.Index(f, "/pkg/mod/"); i >= 0 {
		f = f[i+9:]
	}
	return fmt.Sprintf("%s:%d", f, pp.Line)
}

// FuncDecls returns all function declarations of a package, sorted by position.
func FuncDecls(pk *packages.Package) []*ast.FuncDecl {
	var out []*ast.FuncDecl
	for _, f := range pk.Syntax {
		for _, d := range f.Decls {
			if fd, ok := d.(*ast.FuncDecl); ok && fd.Body != nil {
				out = append(out, fd)
			}
		}
	}
	return out
}

// RecvName returns the name of the receiver's named type ("" for functions).
func RecvName(fd *ast.FuncDecl) string {
	if fd.Recv == nil || len(fd.Recv.List) == 0 {
		return ""
	}
	t := fd.Recv.List[0].Type
	for {
		switch x := t.(type) {
		case *ast.StarExpr:
			t = x.X
			continue
		case *ast.ParenExpr:
			t = x.X
			continue
		case *ast.IndexExpr:
			t = x.X
			continue
		case *ast.Ident:
			return x.Name
		}
		return ""
	}
}

// FuncName is "Recv.Name" or "Name".
func FuncName(fd *ast.FuncDecl) string {
	if r := RecvName(fd); r != "" {
		return r + "." + fd.Name.Name
	}
	return fd.Name.Name
}

// Func finds a function declaration by "Recv.Name" or "Name".
func Func(pk *packages.Package, name string) *ast.FuncDecl {
	if pk == nil {
		return nil
	}
	for _, fd := range FuncDecls(pk) {
		if FuncName(fd) == name {
			return fd
		}
	}
	return nil
}

// DeclOf maps a types.Func to its declaration when its source was loaded.
func (p *Program) DeclOf(fn *types.Func) *ast.FuncDecl {
	if p.declOf == nil {
		p.declOf = map[*types.Func]*ast.FuncDecl{}
		for _, pk := range p.All {
			if pk.TypesInfo == nil {
				continue
			}
			for _, f := range pk.Syntax {
				for _, d := range f.Decls {
					if fd, ok := d.(*ast.FuncDecl); ok {
						if o, ok := pk.TypesInfo.Defs[fd.Name].(*types.Func); ok {
							p.declOf[o] = fd
						}
					}
				}
			}
		}
	}
	return p.declOf[fn.Origin()]
}

// PackageVar returns the ValueSpec and index of a package-level variable.
func PackageVar(pk *packages.Package, name string) (*ast.ValueSpec, int) {
	if pk == nil {
		return nil, 0
	}
	for _, f := range pk.Syntax {
		for _, d := range f.Decls {
			gd, ok := d.(*ast.GenDecl)
			if !ok || (gd.Tok != token.VAR && gd.Tok != token.CONST) {
				continue
			}
			for _, s := range gd.Specs {
				vs := s.(*ast.ValueSpec)
				for i, n := range vs.Names {
					if n.Name == name {
						return vs, i
					}
				}
			}
		}
	}
	return nil, 0
}

// VarInit returns the initializer expression of a package-level variable, or nil.
func VarInit(pk *packages.Package, name string) ast.Expr {
	vs, i := PackageVar(pk, name)
	if vs == nil || i >= len(vs.Values) {
		return nil
	}
	return vs.Values[i]
}

// SSA builds (once) SSA form for all loaded packages.
func (p *Program) SSA() (*ssa.Program, map[string]*ssa.Package) {
	if p.ssaProg != nil {
		return p.ssaProg, p.ssaPkgs
	}
	var initial []*packages.Package
	for _, pk := range p.Roots {
		initial = append(initial, pk)
	}
	prog, _ := ssautil.AllPackages(initial, ssa.InstantiateGenerics)
	prog.Build()
	p.ssaProg = prog
	p.ssaPkgs = map[string]*ssa.Package{}
	for _, sp := range prog.AllPackages() {
		p.ssaPkgs[sp.Pkg.Path()] = sp
	}
	return prog, p.ssaPkgs
}

// SSAPkg returns the SSA package for a module-relative path.
func (p *Program) SSAPkg(rel string) *ssa.Package {
	_, m := p.SSA()
	path := Mod
	if rel != "" {
		path = Mod + "/" + rel
	}
	return m[path]
}

// SSAFunc returns the SSA function for a declaration.
func (p *Program) SSAFunc(pk *packages.Package, fd *ast.FuncDecl) *ssa.Function {
	prog, _ := p.SSA()
	o, _ := pk.TypesInfo.Defs[fd.Name].(*types.Func)
	if o == nil {
		return nil
	}
	return prog.FuncValue(o)
}

// CallGraph builds (once) the VTA call graph refined from CHA.
func (p *Program) CallGraph() *callgraph.Graph {
	if p.cg != nil {
		return p.cg
	}
	prog, _ := p.SSA()
	p.cg = vta.CallGraph(ssautil.AllFunctions(prog), cha.CallGraph(prog))
	return p.cg
}

// Parent returns the syntactic parent of a node inside the module's files.
func (p *Program) Parent(n ast.Node) ast.Node {
	if p.parentOf == nil {
		p.parentOf = map[ast.Node]ast.Node{}
		for _, pk := range p.Roots {
			for _, f := range pk.Syntax {
				var stack []ast.Node
				ast.Inspect(f, func(n ast.Node) bool {
					if n == nil {
						stack = stack[:len(stack)-1]
						return true
					}
					if len(stack) > 0 {
						p.parentOf[n] = stack[len(stack)-1]
					}
					stack = append(stack, n)
					return true
				})
			}
		}
	}
	return p.parentOf[n]
}

// EnclosingFunc returns the FuncDecl enclosing a node (nil at package level).
func (p *Program) EnclosingFunc(n ast.Node) *ast.FuncDecl {
	for n != nil {
		if fd, ok := n.(*ast.FuncDecl); ok {
			return fd
		}
		n = p.Parent(n)
	}
	return nil
}

// SortedDeps renders dependency versions deterministically.
func (p *Program) SortedDeps() []string {
	var out []string
	for k, v := range p.Deps {
		out = append(out, k+"@"+v)
	}
	sort.Strings(out)
	return out
}
