package load

import (
	_ "embed"
	"encoding/json"
	"go/ast"
	"go/token"
	"go/types"
	"sort"
	"strings"

	"golang.org/x/tools/go/packages"
)

// Canonical local names.
//
// Many rules identify a local variable of an anchored function by the name it has on the
// pinned tree (`omitSpace`, `precLeft`, `t` …). Renaming a local is a behaviour-preserving
// edit that must not raise an alarm. locals.json (generated from the pinned tree by
// `minverif -dump-locals`) records, for every function of the module, its locals in
// declaration order with kind and type. After loading, each function's current locals are
// matched against that record and the identifiers of a renamed local are given their
// recorded name *in the syntax tree the rules read* (types.Info is keyed by identifier
// pointer, so it is unaffected). Matching is conservative: a local that still carries a
// recorded name keeps it; the remaining recorded names and the remaining current locals are
// paired, per (kind, type), in declaration order, and only when their numbers agree.

//go:embed locals.json
var localsJSON []byte

type LocalRec struct {
	Name string `json:"n"`
	Kind string `json:"k"` // recv | param | result | local | tswitch
	Type string `json:"t"`
}

type localsTable map[string][]LocalRec // "pkgpath.FuncName" -> locals

type curLocal struct {
	LocalRec
	obj    types.Object   // nil for tswitch
	idents []*ast.Ident   // every identifier denoting it
	pos    token.Pos
}

func qual(p *types.Package) string { return p.Path() }

// NameOf returns the name under which the rules see object o (its recorded name when it was renamed).
func (p *Program) NameOf(o types.Object) string {
	if n, ok := p.canonName[o]; ok {
		return n
	}
	return o.Name()
}

// typeKey renders a type without the parameter names of function types (they are locals too).
func typeKey(t types.Type) string {
	switch x := t.(type) {
	case *types.Signature:
		var b strings.Builder
		b.WriteString("func(")
		for i := 0; i < x.Params().Len(); i++ {
			if i > 0 {
				b.WriteString(", ")
			}
			if x.Variadic() && i == x.Params().Len()-1 {
				b.WriteString("...")
			}
			b.WriteString(typeKey(x.Params().At(i).Type()))
		}
		b.WriteString(")")
		for i := 0; i < x.Results().Len(); i++ {
			b.WriteString(" " + typeKey(x.Results().At(i).Type()))
		}
		return b.String()
	case *types.Pointer:
		return "*" + typeKey(x.Elem())
	case *types.Slice:
		return "[]" + typeKey(x.Elem())
	case *types.Map:
		return "map[" + typeKey(x.Key()) + "]" + typeKey(x.Elem())
	}
	return types.TypeString(t, qual)
}

// localsOf lists the locals of fd in declaration order.
func localsOf(pk *packages.Package, fd *ast.FuncDecl) []*curLocal {
	info := pk.TypesInfo
	byObj := map[types.Object]*curLocal{}
	var out []*curLocal
	kindOf := map[types.Object]string{}
	mark := func(fl *ast.FieldList, k string) {
		if fl == nil {
			return
		}
		for _, f := range fl.List {
			for _, nm := range f.Names {
				if o := info.Defs[nm]; o != nil {
					kindOf[o] = k
				}
			}
		}
	}
	mark(fd.Recv, "recv")
	mark(fd.Type.Params, "param")
	mark(fd.Type.Results, "result")
	add := func(o types.Object, id *ast.Ident) {
		v, ok := o.(*types.Var)
		if !ok || v.IsField() || v.Pkg() == nil || v.Parent() == nil || v.Parent() == v.Pkg().Scope() {
			return
		}
		cl := byObj[o]
		if cl == nil {
			k := kindOf[o]
			if k == "" {
				k = "local"
			}
			cl = &curLocal{LocalRec: LocalRec{Name: v.Name(), Kind: k, Type: typeKey(v.Type())}, obj: o, pos: v.Pos()}
			byObj[o] = cl
			out = append(out, cl)
		}
		cl.idents = append(cl.idents, id)
	}
	var visit func(n ast.Node)
	visit = func(n ast.Node) {
		ast.Inspect(n, func(x ast.Node) bool {
			switch e := x.(type) {
			case *ast.Ident:
				if e.Name == "_" {
					return true
				}
				if o := info.Defs[e]; o != nil {
					add(o, e)
				} else if o := info.Uses[e]; o != nil {
					add(o, e)
				}
			case *ast.TypeSwitchStmt:
				// the symbol of `switch x := y.(type)` has one implicit object per clause
				if as, ok := e.Assign.(*ast.AssignStmt); ok && len(as.Lhs) == 1 {
					if id, ok := as.Lhs[0].(*ast.Ident); ok && id.Name != "_" {
						cl := &curLocal{LocalRec: LocalRec{Name: id.Name, Kind: "tswitch", Type: ""}, pos: id.Pos()}
						cl.idents = append(cl.idents, id)
						impl := map[types.Object]bool{}
						for _, c := range e.Body.List {
							if o := info.Implicits[c]; o != nil {
								impl[o] = true
							}
						}
						ast.Inspect(e.Body, func(y ast.Node) bool {
							if uid, ok := y.(*ast.Ident); ok && impl[info.Uses[uid]] {
								cl.idents = append(cl.idents, uid)
							}
							return true
						})
						out = append(out, cl)
					}
				}
			}
			return true
		})
	}
	if fd.Recv != nil {
		visit(fd.Recv)
	}
	visit(fd.Type)
	if fd.Body != nil {
		visit(fd.Body)
	}
	// implicit type-switch objects were also collected as ordinary vars through Uses: drop those
	var res []*curLocal
	implicit := map[types.Object]bool{}
	for _, o := range info.Implicits {
		implicit[o] = true
	}
	for _, cl := range out {
		if cl.obj != nil && implicit[cl.obj] {
			continue
		}
		res = append(res, cl)
	}
	sort.SliceStable(res, func(i, j int) bool { return res[i].pos < res[j].pos })
	return res
}

func funcKey(pk *packages.Package, fd *ast.FuncDecl) string {
	return pk.PkgPath + "." + FuncName(fd)
}

// DumpLocals renders the table for the loaded program.
func (p *Program) DumpLocals() []byte {
	t := localsTable{}
	for _, pk := range p.Roots {
		for _, fd := range FuncDecls(pk) {
			var recs []LocalRec
			for _, cl := range localsOf(pk, fd) {
				recs = append(recs, cl.LocalRec)
			}
			if len(recs) > 0 {
				t[funcKey(pk, fd)] = recs
			}
		}
	}
	b, _ := json.MarshalIndent(t, "", " ")
	return b
}

// Canonicalise gives renamed locals their recorded names in the syntax trees; returns the
// number of locals renamed.
func (p *Program) Canonicalise() (renamed int, notes []string) {
	var t localsTable
	if err := json.Unmarshal(localsJSON, &t); err != nil || len(t) == 0 {
		return 0, []string{"locals.json missing or unreadable: local names are taken as they are"}
	}
	for _, pk := range p.Roots {
		for _, fd := range FuncDecls(pk) {
			ref := t[funcKey(pk, fd)]
			if len(ref) == 0 {
				continue
			}
			cur := localsOf(pk, fd)
			curNames := map[string]int{}
			for _, c := range cur {
				curNames[c.Name]++
			}
			refNames := map[string]bool{}
			for _, r := range ref {
				refNames[r.Name] = true
			}
			// unmatched recorded names: no current local has that name
			group := func(k, ty string) string { return k + "|" + ty }
			refLeft := map[string][]LocalRec{}
			for _, r := range ref {
				if curNames[r.Name] == 0 {
					g := group(r.Kind, r.Type)
					dup := false
					for _, x := range refLeft[g] {
						if x.Name == r.Name {
							dup = true
						}
					}
					if !dup {
						refLeft[g] = append(refLeft[g], r)
					}
				}
			}
			if len(refLeft) == 0 {
				continue
			}
			curLeft := map[string][]*curLocal{}
			seen := map[string]bool{}
			for _, c := range cur {
				if refNames[c.Name] {
					continue
				}
				g := group(c.Kind, c.Type)
				// several locals of one new name and type (shadowing in sibling blocks) count once per name
				k := g + "|" + c.Name
				if seen[k] {
					// attach identifiers to the first of that name so that all get renamed alike
					for _, x := range curLeft[g] {
						if x.Name == c.Name {
							x.idents = append(x.idents, c.idents...)
						}
					}
					continue
				}
				seen[k] = true
				curLeft[g] = append(curLeft[g], c)
			}
			for g, rs := range refLeft {
				cs := curLeft[g]
				if len(cs) != len(rs) {
					notes = append(notes, funcKey(pk, fd)+": "+strings.TrimSuffix(g, "|")+": recorded locals missing and not uniquely recoverable")
					continue
				}
				for i, r := range rs {
					for _, id := range cs[i].idents {
						id.Name = r.Name
					}
					if cs[i].obj != nil {
						if p.canonName == nil {
							p.canonName = map[types.Object]string{}
						}
						p.canonName[cs[i].obj] = r.Name
					}
					renamed++
				}
			}
		}
	}
	return renamed, notes
}

// CanonComparisons writes every ordering comparison with the smaller side on the left
// (`a > b` becomes `b < a`, `a >= b` becomes `b <= a`) and every (in)equality with a constant
// operand on the right, in the syntax trees the rules read: the direction in which a
// comparison is written is not behaviour. Operands are swapped only when neither contains a
// call (evaluation order).
func (p *Program) CanonComparisons() int {
	n := 0
	for _, pk := range p.Roots {
		info := pk.TypesInfo
		isConst := func(e ast.Expr) bool {
			if tv, ok := info.Types[e]; ok && tv.Value != nil {
				return true
			}
			if id, ok := ast.Unparen(e).(*ast.Ident); ok && id.Name == "nil" {
				return true
			}
			return false
		}
		hasCall := func(e ast.Expr) bool {
			found := false
			ast.Inspect(e, func(x ast.Node) bool {
				switch x.(type) {
				case *ast.CallExpr, *ast.FuncLit, *ast.UnaryExpr:
					if u, ok := x.(*ast.UnaryExpr); ok && u.Op != token.ARROW {
						return true
					}
					if c, ok := x.(*ast.CallExpr); ok {
						if id, ok := c.Fun.(*ast.Ident); ok && (id.Name == "len" || id.Name == "cap") {
							return true
						}
						if tv, ok := info.Types[c.Fun]; ok && tv.IsType() {
							return true // conversion
						}
					}
					found = true
				}
				return true
			})
			return found
		}
		for _, f := range pk.Syntax {
			ast.Inspect(f, func(x ast.Node) bool {
				b, ok := x.(*ast.BinaryExpr)
				if !ok {
					return true
				}
				switch b.Op {
				case token.GTR, token.GEQ:
					if hasCall(b.X) || hasCall(b.Y) {
						return true
					}
					b.X, b.Y = b.Y, b.X
					if b.Op == token.GTR {
						b.Op = token.LSS
					} else {
						b.Op = token.LEQ
					}
					n++
				case token.EQL, token.NEQ:
					if isConst(b.X) && !isConst(b.Y) && !hasCall(b.Y) {
						b.X, b.Y = b.Y, b.X
						n++
					} else if !isConst(b.X) && !isConst(b.Y) && !hasCall(b.X) && !hasCall(b.Y) && types.ExprString(b.Y) < types.ExprString(b.X) {
						// neither side constant: a fixed (lexicographic) order
						b.X, b.Y = b.Y, b.X
						n++
					}
				}
				return true
			})
		}
	}
	return n
}

// CanonIfElse writes `if !C {A} else {B}` (no init statement, plain else block) as
// `if C {B} else {A}` in the syntax trees the rules read: which of two alternatives is written
// first is not behaviour.
func (p *Program) CanonIfElse() int {
	n := 0
	for _, pk := range p.Roots {
		for _, f := range pk.Syntax {
			ast.Inspect(f, func(x ast.Node) bool {
				ifs, ok := x.(*ast.IfStmt)
				if !ok || ifs.Init != nil || ifs.Else == nil {
					return true
				}
				eb, ok := ifs.Else.(*ast.BlockStmt)
				if !ok {
					return true
				}
				u, ok := ast.Unparen(ifs.Cond).(*ast.UnaryExpr)
				if !ok || u.Op != token.NOT {
					return true
				}
				ifs.Cond = ast.Unparen(u.X)
				ifs.Body, ifs.Else = eb, ifs.Body
				n++
				return true
			})
		}
	}
	return n
}
